#!/usr/bin/env python3
"""Entry point:  check.py <Cnn> <quick|thorough>      run a property's check
               check.py <Cnn> --replay <file>       replay one recorded violation
               check.py --prebuild                  build every harness (setup_cmd)
"""
import importlib, json, os, sys

sys.path.insert(0, os.path.dirname(os.path.abspath(__file__)))
os.environ.setdefault("LC_ALL", "C")


def main():
    a = sys.argv[1:]
    if not a:
        print(__doc__)
        return 2
    if a[0] == "--prebuild":
        # build the harnesses of every check registered in MANIFEST.json (or of the properties named on the command line)
        from concurrent.futures import ThreadPoolExecutor
        here = os.path.dirname(os.path.abspath(__file__))
        only = [x.upper() for x in a[1:]]
        if not only:
            with open(os.path.join(here, "MANIFEST.json")) as fh:
                only = [c["property_id"].upper() for c in json.load(fh)["checks"]]
        failed = []
        def one(pid):
            try:
                mod = importlib.import_module("checks." + pid.lower())
                if hasattr(mod, "prebuild"):
                    mod.prebuild()
            except BaseException as e:   # a failing build must not hide the others
                failed.append((pid, repr(e)))
        with ThreadPoolExecutor(max_workers=4) as ex:
            list(ex.map(one, only))
        for pid, e in failed:
            sys.stderr.write("prebuild of %s failed: %s\n" % (pid, e))
        return 1 if failed else 0
    prop = a[0].upper()
    mod = importlib.import_module("checks." + prop.lower())
    if len(a) >= 3 and a[1] == "--replay":
        with open(a[2]) as fh:
            rec = json.load(fh)
        if "crash" in rec:
            # a harness process that died in the library code: rebuild for the current tree and run the same slice again
            from lib import build, runner
            mod.prebuild()
            c = rec["crash"]
            path = build.LAST.get(c["binary"])
            if not path:
                sys.stderr.write("  cannot locate harness binary %s\n" % c["binary"])
                return 2
            ok, detail = runner.replay_crash([path] + c["args"], c["env"], c["timeout"])
        else:
            ok, detail = mod.replay(rec["sig"])
        if ok:
            print("VIOLATION property=%s replay=%s" % (prop, a[2]))
            sys.stderr.write("  reproduced: %s :: %s\n" % (rec["sig"], detail))
            return 1
        sys.stderr.write("  not reproduced: %s\n" % rec["sig"])
        return 0
    tier = a[1] if len(a) > 1 else os.environ.get("VERIF_TIER", "quick")
    if tier not in ("quick", "thorough"):
        print(__doc__)
        return 2
    mod.run(tier)
    return 0


if __name__ == "__main__":
    sys.exit(main())
