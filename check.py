#!/usr/bin/env python3
"""Entry point:  check.py <Cnn> <quick|thorough>      run a property's check
               check.py <Cnn> --replay <file>       replay one recorded violation
               check.py --prebuild                  build every harness (setup_cmd)
"""
import importlib, json, os, sys

sys.path.insert(0, os.path.dirname(os.path.abspath(__file__)))
os.environ.setdefault("LC_ALL", "C")


def main():
    a = sys.argv[1:]
    if not a:
        print(__doc__)
        return 2
    if a[0] == "--prebuild":
        from concurrent.futures import ThreadPoolExecutor
        mods = sorted(f[:-3] for f in os.listdir(os.path.join(os.path.dirname(os.path.abspath(__file__)), "checks"))
                      if f.startswith("c") and f.endswith(".py"))
        only = a[1:]
        def one(m):
            if only and m.upper() not in [x.upper() for x in only]:
                return
            mod = importlib.import_module("checks." + m)
            if hasattr(mod, "prebuild"):
                mod.prebuild()
        with ThreadPoolExecutor(max_workers=4) as ex:
            list(ex.map(one, mods))
        return 0
    prop = a[0].upper()
    mod = importlib.import_module("checks." + prop.lower())
    if len(a) >= 3 and a[1] == "--replay":
        with open(a[2]) as fh:
            rec = json.load(fh)
        ok, detail = mod.replay(rec["sig"])
        if ok:
            print("VIOLATION property=%s replay=%s" % (prop, a[2]))
            sys.stderr.write("  reproduced: %s :: %s\n" % (rec["sig"], detail))
            return 1
        sys.stderr.write("  not reproduced: %s\n" % rec["sig"])
        return 0
    tier = a[1] if len(a) > 1 else os.environ.get("VERIF_TIER", "quick")
    if tier not in ("quick", "thorough"):
        print(__doc__)
        return 2
    mod.run(tier)
    return 0


if __name__ == "__main__":
    sys.exit(main())
