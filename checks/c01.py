"""C01 — JSON text round-trip is lossless and canonical (DESIGN.md §4 C01)."""
from lib import build, runner

PROP = "C01"
FLAGS = ["-O2"]


def _bin():
    return build.build("c01", ["harness/c01.cpp"], FLAGS)


def prebuild():
    _bin()


def run(tier):
    b = _bin()
    ck = runner.Check(PROP, tier, "exploration")
    q = tier == "quick"
    n = runner.NCPU * 2
    t = ["tier=" + tier]
    for st in (["escape"] + t, ["strings"] + t, ["numbers"] + t,
               ["layout", "N=%d" % (5 if q else 6)] + t, ["options", "N=%d" % (4 if q else 5)] + t):
        ck.add(runner.run_slices(b, st, nslices=n))
    ck.rule = ("(1) every Unicode scalar value (quick: BMP + every plane boundary +-2) as string value and member name x 4 escape-option "
               "sets, expected text computed independently per character class; (2) all strings of length <= 3 over 16 escaper-class "
               "symbols, short and heap-stored, alone and inside array/object; (3) boundary integers, doubles, big integers / decimals "
               "outside the native ranges; (4) all trees with <= N nodes x all 3^5 line-split combinations x 3 line-length limits, and "
               "x every option set within <= 2 deviations from the default over indent/spaces/padding/new-line/escape options; through "
               "dump, dump_pretty, operator<< (print/pretty_print) and encode_json, for json and ojson (and wjson for the escaper). "
               "Oracle per case: independent RFC 8259 reference accepts the text with the same value; own parser returns the same model "
               "value (kind, integer/floating distinction, bignum tag and digits); re-serialization is byte-identical; pretty output "
               "differs from compact only by inter-token whitespace. non-trivial = distinct values enumerated.")
    ck.assumptions = ["float_format / precision / bignum_format are excluded, as the statement says",
                      "int64 vs uint64 storage of the same non-negative integer is not distinguished (the statement speaks of the integer/floating distinction)"]
    ck.finish(replay)


def replay(sig):
    rc, out, err = runner.run_cmd([_bin(), "replay", sig], timeout=300)
    r = runner.Result()
    r.feed(out)
    if r.viol:
        return True, list(r.viol.values())[0]
    return False, ""
