"""C02 — the JSON parser accepts exactly RFC 8259 (see DESIGN.md §4 C02)."""
from lib import build, runner

PROP = "C02"
FLAGS = ["-O2", "-fno-access-control", "-DVF_PRIV"]
ALL_OPTS = ",".join(str(i) for i in range(32))
ALL_ENTRIES = 63


def _bin():
    return build.build("c02", ["harness/c02.cpp"], FLAGS)


def prebuild():
    _bin()


def run(tier):
    b = _bin()
    ck = runner.Check(PROP, tier, "model_checking")
    q = tier == "quick"
    stages = [
        # (A) character alphabet, strict options, reusable parser: every string up to L
        ["chars", "L=%d" % (6 if q else 7), "opts=0", "entries=1"],
        # every entry point (parser, parse, reader, ojson, wchar_t, istream) x every decode-option set
        ["chars", "L=4", "opts=" + ALL_OPTS, "entries=%d" % ALL_ENTRIES],
        # one option deviating at a time (and comments+trailing together), one length further
        ["chars", "L=%d" % (5 if q else 6), "from=%d" % (5 if q else 6), "opts=1,2,3,4,8,16", "entries=1"],
        # token alphabet (comments, escapes, surrogate pairs, numbers, literals)
        ["tokens", "L=%d" % (5 if q else 6), "opts=0,3", "entries=%d" % (1 | 2 | 8)],
        # comment sub-automaton alphabet, comments enabled (and disabled: nothing else may be relaxed)
        ["comments", "L=%d" % (7 if q else 9), "opts=1,3,0", "entries=1"],
        ["comments", "L=%d" % (5 if q else 6), "opts=1", "entries=%d" % ALL_ENTRIES],
        ["tokens", "L=%d" % (4 if q else 5), "opts=" + ALL_OPTS, "entries=%d" % ALL_ENTRIES],
        # raw bytes inside strings (UTF-8 validation): every byte sequence up to L bytes, class representatives up to R bytes,
        # as value, member name and array element, through the five char entry points
        # one comment at every gap of every structural token sequence, comments on, trailing comma off and on
        ["cgaps", "L=%d" % (6 if q else 7), "opts=1,3", "entries=%d" % (1 if q else 3)],
        # duplicate member names in objects of up to N members, four arrangements of the names
        ["wide", "N=%d" % (40 if q else 80), "entries=%d" % ALL_ENTRIES],
        ["utf8", "L=%d" % (2 if q else 3), "R=%d" % (4 if q else 5), "opts=0", "entries=47"],
    ]
    if not q:
        # one length further through every entry point: strict, each option alone, all options together
        stages.insert(2, ["chars", "L=5", "from=5", "opts=0,1,2,4,8,16,3,31", "entries=%d" % ALL_ENTRIES])
    for st in stages:
        ck.add(runner.run_slices(b, st, nslices=runner.NCPU * 4))
    # (B) product search with the reference pushdown automaton
    ck.add(runner.run_slices(b, ["B", "depth=3"], nslices=1))
    ck.rule = ("(A) every string of length <= L over a 30-character alphabet (one symbol per case label of the parser's "
               "switches) and every sequence of <= L tokens over a 24-token alphabet, through json_parser (reused via "
               "reinitialize), json::parse, json_string_reader, ojson::parse, wjson::parse and json::parse(istream), under "
               "the 32 decode-option sets {comments,trailing comma,max depth 2,lossless_number,lossless_bignum}; oracle: "
               "an independently written RFC 8259 recursive-descent reference (accept/reject and value as model value). "
               "(U) every byte sequence of <= 2 (thorough 3) bytes over all 256 values and of <= 4 (5) bytes over 28 representatives of the "
               "UTF-8 lead/continuation classes, inside a string value, a member name and an array element: accepted iff RFC 3629 "
               "well-formed. non-trivial = (text, option set) pairs the reference accepts. (B) BFS over pairs (json_parser private "
               "state fed one character per update(), reference pushdown automaton state), nesting depth <= 3.")
    ck.rule += " Stages completed (alphabet, max length L, option-set indices, entry-point mask): " + "; ".join(" ".join(st) for st in stages) + "; B depth=3."
    ck.assumptions = [
        "escapes denoting lone or mis-paired surrogates and comments after the root value are outside the statement: abstained",
        "numeric values at the edge of the double range (strtod ERANGE) are judged by C04, not here",
        "the product search drops buffer_, cp_ and position counters from the state key: with the ASCII alphabet (no hex digit d) "
        "no accept/reject decision reads them",
    ]
    ck.finish(lambda sig: replay(sig))


def replay(sig):
    b = _bin()
    rc, out, err = runner.run_cmd([b, "replay", sig], timeout=120)
    r = runner.Result()
    r.feed(out)
    if r.viol:
        return True, list(r.viol.values())[0]
    return False, ""
