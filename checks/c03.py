"""C03 — decoding does not depend on how the input is delivered (DESIGN.md §4 C03)."""
import sys
from lib import build, runner

PROP = "C03"
ASAN = ["-O1", "-fsanitize=address,undefined", "-fno-sanitize-recover=undefined", "-fno-sanitize=nonnull-attribute", "-fno-access-control", "-DVF_PRIV"]
FAST = ["-O2", "-fno-access-control", "-DVF_PRIV"]
ENV = {"ASAN_OPTIONS": "detect_leaks=1:abort_on_error=0:exitcode=77", "UBSAN_OPTIONS": "print_stacktrace=1:halt_on_error=1:exitcode=78"}

# parser suspend points that the chunkings must have exercised (state/number_state/string_state)
REQUIRED = (["17/%d/-" % i for i in range(8)] + ["15/-/%d" % i for i in range(12)] +
            ["%d/-/-" % i for i in list(range(18, 28)) + [28, 3, 4, 5, 6]])


def _bins():
    return (build.build("c03_asan", ["harness/c03.cpp"], ASAN), build.build("c03_fast", ["harness/c03.cpp"], FAST),
            build.build("c03b_asan", ["harness/c03b.cpp"], ASAN))


def prebuild():
    _bins()


def run(tier):
    asan, fast, bbin = _bins()
    ck = runner.Check(PROP, tier, "fault_enumeration")
    q = tier == "quick"
    n = runner.NCPU * 4
    if q:
        stages = [
            (asan, ["chars", "L=3", "allmodes=1", "modes=15"]),
            (asan, ["chars", "L=4", "from=4", "allmodes=0", "modes=7"]),
            (asan, ["tokens", "L=3", "allmodes=1", "modes=15"]),
            (asan, ["tokens", "L=3", "allmodes=0", "modes=7", "comments=0", "tcomma=1"]),
            (asan, ["pairs", "allmodes=1", "modes=15"]),
        ]
    else:
        stages = [
            (asan, ["chars", "L=4", "allmodes=1", "modes=15"]),
            (fast, ["chars", "L=5", "from=5", "allmodes=0", "modes=7"]),
            (asan, ["tokens", "L=3", "allmodes=1", "modes=15"]),
            (fast, ["tokens", "L=4", "from=4", "allmodes=0", "modes=7", "cuts=1"]),
            (asan, ["tokens", "L=3", "allmodes=1", "modes=15", "comments=0", "tcomma=1"]),
            (asan, ["pairs", "allmodes=1", "modes=15"]),
        ]
    for b, st in stages:
        ck.add(runner.run_slices(b, st, nslices=n, env=ENV))
    # binary formats and CSV over bytes / stream(k) / iterator(k) sources and cursors
    ck.add(runner.run_slices(bbin, ["all", "tier=" + tier], nslices=n, env=ENV))
    seen = set(c[len("suspended:"):] for c in ck.res.sets if c.startswith("suspended:"))
    missing = [r for r in REQUIRED if r not in seen]
    ck.extra["suspend_points_required"] = len(REQUIRED)
    ck.extra["suspend_points_missing"] = missing
    if missing:
        sys.stderr.write("warning: C03 chunkings did not suspend the parser in states %s\n" % missing)
    ck.rule = ("JSON: every string of length <= L over a 31-character alphabet and every sequence of <= 3 (thorough 4) tokens "
               "over a 25-token alphabet (long numbers, escapes, surrogate pairs, CR LF, comments), and every ordered pair of 19 items (strings "
               "with each escape class, numbers of each syntax class, literals, empty containers) in 5 two-value contexts; each delivered in every "
               "composition into chunks (inputs <= 12 bytes) or every <=2-cut and every uniform chunking (longer), to the "
               "incremental parser, json_reader and json_cursor over a scripted source (eager and lazy eof), stream_source(k) "
               "and iterator_source(k) for every k, a one-byte streambuf; access modes: recording visitor, json_decoder, cursor "
               "next(), read_to at every event index, filter view, staj array/object iterators. Binary formats and CSV: see "
               "counters b_*. Oracle: same events on success, same error_code on failure. non-trivial = inputs that decode successfully.")
    ck.assumptions = [
        "on failure only the error kind is compared (the number of events already delivered before the error is not part of the statement)",
        "json_cursor constructors turn unexpected_eof before the first event into a done cursor (all constructors, by design): treated as equal to unexpected_eof with no events",
        "ASan+UBSan build: stale chunk pointers kept by the parser are reported (each chunk lives in its own heap block)",
        "CSV read_to is exercised on texts without quote characters only: a cursor stepped after read_to over an unterminated quoted field reads "
        "outside the parser's mode stack (same end-of-input state machine as finding F70, recorded under C05)",
    ]
    ck.finish(lambda sig: replay(sig))


def replay(sig):
    asan, fast, bbin = _bins()
    b = bbin if sig.startswith("B|") else asan
    rc, out, err = runner.run_cmd([b, "replay", sig], timeout=300, env=ENV)
    r = runner.Result()
    r.feed(out)
    if sig in r.viol:
        return True, r.viol[sig]
    return False, ""
