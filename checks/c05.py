"""C05 — no input or option can make a decoder, compiler or encoder misbehave (DESIGN.md §4 C05)."""
from concurrent.futures import ThreadPoolExecutor
from lib import build, runner

PROP = "C05"
FLAGS = ["-O1", "-fsanitize=address,undefined", "-fsanitize-recover=address,undefined"]
ENV = {"ASAN_OPTIONS": "halt_on_error=0:detect_leaks=0:allocator_may_return_null=1", "UBSAN_OPTIONS": "print_stacktrace=0"}
UNITS = ["bin", "text", "query", "schema", "enc"]


def _bins():
    with ThreadPoolExecutor(max_workers=5) as ex:
        futs = {u: ex.submit(build.build, "c05_" + u, ["harness/c05_%s.cpp" % u], FLAGS) for u in UNITS}
        return {u: f.result() for u, f in futs.items()}


def prebuild():
    _bins()


def run(tier):
    bins = _bins()
    ck = runner.Check(PROP, tier, "exploration")
    for u in UNITS:
        ck.add(runner.run_slices(bins[u], ["tier=" + tier], nslices=runner.NCPU * 2, env=ENV, timeout=7000, jobs=runner.NCPU))
    ck.rule = ("bounded-exhaustive inputs under ASan+UBSan, allocation-balance leak check, per-case watchdog, exception-type check: "
               "(bin) every byte string of length <= 2 and 3-byte strings with 19 representative middle bytes (thorough: all 3-byte strings), plus "
               "structured inputs: every head carrying a 1/2/4/8-byte length or count x 22 boundary values x 3 tails x bare/in array/as key/"
               "as chunk/under tags (CBOR, MessagePack, UBJSON), every BSON element type x 16 int32 length values x 4 payload sizes x document "
               "size exact/off by one/degenerate "
               "x CBOR/MessagePack/UBJSON/BSON x 9 entry points (try_decode from bytes/istream/iterators, throwing decode + dump, cursors "
               "over bytes and a 2-byte stream buffer, reader + json_decoder, typed decode to vector<double> and map<string,string>); "
               "(text) every string of length <= 4 (5) over a 30-symbol JSON alphabet incl. invalid UTF-8 x 3 option sets/readers/"
               "cursors/typed decode/wjson, <= 5 (6) over a 13-symbol CSV alphabet x 8 option sets + cursor, <= 4 (5) over a 16-symbol TOON "
               "alphabet, <= 6 (7) over a JSON Pointer alphabet through parse and every editing function, <= 5 (6) over a URI alphabet "
               "through parse/resolve/base; (query) every sequence of <= 4 (5) tokens over 28 JSONPath and 29 JMESPath tokens through "
               "compile + evaluate + json_query/json_replace/search; (schema) 57 keywords x 30 values x 5 drafts alone and nested, compiled "
               "and run on 6 instances; (enc) every storage kind x all 22 semantic tags x well- and ill-typed contents (and non-finite "
               "doubles, ext byte strings), alone and in 4 container shapes, through JSON (4 float formats x 5 precisions, bignum and byte "
               "string formats, NaN/Inf substitutes), CBOR (plain, packed+typed arrays), MessagePack, UBJSON, BSON, CSV, TOON encoders and "
               "as<T>() conversions; and every encoder into a std::ostream with 3 value shapes whose content crosses the sink's 16384-byte "
               "buffer end at every one of 81 alignments; and every reader (JSON, CSV, CBOR definite and indefinite, MessagePack, UBJSON counted "
               "and uncounted, BSON) piped straight into every encoder on 5 documents. Oracle: terminates; only json_exception-family exceptions or error codes; no sanitizer report; no "
               "leak. non-trivial = cases in which every entry point behaved.")
    ck.assumptions = ["each case runs in a forked child; a crash, fatal sanitizer report or time-out is attributed to the case whose index the child had published",
                      "leak = allocation count not restored after the call, confirmed by an immediate second run of the same call (one-time static initialisation is not a leak)",
                      "std::bad_alloc is accepted as an outcome here; allocation behaviour is judged by C10 and C19"]
    ck.finish(replay)


def replay(sig):
    bins = _bins()
    unit = {"BIN": "bin", "TXT": "text", "QRY": "query", "SCH": "schema", "ENC": "enc"}[sig.split("|")[0]]
    core = "|".join(sig.split("|")[:3])
    rc, out, err = runner.run_cmd([bins[unit], "replay", core], timeout=900, env=ENV)
    r = runner.Result()
    r.feed(out)
    for k in r.viol:
        if k == sig:
            return True, "reproduced"
    for k in r.viol:
        if k.startswith(core):
            return True, "reproduced"
    return False, ""
