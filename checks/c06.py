"""C06 — binary formats round-trip the data model (DESIGN.md §4 C06).

C++ explorer (harness/c06.cpp, c06_typed.cpp): every value of an explicitly enumerated set is encoded with the real
CBOR / MessagePack / UBJSON / BSON encoder through the DOM (json and ojson), the streaming-encoder event interface
(declared lengths and, where the format has them, indefinite lengths) and the typed std::vector<T> entry point, decoded
with the real decoder and compared — as model values — with what the format's documented domain mapping makes of it.
Python judge: for every case that passed, the written bytes are decoded by the independent reference decoders
(lib/ref_cbor.py, ref_msgpack.py, ref_ubjson.py, ref_bson.py; CBOR stringref resolved by lib/c06_stringref.py) and must
denote the value jsoncons decoded: an encoder defect and a decoder defect that cancel each other show up here.
"""
import hashlib, os, subprocess
from concurrent.futures import ProcessPoolExecutor
from lib import build, runner, mvtext as mv
from lib import ref_cbor, ref_msgpack, ref_ubjson, ref_bson, c06_stringref

PROP = "C06"
FLAGS = ["-O2"]
REF = {"cbor": ref_cbor, "msgpack": ref_msgpack, "ubjson": ref_ubjson, "bson": ref_bson}
NSLICES = 16
REF_VIOL_CAP = 12      # REF violations kept per (format, class) and task


def _bin():
    # the shared header is not a translation unit: put its digest into the flags so that the build cache sees edits to it
    with open(os.path.join(build.VERIF, "harness", "c06_common.hpp"), "rb") as fh:
        digest = hashlib.sha256(fh.read()).hexdigest()[:16]
    return build.build("c06", ["harness/c06.cpp", "harness/c06_typed.cpp"], FLAGS + ["-DC06_COMMON_DIGEST=0x" + digest])


def prebuild():
    _bin()


# =============================================================================================
# the reference judge

def _ref_equal(fmt, r, v):
    """Does the value v decoded by jsoncons denote the reference value r?  mvtext.equal with the abstentions of this check:
    array tags are not compared (typed arrays come back as plain arrays), UBJSON high-precision numbers are one kind."""
    k = r[0]
    if k == 'arr':
        if v[0] != 'arr' or len(v[1]) != len(r[1]):
            return False
        for a, b in zip(r[1], v[1]):
            if not _ref_equal(fmt, a, b):
                return False
        return True
    if k == 'obj':
        if v[0] != 'obj' or len(v[1]) != len(r[1]):
            return False
        m = {}
        for kk, vv in v[1]:
            if kk in m:
                return False
            m[kk] = vv
        for kk, rv in r[1]:
            if kk not in m or not _ref_equal(fmt, rv, m[kk]):
                return False
        return True
    if k == 'num' and fmt == "ubjson":
        if v[0] == 'str' and v[2] in (mv.TAG_BIGINT, mv.TAG_BIGDEC):
            f = mv._parse_decimal(v[1])
            return f is not None and f == r[1]
        return v[0] == 'int' and v[2] == 0 and r[1] == v[1]
    return mv.equal(r, v)


def _first_diff(fmt, r, v, path="$"):
    if r[0] in ('arr', 'obj') and v[0] == r[0] and len(r[1]) == len(v[1]):
        if r[0] == 'arr':
            for i, (a, b) in enumerate(zip(r[1], v[1])):
                if not _ref_equal(fmt, a, b):
                    return _first_diff(fmt, a, b, "%s[%d]" % (path, i))
        else:
            m = dict(v[1])
            for kk, rv in r[1]:
                if kk not in m:
                    return r[0], "%s: member %s missing" % (path, mv.show(kk)[:40])
                if not _ref_equal(fmt, rv, m[kk]):
                    return _first_diff(fmt, rv, m[kk], "%s.%s" % (path, mv.show(kk)[:40]))
    return r[0], "%s: the bytes denote %s, jsoncons decoded %s" % (path, _rtext(r), _rtext(v))


def _rtext(v):
    k = v[0]
    if k == 'num':
        return "num(%s)#%d" % (v[1] if abs(v[1]) < 10 ** 60 else "...", v[2])
    if k == 'ts':
        return "timestamp(%d ns)" % v[1]
    if k in ('arr', 'obj'):
        return "%s of %d" % (k, len(v[1]))
    try:
        s = mv.render(v)
    except mv.MVSyntax:
        s = repr(v)
    return s if len(s) < 160 else s[:160] + "..."


def judge_ref(sigbase, hexbytes, dtext):
    """Returns (class, violation (sig, detail) or None)."""
    p = sigbase.split("|")
    fmt, opts = p[1], p[3]
    data = bytes.fromhex(hexbytes)
    stats = {}
    if fmt == "cbor" and opts[1:2] == "1":
        try:
            data = c06_stringref.expand(data, stats)
        except c06_stringref.Invalid as ex:
            return "ref-stringref-invalid", ("REF|" + sigbase + "|ref-stringref-invalid", "the bytes written with pack_strings do not resolve per the stringref specification (%s): %s" % (ex, hexbytes[:200]))
        except RecursionError:
            return "ref-abstain:nesting", None
    try:
        rd = REF[fmt].decode(data)
    except RecursionError:
        return "ref-abstain:nesting", None
    if rd[0] == "ILL":
        return "ref-illformed", ("REF|" + sigbase + "|ref-illformed:" + rd[1], "the encoder's output is ill-formed per the reference decoder (%s): %s" % (rd[1], hexbytes[:200]))
    if rd[0] == "UNSPEC":
        return "ref-abstain:" + rd[1], None
    try:
        d = mv.parse(dtext)
    except (mv.MVSyntax, ValueError, IndexError) as ex:
        return "ref-unparsable", ("REF|" + sigbase + "|ref-unparsable", "harness output not understood: %r (%s)" % (dtext[:200], ex))
    try:
        ok = _ref_equal(fmt, rd[1], d)
    except RecursionError:
        return "ref-abstain:nesting", None
    cls = "ref-agrees" + (":stringref" if stats.get("references") else "")
    if ok:
        return cls, None
    kind, where = _first_diff(fmt, rd[1], d)
    return "ref-diff", ("REF|" + sigbase + "|ref-diff:" + kind, "the written bytes do not denote the value that was read back — %s; bytes %s" % (where, hexbytes[:200]))


# =============================================================================================

def _task(args):
    binary, hargs, i, n = args
    cmd = [binary] + hargs + [str(i), str(n)]
    env = dict(os.environ)
    env["LC_ALL"] = "C"
    try:
        r = subprocess.run(cmd, stdout=subprocess.PIPE, stderr=subprocess.PIPE, env=env, timeout=5400)
        rc, out, err = r.returncode, r.stdout, r.stderr.decode(errors="replace")
    except subprocess.TimeoutExpired as ex:
        rc, out, err = -999, ex.stdout or b"", "TIMEOUT"
    other = []
    viol = {}
    nviol = 0
    classes = set()
    percls = {}
    nref = 0
    max_index = 0
    for line in out.decode("latin-1").split("\n"):
        if line.startswith("R\t"):
            p = line.split("\t")
            if len(p) != 4:
                other.append("E\tmalformed R line " + line[:100])
                continue
            nref += 1
            cls, v = judge_ref(p[1], p[2], p[3])
            fmt = p[1].split("|")[1]
            classes.add(fmt + ":" + cls)
            if v is not None:
                nviol += 1
                key = fmt + "|" + v[0].rsplit("|", 1)[1]
                percls[key] = percls.get(key, 0) + 1
                if percls[key] <= REF_VIOL_CAP:
                    viol[v[0]] = v[1]
        else:
            other.append(line)
    errors = []
    if rc != 0:
        errors.append("slice %d of c06 %s exited %s: %s" % (i, " ".join(hargs), rc, err[-1500:]))
    return "\n".join(other), viol, nviol, sorted(classes), nref, errors


def _selftests():
    errs = []
    for fmt in REF:
        errs += REF[fmt].selftest()
    errs += c06_stringref.selftest()
    return errs


def _tasks(binary, tier):
    q = tier == "quick"
    N = 4 if q else 6
    refN = 4 if q else 5         # trees of 6 nodes (830 000 of them) are judged by the round trip only
    t = ["tier=" + tier, "ref=1"]
    modes = [["trees", "N=%d" % N, "refN=%d" % refN], ["strref"], ["counts"], ["leaves"], ["halves"], ["typed"], ["depth"]]
    tasks = []
    for m in modes:
        for i in range(NSLICES):
            tasks.append((binary, m + t, i, NSLICES))
    return N, refN, tasks


def run(tier):
    binary = _bin()
    ck = runner.Check(PROP, tier, "exploration")
    errs = _selftests()
    if errs:
        r = runner.Result()
        r.errors += ["reference self-test: " + e for e in errs[:10]]
        ck.add(r)
        ck.finish(replay)
    q = tier == "quick"
    N, refN, tasks = _tasks(binary, tier)
    res = runner.Result()
    res.sum["evaluations"] = 0
    res.sum["nontrivial"] = 0
    with ProcessPoolExecutor(max_workers=runner.NCPU) as ex:
        for text, viol, nviol, classes, nref, errors in ex.map(_task, tasks, chunksize=1):
            res.feed(text)
            for k, v in viol.items():
                res.viol.setdefault(k, v)
            res.nviol_total += nviol
            res.sets |= set(classes)
            res.sum["reference_judged"] = res.sum.get("reference_judged", 0) + nref
            res.errors += errors
    ck.add(res)
    ck.rule = (
        "per format (CBOR, MessagePack, UBJSON, BSON) x entry point (encode_X(json) / encode_X(ojson) DOM, basic_X_encoder events with declared lengths, "
        "events with indefinite lengths [MessagePack must refuse them], encode_X(std::vector<T>) typed) x options (CBOR pack_strings x use_typed_arrays; "
        "max_nesting_depth default/1/2/5): (leaves) every leaf of the value set — integers on both sides of every width boundary in both storage kinds, "
        "epoch_second/milli/nano integers, 40 double bit patterns (half/float-exact and not, subnormals, infinities, 8 NaN payloads), 16 half floats "
        "(mode halves: %s half-precision bit patterns), "
        "strings of 0..65537 bytes at every length-class boundary with 2/3/4-byte UTF-8 tails, byte strings likewise, every semantic tag with well-typed "
        "content (bigint of 1..700 digits, decimal-fraction and bigfloat mantissa x exponent grids with int64 and bignum mantissas, datetime, uri, "
        "base16/64/64url hints, ext/raw tags 0..2^64-1, BSON decimal128/ObjectId/regex/code) — alone, in an array, in an object, twice in an array, and "
        "as a member name; (trees) all trees of <= %d nodes over 8 leaves and 2 member names, every member order%s; (counts) arrays and objects of "
        "0,1,2,14..17,23..25,31,32,255..257,65535,65536%s elements; (depth) nesting limit-1, limit, limit+1 for limits 1024,1,2,5; (strref) families of "
        "repeated strings whose table crosses 23/24, 255/256 and 65535/65536 entries with strings of 2..8 bytes, text/byte mixes, repeated member names, "
        "bignum and typed-array payloads among them; (typed) std::vector<T> for the 8 integer and 2 floating types with boundary elements, lengths 0-3 and "
        "all, inside std::map for BSON, typed_array() events incl. half and clamped, byte strings read as std::vector<uint8_t>. Oracle: decode(encode(v)) "
        "equals the documented mapping of v as model values (structure, member names and order, integers by value, doubles bit for bit with any NaN = NaN, "
        "string/byte contents, semantic tags where the format has a counterpart, big decimals/floats by exact value); a value outside the domain must be "
        "refused at encode time or come back unchanged; and the independent reference decoder must read the written bytes as the value jsoncons read. "
        "non-trivial = cases inside the domain whose round trip was compared in full." % ("every 64th and the two next to every exponent boundary of the 65536" if q else "all 65536", N, "" if q else " (the reference decoder judges those of <= 5 nodes)", "" if q else ",65537,127,128,32767,32768"))
    ck.assumptions = [
        "int64 vs uint64 storage of an integer, and half vs double storage of a floating-point value, are not part of the statement (values are compared)",
        "abstained (counted): CBOR epoch_milli / epoch_nano integers and doubles (written as a double of seconds: not documented); bigfloat texts whose "
        "exponent reads differently as decimal (encoder documentation) and hexadecimal (decoder documentation), i.e. two or more exponent digits; raw "
        "tags on byte strings that CBOR itself interprets (2, 3, 21-23, 25, 256, 64-87) and MessagePack ext type 255 (= -1, timestamp); BSON epoch_nano "
        "values that are not whole milliseconds; UBJSON bigint/bigdec texts that are not JSON numbers (\"+1.5\", \".5\", \"5.\": a high-precision number is a "
        "JSON number); BSON root array (the encoder documents it, what it decodes to is not stated: std::vector<T> is carried "
        "in a std::map for BSON); MessagePack epoch-tagged strings that are not integers",
        "tags without a counterpart in a format (e.g. datetime/uri outside CBOR, base-N hints outside CBOR, epoch tags in UBJSON) may be dropped: content must "
        "survive, the decoded tag must be the original or none; UBJSON high-precision numbers: bigint and bigdec are one kind; UBJSON byte strings: "
        "array of byte values (a byte string of the same content is accepted)",
        "MessagePack timestamps: the instant must survive (decoded as seconds tagged epoch_second or nanoseconds tagged epoch_nano, as documented)",
        "MessagePack ext types 128..254 and BSON subtypes 0..255 must round-trip exactly when written; types/subtypes above 255 must be refused (or preserved)",
        "objects of more than 4096 members are read back into a json (sorted) only, not into an ojson whose member lookup is linear; the thorough tier "
        "also reads the 65536-member objects into an ojson",
        "CBOR multi-dimensional arrays (tags 40/1040, begin_multi_dim events) are not enumerated: the statement's list of CBOR counterparts does not name them",
        "the reference decoders abstain (UNSPEC) on CBOR tags they do not interpret (raw/ext tags), BSON decimal128/regex/undefined: those cases are "
        "judged by the round trip only",
    ]
    ck.finish(replay)


def replay(sig):
    binary = _bin()
    isref = sig.startswith("REF|")
    base = sig[4:] if isref else sig
    rc, out, err = runner.run_cmd([binary, "replay", base], timeout=900)
    r = runner.Result()
    if not isref:
        r.feed("\n".join(l for l in out.split("\n") if not l.startswith("R\t")))
        if sig in r.viol:
            return True, r.viol[sig]
        return False, ""
    for line in out.split("\n"):
        if line.startswith("R\t"):
            p = line.split("\t")
            if len(p) == 4:
                cls, v = judge_ref(p[1], p[2], p[3])
                if v is not None and v[0] == sig:
                    return True, v[1]
    return False, ""
