"""C07 — binary decoders implement their specifications (DESIGN.md §4 C07).

Violation signatures:  D|<format>|<hex input>|<reference verdict>/<jsoncons outcome>   (DL|<format>|<length>|<crc32>|<first
bytes>|<class> for inputs > 400 bytes, SAN|<format>|<hex>|crash for a sanitizer report / crash, HANG|<format>|<hex>|hang).

Python explorer + oracle (lib/ref_cbor.py, ref_msgpack.py, ref_ubjson.py, ref_bson.py: reference
codecs written from the specifications), C++ executor (harness/c07_exec.cpp) that runs the real
jsoncons decoders.  Everything explored is an explicitly enumerated finite set:

  (A) every byte string of length <= 2 (quick) / <= 3 (thorough), per format;
  (B) for every value of the value set: every legal encoding of at most 24 bytes produced by the
      reference encoder, every strict prefix of each, every single-byte substitution of encodings of
      at most 10 bytes (BSON: 16, a BSON document with one element is already 8..16 bytes), and the
      structural mutations: CBOR additional information 28/29/30 on every head, a break byte inserted
      before every head, every length/count +-1; MessagePack 0xc1 inserted before every object and
      lengths/counts +-1; UBJSON ']' and '}' inserted at every offset, lengths/counts +-1; BSON every
      int32 size +-1;
  (C) long items (lengths 24..65536: every width of every length head, a few truncations of each);
  (D) thorough: every float16 value in every float width of every format that represents it.

Oracle: reference says OK  => jsoncons must accept and the value must be equal (numbers by value, any
NaN = any NaN, objects as maps, semantic tags equal); reference says ILL => jsoncons must reject;
reference says UNSPEC => abstain (counted).
"""
import os, re, subprocess, sys, zlib, itertools
from fractions import Fraction
from concurrent.futures import ProcessPoolExecutor, CancelledError
from concurrent.futures import TimeoutError as FutureTimeout
from lib import build, runner, mvtext as mv
from lib import ref_cbor, ref_msgpack, ref_ubjson, ref_bson

PROP = "C07"
FLAGS = ["-O1", "-fsanitize=address,undefined", "-fno-sanitize-recover=undefined", "-fno-sanitize=nonnull-attribute",
         "-fno-access-control", "-DVF_PRIV"]
ENV = {"ASAN_OPTIONS": "detect_leaks=1:abort_on_error=0:exitcode=77:allocator_may_return_null=1",
       "UBSAN_OPTIONS": "print_stacktrace=0:halt_on_error=1:exitcode=78", "LC_ALL": "C"}
REF = {"cbor": ref_cbor, "msgpack": ref_msgpack, "ubjson": ref_ubjson, "bson": ref_bson}
FORMATS = ["cbor", "msgpack", "ubjson", "bson"]
BATCH = 20000
BATCH_BYTES = 4 << 20
ENC_LIMIT = 24
SUBST_LIMIT = {"cbor": 10, "msgpack": 10, "ubjson": 10, "bson": 16}
NSLICE = 16          # hash slices per format for the mutation stream
VIOL_CAP = 40        # violations kept per task (all are counted)


def _bin():
    return build.build("c07_exec", ["harness/c07_exec.cpp"], FLAGS)


def prebuild():
    _bin()


# =============================================================================================
# value sets

def I(n, tag=0):
    return ('int', n, tag)


def S(b, tag=0):
    return ('str', b, tag)


def B(b, tag=0, ext=None):
    return ('bin', (b, ext), tag)


def D(bits, tag=0):
    return ('dbl', bits, tag)


def A(*xs):
    return ('arr', list(xs), 0)


def O(*kv):
    return ('obj', list(kv), 0)


NULL = ('null', None, 0)
TRUE = ('bool', True, 0)
FALSE = ('bool', False, 0)

INTS = [-(1 << 63), -(1 << 32) - 1, -(1 << 32), -(1 << 31) - 1, -(1 << 31), -65537, -65536, -32769, -32768, -257, -256, -129, -128,
        -33, -32, -25, -24, -1, 0, 1, 23, 24, 31, 32, 127, 128, 255, 256, 32767, 32768, 65535, 65536, (1 << 31) - 1, 1 << 31,
        (1 << 32) - 1, 1 << 32, (1 << 63) - 1, 1 << 63, (1 << 64) - 1]
CBOR_ONLY_INTS = [-(1 << 63) - 1, -(1 << 64) + 1, -(1 << 64)]

HALVES = [0x0000, 0x8000, 0x0001, 0x03ff, 0x0400, 0x3555, 0x3c00, 0x3e00, 0xc400, 0x7bff, 0xfbff, 0x7c00, 0xfc00, 0x7e00, 0x7c01, 0xfe00, 0x7fff]
F32S = [0x00000001, 0x007fffff, 0x00800000, 0x7f7fffff, 0x3f800001, 0x47c35000, 0x7fc00001, 0x7f800001, 0xffc00000, 0x33800000, 0x4b800000]
F64S = [mv.f64_bits(x) for x in (0.1, 1.0 / 3, 1.1, -4.1, 1e300, 5e-324, 2.2250738585072014e-308, 1.7976931348623157e308,
                                 9007199254740992.0, 9007199254740994.0, 1e23, 123456789.125, 65505.0, 3.4028234663852889e+38)] + \
       [0x7ff8000000000001, 0x7ff0000000000001, 0xfff8000000000000, 0x7fffffffffffffff, 0x000fffffffffffff, 0x8000000000000001]


def float_values():
    out = [mv.half_to_f64_bits(h) for h in HALVES] + [mv.f32_to_f64_bits(w) for w in F32S] + F64S
    seen = set()
    res = []
    for b in out:
        if b not in seen:
            seen.add(b)
            res.append(b)
    return res


TAILS = [b"", "é".encode(), "€".encode(), "\U00010348".encode()]
SHORT_LENS = [0, 1, 2, 15, 16, 23]
LONG_LENS = [24, 31, 32, 255, 256, 65535, 65536]


def text_of(n, tail=b""):
    if n < len(tail):
        return None
    body = bytes(0x61 + (i % 26) for i in range(n - len(tail)))
    return body + tail


def short_strings():
    out = []
    for n in SHORT_LENS:
        for t in TAILS:
            s = text_of(n, t)
            if s is not None and s not in out:
                out.append(s)
    return out


def bytes_of(n):
    return bytes((i * 37 + 1) & 0xff for i in range(n))


LEAVES = [NULL, TRUE, I(0), I(-1), I(24), S(b"a"), S(b""), D(mv.f64_bits(1.5))]


def trees(max_nodes, with_bin=None):
    """Every tree with at most max_nodes nodes: leaf | array of trees | object with keys a, b, c."""
    memo = {}

    def gen(n):   # trees with exactly n nodes
        if n in memo:
            return memo[n]
        res = []
        if n == 1:
            res += LEAVES
            res += [A(), O()]
        if n >= 2:
            for parts in compositions(n - 1):
                for combo in itertools.product(*[gen(p) for p in parts]):
                    res.append(A(*combo))
                    if len(combo) <= 3:
                        res.append(O(*[(bytes([0x61 + i]), c) for i, c in enumerate(combo)]))
        memo[n] = res
        return res

    def compositions(n):
        if n == 0:
            yield ()
            return
        for first in range(1, n + 1):
            for rest in compositions(n - first):
                yield (first,) + rest

    out = []
    for n in range(1, max_nodes + 1):
        out += gen(n)
    return out


def value_set(fmt, tier):
    """List of (value, mode, child_mode) for the <= 24-byte group (B)."""
    q = tier == "quick"
    vals = []

    def add(v, mode="full", child=None, sl=None):
        vals.append((v, mode, child, (0 if q else 1) if sl is None else sl))

    ints = list(INTS) + (CBOR_ONLY_INTS if fmt == "cbor" else [])
    if fmt == "bson":
        ints = [n for n in ints if -(1 << 63) <= n < (1 << 63)]
    if fmt == "msgpack":
        ints = [n for n in ints if -(1 << 63) <= n < (1 << 64)]
    scal = [NULL, TRUE, FALSE] + [I(n) for n in ints] + [D(b) for b in float_values()] + [S(s) for s in short_strings()]
    if fmt in ("cbor", "msgpack"):
        scal += [B(bytes_of(n)) for n in SHORT_LENS]
    if fmt == "cbor":
        scal.append(('null', None, mv.TAG_UNDEFINED))
        scal += [I(n, mv.TAG_EPOCH_SECOND) for n in (0, 1363896240, -1, 1 << 32, -(1 << 63))]
        scal += [D(mv.f64_bits(x), mv.TAG_EPOCH_SECOND) for x in (1363896240.5, -0.5, 1.5)]
        scal += [S(b"2013-03-21T20:04:00Z", mv.TAG_DATETIME), S(b"", mv.TAG_DATETIME), S(b"http://a.b/", mv.TAG_URI),
                 S(b"YQ", mv.TAG_BASE64URL), S(b"YQ==", mv.TAG_BASE64)]
        scal += [B(bytes_of(n), t) for n in (0, 1, 4) for t in (mv.TAG_BASE16, mv.TAG_BASE64, mv.TAG_BASE64URL)]
        bigs = [0, 1, 255, 256, (1 << 64) - 1, 1 << 64, (1 << 64) + 1] + [10 ** k - 1 for k in (1, 5, 19, 20, 25, 39, 40)]
        scal += [('bignum', n, 0) for n in bigs] + [('bignum', -1 - n, 0) for n in bigs]
        exps = [-20, -3, -1, 0, 1, 3, 20] if not q else [-3, 0, 2]
        mants = [0, 1, -1, 27315, -27315, 1 << 63, (1 << 64) - 1, -(1 << 64), 1 << 64, -(1 << 64) - 1, 10 ** 25]
        scal += [('decfrac', (-1, 1 << 64), 0), ('bigfloat', (-1, 1 << 64), 0)]      # every tag head width on the bignum mantissa
        for e in exps:
            for m in mants:
                scal.append(('decfrac', (e, m), 0))
                scal.append(('bigfloat', (e, m), 0))
        for tag in range(64, 88):
            size = ref_cbor._TA[tag][1] if tag in ref_cbor._TA else None
            if size is None or ref_cbor._TA[tag][0] is None:
                continue
            for n in (0, 1, 2):
                if n * size <= 16:
                    scal.append(('typed', (tag, bytes((0x80 + 29 * i) & 0xff for i in range(n * size))), 0))
    if fmt == "msgpack":
        scal += [B(bytes_of(n), mv.TAG_EXT, e) for n in (0, 1, 2, 3, 4, 8, 16, 17) for e in (0, 5, 127, 0x80, 0xfe)]
        scal += [('ts', ns, 0) for ns in (0, 1000000000, 1, 999999999, 1500000000, ((1 << 32) - 1) * 1000000000, (1 << 32) * 1000000000,
                                          ((1 << 34) - 1) * 1000000000 + 999999999, (1 << 34) * 1000000000, -1, -500000000,
                                          -1000000000, -1500000000, -(1 << 63) * 1000000000, ((1 << 63) - 1) * 1000000000 + 999999999)]
    if fmt == "ubjson":
        scal += [('hp', s, 0) for s in (b"0", b"-1", b"18446744073709551616", b"-9223372036854775809", b"1.5", b"-0.25e-3", b"1E+2",
                                        b"123456789012345678901.5")]
    if fmt == "bson":
        scal += [B(bytes_of(n), mv.TAG_EXT, e) for n in (0, 1, 4) for e in (0, 1, 4, 0x80, 0xff)]
        scal += [I(n, mv.TAG_EPOCH_MILLI) for n in (0, 1000, -1, (1 << 63) - 1, -(1 << 63))]
        scal += [S(b"0102030405060708090a0b0c", mv.TAG_ID), S(b"ffffffffffffffffffffffff", mv.TAG_ID), S(b"f()", mv.TAG_CODE), S(b"", mv.TAG_CODE),
                 S(b"a\x00b")]
        for v in scal:
            add(O((b"a", v)))
            add(O((b"", v)))
        add(O())
        for v in (I(1), S(b"x"), NULL):
            add(O((b"a", v), (b"b", TRUE)))
            add(O((b"a", A(v))))
            add(O((b"a", A(v, v))))
            add(O((b"a", O((b"b", v)))))
            add(O((b"a", A(A()))))
        for t in trees(2 if q else 3):
            if t[0] == 'obj':
                add(t, "dev", 2)
            add(O((b"k", t)), "dev", 2)
        return vals
    for v in scal:
        k = v[0]
        if k in ('decfrac', 'bigfloat'):
            add(v, "full" if (v[1] in ((-3, 27315), (0, -1)) and not q) or v[1] == (-1, 1 << 64) else "reduced")
        elif k == 'typed':
            add(v, "reduced" if q else "full")
        elif k == 'bignum' or (k in ('str', 'bin') and len(v[1] if k == 'str' else v[1][0]) >= 2):
            add(v, "reduced" if q else "full")
        else:
            add(v)
    # containers of the boundary sizes (children in minimal form beyond a few elements)
    for n in (0, 1, 2, 15, 16, 23):
        add(A(*[I(i % 24) for i in range(n)]), "full", "reduced" if n <= 2 else "min")
    for n in (0, 1, 2, 3, 7):
        add(O(*[(bytes([0x61 + i]), I(i)) for i in range(n)]), "full", "reduced" if n <= 2 else "min")
    add(A(S(b"a"), S("é".encode())))
    add(O((b"", NULL)))
    add(O(("€".encode(), S(b"x"))))
    if fmt == "ubjson":
        # homogeneous containers for the typed forms
        for xs in ([I(1), I(100)], [I(200), I(255)], [I(-1), I(300)], [I(70000), I(1)], [I(1 << 40), I(0)], [S(b"a"), S(b"bc")], [S(b"a"), S(b"b")],
                   [NULL, NULL, NULL], [TRUE, TRUE], [FALSE, FALSE], [D(mv.f64_bits(1.5)), D(mv.f64_bits(-2.0))], [D(mv.f64_bits(0.1)), D(mv.f64_bits(1.5))],
                   [A(), A(I(1))], [O(), O((b"a", NULL))], [A(NULL, NULL), A(NULL)], [('hp', b"1.5", 0), ('hp', b"2", 0)]):
            add(A(*xs))
            add(O(*[(bytes([0x61 + i]), x) for i, x in enumerate(xs)]))
    for t in trees(3):
        if t[0] in ('arr', 'obj') and len(t[1]) > 0:
            add(t, "dev", 1 if q else 2)
    if not q:
        n3 = len(trees(3))
        for t in trees(4)[n3:]:
            add(t, "dev", 1, 0)
    return vals


def long_items(fmt, tier):
    """Values for group (C): lengths and counts 24..65536 (every length head width is exercised at each)."""
    q = tier == "quick"
    out = []
    lens = [24, 31, 32, 255, 256] + ([65535, 65536] if not q else [65536])
    if fmt == "bson":
        for n in lens:
            out.append(O((b"a", S(text_of(n)))))
            out.append(O((b"a", B(bytes_of(n), mv.TAG_EXT, 0))))
        for n in (24, 255, 256) + (() if q else (1000,)):
            out.append(O((b"a", A(*[I(i) for i in range(n)]))))
            out.append(O(*[(str(i).encode(), NULL) for i in range(n)]))
        return out
    for n in lens:
        out.append(S(text_of(n, b"" if n % 2 else "\u20ac".encode())))
        if fmt in ("cbor", "msgpack"):
            out.append(B(bytes_of(n)))
        out.append(A(*[(I(i % 24) if n % 2 else NULL) for i in range(n)]))
    for n in (15, 16, 23, 24, 255, 256) + (() if q else (65535, 65536)):
        out.append(O(*[(str(i).encode(), I(i % 24)) for i in range(n)]))
    if fmt == "msgpack":
        for n in (24, 255, 256, 65536):
            out.append(B(bytes_of(n), mv.TAG_EXT, 7))
    if fmt == "cbor":
        out.append(('bignum', 10 ** 80, 0))
        out.append(('typed', (64, bytes_of(300)), 0))
        out.append(('typed', (0x55, bytes_of(256)), 0))
    if fmt == "ubjson":
        out.append(('hp', b"1" * 300, 0))
    return out


# =============================================================================================
# input streams

def structural(fmt, e):
    """Structural mutations of a well-formed encoding e."""
    ref = REF[fmt]
    marks = []
    ref.decode(e, marks)
    out = []
    if fmt == "cbor":
        for pos, mt, ai, arg in marks:
            for r in (28, 29, 30):
                out.append(e[:pos] + bytes([(mt << 5) | r]) + e[pos + 1:])
            out.append(e[:pos] + b"\xff" + e[pos:])
            if arg is not None and mt in (2, 3, 4, 5) and ai <= 27:
                w = 0 if ai < 24 else 1 << (ai - 24)
                for a2 in (arg - 1, arg + 1):
                    if a2 < 0:
                        continue
                    if w == 0:
                        if a2 < 24:
                            out.append(e[:pos] + bytes([(mt << 5) | a2]) + e[pos + 1:])
                    elif a2 < (1 << (8 * w)):
                        out.append(e[:pos + 1] + a2.to_bytes(w, "big") + e[pos + 1 + w:])
        out.append(e + b"\xff")
    elif fmt == "msgpack":
        for pos, t in marks:
            out.append(e[:pos] + b"\xc1" + e[pos:])
            out.append(e[:pos] + b"\xc1" + e[pos + 1:])
            if 0x80 <= t <= 0x9f:
                for n2 in ((t & 15) - 1, (t & 15) + 1):
                    if 0 <= n2 <= 15:
                        out.append(e[:pos] + bytes([(t & 0xf0) | n2]) + e[pos + 1:])
            elif 0xa0 <= t <= 0xbf:
                for n2 in ((t & 31) - 1, (t & 31) + 1):
                    if 0 <= n2 <= 31:
                        out.append(e[:pos] + bytes([0xa0 | n2]) + e[pos + 1:])
            else:
                w = {0xc4: 1, 0xc5: 2, 0xc6: 4, 0xc7: 1, 0xc8: 2, 0xc9: 4, 0xd9: 1, 0xda: 2, 0xdb: 4, 0xdc: 2, 0xdd: 4, 0xde: 2, 0xdf: 4}.get(t)
                if w:
                    n = int.from_bytes(e[pos + 1:pos + 1 + w], "big")
                    for n2 in (n - 1, n + 1):
                        if 0 <= n2 < (1 << (8 * w)):
                            out.append(e[:pos + 1] + n2.to_bytes(w, "big") + e[pos + 1 + w:])
    elif fmt == "ubjson":
        for pos, t, n in marks:
            w = ref_ubjson._INT_W[t]
            for n2 in (n - 1, n + 1):
                try:
                    out.append(e[:pos + 1] + n2.to_bytes(w, "big", signed=(t != 0x55)) + e[pos + 1 + w:])
                except OverflowError:
                    pass
        for pos in range(len(e) + 1):
            out.append(e[:pos] + b"]" + e[pos:])
            out.append(e[:pos] + b"}" + e[pos:])
    elif fmt == "bson":
        for pos, kind, n in marks:
            for n2 in (n - 1, n + 1):
                out.append(e[:pos] + (n2 & 0xffffffff).to_bytes(4, "little") + e[pos + 4:])
    return out


class ReferenceBroken(Exception):
    pass


def paths(v, p=()):
    yield p
    if v[0] == 'arr':
        for i, e in enumerate(v[1]):
            for x in paths(e, p + (i,)):
                yield x
    elif v[0] == 'obj':
        for i, (k, e) in enumerate(v[1]):
            yield p + (i, 'k')
            for x in paths(e, p + (i, 'v')):
                yield x


def item_encodings(fmt, v, mode, child, limit):
    """Encodings of one value of the value set.  mode "dev": every encoding in which at most `child`
    nodes of the tree (containers, leaves, keys) deviate from the preferred serialisation (one node: in
    every form; two nodes: each in every "reduced" form); otherwise the encoder's mode / child mode.
    Every encoding is decoded again by the reference and must denote the value (cross-validation of
    reference encoder and decoder; a failure is a harness error)."""
    ref = REF[fmt]
    want = ref.denote(v)

    def checked(it):
        for e in it:
            got = ref.decode(e)
            if got[0] != "OK" or not mv.same(want, got[1]):
                raise ReferenceBroken("%s reference round trip failed: value %r encoding %s decodes to %r" % (fmt, v, e.hex()[:200], got))
            yield e

    if mode != "dev":
        for e in checked(ref.encodings(v, mode, limit, child)):
            yield e, 0
        return
    P = list(paths(v))
    for e in checked(ref.encodings(v, limit=limit, modes={})):
        yield e, 0
    for p in P:
        for e in checked(ref.encodings(v, limit=limit, modes={p: "full"})):
            yield e, 1
    if child >= 2:
        for a, b in itertools.combinations(P, 2):
            for e in checked(ref.encodings(v, limit=limit, modes={a: "reduced", b: "reduced"})):
                yield e, 2


def stream_b(fmt, tier):
    """Group (B): encodings <= 24 bytes, prefixes, substitutions, structural mutations.  May repeat inputs."""
    ref = REF[fmt]
    sl = SUBST_LIMIT[fmt]
    for v, mode, child, subst_level in value_set(fmt, tier):
        for e, level in item_encodings(fmt, v, mode, child, ENC_LIMIT):
            yield e
            n = len(e)
            for i in range(n):
                yield e[:i]
            if level >= 2:
                continue
            if n <= sl and level <= subst_level:
                for i in range(n):
                    pre, post, orig = e[:i], e[i + 1:], e[i]
                    for x in range(256):
                        if x != orig:
                            yield pre + bytes([x]) + post
            for m in structural(fmt, e):
                yield m


def stream_c(fmt, tier):
    """Group (C): long items, every head width; truncations at offsets <= 12, at the middle and at n-1."""
    ref = REF[fmt]
    for v in long_items(fmt, tier):
        for e, level in item_encodings(fmt, v, "reduced", "one", 1 << 30):
            yield e
            n = len(e)
            cuts = list(range(0, min(n, 13))) + [n - 1] + ([n // 2, n - 2] if n < 5000 else [])
            for i in sorted(set(cuts)):
                if 0 <= i < n:
                    yield e[:i]
            marks = []
            ref.decode(e, marks)
            if marks:
                # length of the outermost head +-1
                one = structural_first(fmt, e, marks[0])
                for m in one:
                    yield m


def structural_first(fmt, e, mark):
    out = []
    if fmt == "cbor":
        pos, mt, ai, arg = mark
        if mt == 6:
            return out
        for r in (28, 29, 30):
            out.append(e[:pos] + bytes([(mt << 5) | r]) + e[pos + 1:])
        if arg is not None and 24 <= ai <= 27:
            w = 1 << (ai - 24)
            for a2 in (arg - 1, arg + 1):
                if 0 <= a2 < (1 << (8 * w)):
                    out.append(e[:pos + 1] + a2.to_bytes(w, "big") + e[pos + 1 + w:])
    elif fmt == "msgpack":
        pos, t = mark
        w = {0xc4: 1, 0xc5: 2, 0xc6: 4, 0xc7: 1, 0xc8: 2, 0xc9: 4, 0xd9: 1, 0xda: 2, 0xdb: 4, 0xdc: 2, 0xdd: 4, 0xde: 2, 0xdf: 4}.get(t)
        if w:
            n = int.from_bytes(e[pos + 1:pos + 1 + w], "big")
            for n2 in (n - 1, n + 1):
                if 0 <= n2 < (1 << (8 * w)):
                    out.append(e[:pos + 1] + n2.to_bytes(w, "big") + e[pos + 1 + w:])
    elif fmt == "ubjson":
        pos, t, n = mark
        w = ref_ubjson._INT_W[t]
        for n2 in (n - 1, n + 1):
            try:
                out.append(e[:pos + 1] + n2.to_bytes(w, "big", signed=(t != 0x55)) + e[pos + 1 + w:])
            except OverflowError:
                pass
    elif fmt == "bson":
        pos, kind, n = mark
        for n2 in (n - 1, n + 1):
            out.append(e[:pos] + (n2 & 0xffffffff).to_bytes(4, "little") + e[pos + 4:])
    return out


def stream_d(fmt, tier):
    """Group (D): every float16 value in every width."""
    ref = REF[fmt]
    for h in range(0x10000):
        v = D(mv.half_to_f64_bits(h))
        if fmt == "bson":
            v = O((b"a", v))
        for e, level in item_encodings(fmt, v, "full", None, 64):
            yield e


def stream_a(first_bytes, L):
    """Group (A): all byte strings of length 1..L starting with one of first_bytes."""
    for f in first_bytes:
        p1 = bytes([f])
        yield p1
        if L >= 2:
            for x in range(256):
                p2 = p1 + bytes([x])
                yield p2
                if L >= 3:
                    for y in range(256):
                        yield p2 + bytes([y])


# =============================================================================================
# oracle

NOT_EXECUTED = ("count-beyond-reference-limit",)    # abstentions that are not even run (16 million payload-free elements)


def judge(fmt, data, line, ref=None):
    """Returns (outcome class, violation detail or None, nontrivial?)."""
    if ref is None:
        ref = REF[fmt].decode(data)
    kind = line[:3]
    rest = line[3:] if kind == "OK " else line[4:]
    if ref[0] == "OK":
        rv = ref[1]
        if kind == "OK " and " !half:" in rest:
            return "OK/half-as-double", "half float converts to the wrong double: %s" % rest[-60:], True
        if kind == "OK ":
            try:
                ok = rest == mv.render(rv)
            except mv.MVSyntax:
                ok = False
            if not ok:
                try:
                    iv = mv.parse(rest)
                except (mv.MVSyntax, ValueError, IndexError) as ex:
                    return "OK/unparsable", "executor output not understood: %r (%s)" % (rest[:200], ex), True
                ok = mv.equal(rv, iv)
            if ok:
                return "OK/OK:" + rv[0], None, True
            return "OK:" + rv[0] + "/OK-different", "well-formed input decoded to a different value: reference %s, jsoncons %s" % (_rtext(rv), rest[:300]), True
        # rejected
        if _beyond_64(rv):
            return "OK-beyond-64-bit/" + kind.strip(), None, True
        return "OK:" + rv[0] + "/" + kind.strip(), "well-formed input rejected: reference value %s, jsoncons: %s" % (_rtext(rv), line[:200]), True
    if ref[0] == "ILL":
        if kind == "OK ":
            return "ILL:" + ref[1] + "/OK", "ill-formed input (%s) decoded to %s" % (ref[1], rest[:300]), False
        return "ILL:" + ref[1] + "/" + kind.strip(), None, False
    return "UNSPEC:" + re.sub(r"\d+", "N", ref[1]) + "/" + kind.strip(), None, False


def _beyond_64(v):
    """True if the value contains an integer (or a decimal fraction / bigfloat mantissa given as a plain
    integer) that neither int64 nor uint64 can hold: an error is an acceptable answer there, a wrong
    number is not."""
    if v[0] == 'int':
        return not (mv.INT64_MIN <= v[1] <= mv.UINT64_MAX)
    if v[0] == 'num':
        return len(v) > 3 and v[3] == 'beyond64'
    if v[0] == 'arr':
        return any(_beyond_64(e) for e in v[1])
    if v[0] == 'obj':
        return any(_beyond_64(e) for k, e in v[1])
    return False


def _rtext(v):
    k = v[0]
    if k == 'num':
        f = v[1]
        if f.numerator.bit_length() < 200 and f.denominator.bit_length() < 200:
            return "num(%s)#%d" % (f, v[2])
        return "num(~2^%d)#%d" % (f.numerator.bit_length() - f.denominator.bit_length(), v[2])
    if k == 'ts':
        return "timestamp(%d ns)" % v[1]
    if k == 'arr':
        return "[" + ",".join(_rtext(e) for e in v[1][:8]) + ("" if len(v[1]) <= 8 else ",...") + "]"
    if k == 'obj':
        return "{" + ",".join('"%s":%s' % (mv.show(kk), _rtext(e)) for kk, e in v[1][:8]) + ("" if len(v[1]) <= 8 else ",...") + "}"
    s = mv.render(v)
    return s if len(s) < 120 else s[:120] + "..."


# =============================================================================================
# executor driving

_SAN_RE = re.compile(r"(SUMMARY: [^\n]*|[^\n]*runtime error: [^\n]*)")


def _san_summary(err):
    m = _SAN_RE.search(err)
    if not m:
        return (err.strip().splitlines() or ["no diagnostic"])[-1][:300]
    s = m.group(1)
    s = re.sub(r"0x[0-9a-f]+", "0x..", s)
    s = re.sub(r"==\d+==", "", s)
    return s.strip()[:300]


def run_exec(binary, fmt, inputs, timeout=900):
    """Decodes the inputs (list of bytes) with jsoncons.  Returns a list of answer lines; an input on
    which the process died is answered 'DIE <summary>' / 'HNG', and the rest is run in a new process."""
    answers = []
    todo = inputs
    env = dict(os.environ)
    env.update(ENV)
    pre = fmt.encode() + b" "
    while todo:
        payload = b"".join(pre + x.hex().encode() + b"\n" for x in todo)
        try:
            r = subprocess.run([binary], input=payload, stdout=subprocess.PIPE, stderr=subprocess.PIPE, env=env, timeout=timeout)
            out, err, rc, hung = r.stdout, r.stderr, r.returncode, False
        except subprocess.TimeoutExpired as ex:
            out, err, rc, hung = ex.stdout or b"", ex.stderr or b"", -1, True
        lines = out.decode("latin-1").split("\n")
        if lines and lines[-1] == "":
            lines.pop()
        elif lines:
            lines.pop()      # incomplete last line
        if len(lines) > len(todo):
            raise RuntimeError("executor produced more answers than inputs")
        answers += lines
        if len(lines) == len(todo):
            if rc != 0:
                # all answered but the process failed at exit (leak report): attribute to the batch
                answers.append(None)
                return answers, "executor exited %s after answering everything: %s" % (rc, _san_summary(err.decode("latin-1")))
            break
        # the process died (or hung) on todo[len(lines)]
        answers.append("HNG" if hung else "DIE rc=%s %s" % (rc, _san_summary(err.decode("latin-1"))))
        todo = todo[len(lines) + 1:]
    return answers, None


class Acc(object):
    def __init__(self):
        self.sum = {}
        self.sets = set()
        self.viol = {}
        self.nviol = 0
        self.samples = []
        self.errors = []

    def count(self, k, n=1):
        self.sum[k] = self.sum.get(k, 0) + n

    def pack(self):
        return (self.sum, sorted(self.sets), self.viol, self.nviol, self.samples, self.errors)


def process(binary, fmt, it, acc, group):
    """Runs every input of iterator `it` through jsoncons and the oracle."""
    while True:
        batch = []
        size = 0
        for x in it:
            batch.append(x)
            size += len(x)
            if len(batch) >= BATCH or size >= BATCH_BYTES:
                break
        if not batch:
            break
        decode = REF[fmt].decode
        refs = []
        run = []
        for x in batch:
            r = decode(x)
            if r[0] == "UNSPEC" and r[1] in NOT_EXECUTED:
                acc.count("abstained_not_executed")
                acc.sets.add(fmt + ":UNSPEC:" + r[1] + "/not-executed")
                continue
            refs.append(r)
            run.append(x)
        batch = run
        if not batch:
            continue
        answers, err = run_exec(binary, fmt, batch)
        if err:
            acc.errors.append(err)
            return
        for data, line, ref in zip(batch, answers, refs):
            acc.count("evaluations")
            acc.count("n_" + fmt + "_" + group)
            if line.startswith("DIE") or line == "HNG":
                if "allocation-size-too-big" in line or "out-of-memory" in line or "exceeds maximum supported size" in line:
                    # the sanitizer's allocator limit, not a decoder answer: judge as a rejection by exception
                    line = "EXC sanitizer allocation limit"
                    acc.count("asan_allocation_limit")
                else:
                    acc.nviol += 1
                    sig = "%s|%s|%s|%s" % ("HANG" if line == "HNG" else "SAN", fmt, data.hex(), "crash" if line != "HNG" else "hang")
                    if len(acc.viol) < VIOL_CAP:
                        acc.viol[sig] = "decoder %s: %s" % ("did not terminate" if line == "HNG" else "crashed / sanitizer report", line[4:])
                    acc.sets.add(fmt + ":" + ("HANG" if line == "HNG" else "SAN"))
                    continue
            cls, detail, nontrivial = judge(fmt, data, line, ref)
            acc.sets.add(fmt + ":" + cls)
            if cls.startswith("UNSPEC"):
                acc.count("abstained")
                acc.count("abstained_" + fmt)
            elif cls.startswith("ILL"):
                acc.count("ref_illformed")
            else:
                acc.count("ref_wellformed")
            if nontrivial:
                acc.count("nontrivial")
            if detail is not None:
                acc.nviol += 1
                if len(data) > 400:
                    # very long inputs do not fit a signature: name the generator instead
                    sig = "DL|%s|%d|%08x|%s|%s" % (fmt, len(data), zlib.crc32(data), data[:24].hex(), cls)
                else:
                    sig = "D|%s|%s|%s" % (fmt, data.hex(), cls)
                if len(acc.viol) < VIOL_CAP or len(data) <= 3:
                    acc.viol.setdefault(sig, detail)
            elif len(acc.samples) < 2 and nontrivial and len(data) > 3:
                acc.samples.append("%s %s -> %s" % (fmt, data.hex()[:80], line[:100]))


def task(args):
    binary, fmt, kind, a, b, tier = args
    acc = Acc()
    try:
        if kind == "A":
            process(binary, fmt, stream_a(a, b), acc, "A")
        else:
            L = 2 if tier == "quick" else 3
            stream = {"B": stream_b, "C": stream_c, "D": stream_d}[kind](fmt, tier)
            seen = set()

            def filt():
                for x in stream:
                    if len(x) <= L:
                        continue          # covered by group (A)
                    if zlib.crc32(x) % b != a:
                        continue
                    if x in seen:
                        continue
                    seen.add(x)
                    yield x
            process(binary, fmt, filt(), acc, kind)
    except Exception as ex:   # harness error, never a verdict
        import traceback
        acc.errors.append("task %s %s %s/%s: %s" % (fmt, kind, a if kind != "A" else a[:1], b, traceback.format_exc()[-1500:]))
    return acc.pack()


# =============================================================================================

def selftests():
    errs = []
    for fmt in FORMATS:
        errs += REF[fmt].selftest()
    # parser / renderer of the model-value text agree
    for t in ['null', 'true', 'i-5', 'u5', 'd3ff8000000000000', 'h3c00', '"a\\x00\\\\b"', "b'0102'", "b'01'x5#18", '[u1,"a"#4]', '{"a":u1,"b":[]}', '"12"#2']:
        v = mv.parse(t)
        if mv.render(v) != t and not t.startswith('i-') and t != 'u5':
            errs.append("mvtext: %r -> %r -> %r" % (t, v, mv.render(v)))
    return errs


def run(tier):
    binary = _bin()
    ck = runner.Check(PROP, tier, "exploration")
    errs = selftests()
    if errs:
        r = runner.Result()
        r.errors += ["reference self-test: " + e for e in errs[:10]]
        ck.add(r)
        ck.finish(replay)
    q = tier == "quick"
    tasks = []
    L = 2 if q else 3
    for fmt in FORMATS:
        if q:
            for g in range(4):
                tasks.append((binary, fmt, "A", list(range(g * 64, g * 64 + 64)), L, tier))
        else:
            for g in range(128):
                tasks.append((binary, fmt, "A", [2 * g, 2 * g + 1], L, tier))
    for fmt in FORMATS:
        for s in range(NSLICE):
            tasks.append((binary, fmt, "B", s, NSLICE, tier))
        for s in range(4):
            tasks.append((binary, fmt, "C", s, 4, tier))
        if not q:
            for s in range(4):
                tasks.append((binary, fmt, "D", s, 4, tier))
    # heavy tasks first
    order = {"B": 0, "C": 1, "D": 2, "A": 3}
    tasks.sort(key=lambda t: order[t[2]])
    res = runner.Result()
    res.sum["evaluations"] = 0
    res.sum["nontrivial"] = 0
    skipped = 0
    with ProcessPoolExecutor(max_workers=runner.NCPU) as ex:
        futs = [ex.submit(task, t) for t in tasks]
        for f in futs:            # in submission order: deterministic merge
            while True:
                try:
                    out = f.result(timeout=5)
                    break
                except FutureTimeout:
                    if ck.time_left() < 0:
                        for g in futs:
                            g.cancel()
                except CancelledError:
                    out = None
                    break
            if out is None:
                skipped += 1
                continue
            sm, sets, viol, nviol, samples, errors = out
            for k, v in sm.items():
                res.sum[k] = res.sum.get(k, 0) + v
            res.sets |= set(sets)
            for k, v in viol.items():
                res.viol.setdefault(k, v)
            res.nviol_total += nviol
            res.samples += samples
            res.errors += errors
    if skipped:
        ck.exhaustive = False
        ck.extra["tasks_not_run_before_deadline"] = skipped
        sys.stderr.write("warning: C07 deadline reached, %d of %d tasks not run\n" % (skipped, len(tasks)))
    # the empty input, once per format
    acc = Acc()
    for fmt in FORMATS:
        process(binary, fmt, iter([b""]), acc, "A")
    for k, v in acc.sum.items():
        res.sum[k] = res.sum.get(k, 0) + v
    res.sets |= acc.sets
    res.viol.update(acc.viol)
    res.errors += acc.errors
    res.sum["violating_inputs"] = res.nviol_total
    ck.add(res)
    ck.rule = ("per format (CBOR RFC 8949, MessagePack, UBJSON draft 12, BSON 1.1): (A) every byte string of length <= %d; (B) every legal "
               "encoding of <= 24 bytes of every value of the value set (integers at every width boundary incl. CBOR -2^64..-2^63-1, every "
               "float width that is exact, strings/byte strings of lengths 0,1,2,15,16,23 with 1-4 byte UTF-8 tails, CBOR tags 0-5,21-23,32-34,"
               "64-86, MessagePack ext and timestamps, UBJSON plain/counted/typed containers and high-precision numbers, BSON element types "
               "with a JSON-like counterpart, arrays/maps of sizes 0..23, all trees of <= %d nodes over 8 leaves) in every head width and "
               "definite/indefinite/chunked form, every strict prefix, every single-byte substitution of encodings <= 10 bytes (BSON 16), "
               "structural mutations (reserved additional information 28-30, break/0xc1/end marker inserted at every item, every length "
               "and count +-1); (C) strings, arrays and maps of lengths 24..65536 in every head width with truncations; %s"
               "Oracle: independent reference codecs written from the specifications. non-trivial = distinct inputs the reference "
               "decodes to a value (well-formed JSON-like data)." % (L, 3 if q else 4, "" if q else "(D) every float16 value in every float width. "))
    ck.assumptions = [
        "abstained (counted, not compared): bytes after the first item, CBOR non-text or duplicate map keys, unassigned simple values, tags other "
        "than 0-5/21-23/32-34/64-75/77-82/84-86 or on content of the wrong type, nested tags, tag 4/5 on an indefinite-length pair or with |exponent| > 5000; "
        "MessagePack non-str keys, ext -1 that is not a 4/8/12-byte timestamp or has nanoseconds > 999999999; UBJSON no-op N anywhere, high-precision "
        "payloads that are not JSON numbers, '$' with an unknown marker on an empty container, typed containers of more than 70000 payload-free "
        "elements (not even executed: 16 million nulls per input); BSON undefined/regex/dbpointer/symbol/code-with-scope/timestamp/decimal128/min/max key, "
        "binary subtype 2, boolean bytes other than 0/1, array element names other than 0,1,2..; duplicate keys in every format",
        "integers outside [-2^63, 2^64-1] (CBOR major type 1 with argument >= 2^63): an error or a bignum with the exact value is accepted, a wrong "
        "int64 is not",
        "numbers are compared by value (int64 vs uint64 storage and half vs double storage are not part of the statement); bignum / decimal "
        "fraction / bigfloat / high-precision numbers by the exact rational denoted by jsoncons' text rendering",
        "a sanitizer report or crash inside a decoder is reported as a violation (SAN|...); the sanitizer's own allocation-size limit is treated "
        "as a rejection by exception",
        "decode_xxx<json>: objects are compared as maps (json sorts keys)",
        "a decoded half float is also asked for as_double(): it must be the value its 16 bits denote",
        "every encoding produced by a reference encoder is decoded again by the reference decoder and must denote the value it came from; the "
        "reference decoders are checked against the specifications' example vectors at start (a failure is a harness error)",
    ]
    ck.finish(replay)


def replay(sig):
    binary = _bin()
    p = sig.split("|")
    if p[0] == "DL":
        # regenerate the long input from its generator
        fmt, n, crc = p[1], int(p[2]), int(p[3], 16)
        data = None
        for x in stream_c(fmt, "thorough"):
            if len(x) == n and zlib.crc32(x) == crc:
                data = x
                break
        if data is None:
            return False, "long input not regenerated"
    else:
        fmt, data = p[1], bytes.fromhex(p[2])
    answers, err = run_exec(binary, fmt, [data], timeout=120)
    if err:
        return False, err
    line = answers[0]
    if p[0] in ("SAN", "HANG"):
        if line.startswith("DIE") or line == "HNG":
            return True, "decoder %s: %s" % ("did not terminate" if line == "HNG" else "crashed / sanitizer report", line[4:])
        return False, ""
    if line.startswith("DIE") or line == "HNG":
        return False, line
    cls, detail, nt = judge(fmt, data, line)
    if detail is None:
        return False, ""
    return True, detail
