"""C08 — encoders emit only well-formed output; transcoding stays valid (DESIGN.md §4 C08).

(A) Explicit-state search over visitor event sequences (harness/c08_seq.cpp): every grammatically well-formed
    sequence of at most L events over four alphabets is pushed into 14 JSON encoder configurations (compact and
    pretty, option sets), 7 binary ones (CBOR, +typed arrays, +pack_strings, +both, MessagePack, UBJSON, BSON) and
    2 CSV ones,
    through the error_code overloads into a string/bytes sink and through the throwing overloads into a stream
    sink.  JSON text is judged inside the harness by the strict RFC 8259 reference parser, CSV text by a strict
    RFC 4180 reader; binary output is
    handed to this driver and judged with the reference decoders lib/ref_*.py (lib/c08_model.py holds the
    documented mappings).
(B) Transcoding (harness/c08_trans.cpp): every accepted input of an enumerated input set per format (the C07
    generators: every legal encoding of the C07 value set) is decoded by jsoncons and re-encoded in every other
    format and as JSON text, by the DOM route and by the streaming route; the result must be well-formed per the
    reference and equivalent to the source value as read by the source format's reference decoder.
"""
import os, re, subprocess, sys, zlib
from concurrent.futures import ProcessPoolExecutor
from lib import build, runner, mvtext as mv
from lib import c08_model as model

PROP = "C08"
FLAGS = ["-O2"]
VIOL_CAP = 6            # violations kept per (configuration, class) and task; all are counted
ENVX = {"LC_ALL": "C"}


def _bin_seq():
    return build.build("c08_seq", ["harness/c08_seq.cpp"], FLAGS)


def _bin_trans():
    return build.build("c08_trans", ["harness/c08_trans.cpp"], FLAGS)


def prebuild():
    from concurrent.futures import ThreadPoolExecutor
    with ThreadPoolExecutor(max_workers=2) as ex:
        a = ex.submit(_bin_seq)
        b = ex.submit(_bin_trans)
        a.result()
        b.result()


class Acc(object):
    def __init__(self):
        self.sum = {}
        self.sets = set()
        self.viol = {}
        self.percls = {}
        self.samples = []
        self.errors = []
        self.text = []

    def count(self, k, n=1):
        self.sum[k] = self.sum.get(k, 0) + n

    def violation(self, cfg, cls, sig, detail):
        self.count("violating_cases")
        key = (cfg, cls)
        self.percls[key] = self.percls.get(key, 0) + 1
        if self.percls[key] <= VIOL_CAP:
            self.viol.setdefault(sig, detail)

    def pack(self):
        return (self.sum, sorted(self.sets), self.viol, self.samples, self.errors, "".join(self.text))


# =============================================================================================
# (A) event sequences

def _handle_seq_line(line, acc):
    """One line of harness output: B and J lines are judged here, the rest is standard protocol."""
    if line.startswith("B\t"):
        p = line.rstrip("\n").split("\t")
        if len(p) != 7:
            acc.errors.append("malformed B line: %r" % line[:200])
            return
        _, cfg, stage, names, flags, hx, mvt = p
        try:
            cls, vcls, detail, validated, nontrivial = model.judge_binary(cfg, flags, bytes.fromhex(hx), mvt)
        except Exception as ex:       # harness error, never a verdict
            import traceback
            acc.errors.append("judge failed on %s %s: %s" % (cfg, names, traceback.format_exc()[-800:]))
            return
        acc.sets.add(cls)
        if validated:
            acc.count("traces_validated")
        if vcls is not None:
            if 'd' in flags:
                vcls += "+dupkeys"      # sequences with a repeated member name form failure families of their own
            acc.violation(cfg, vcls, "A|%s|%s|%s|%s" % (cfg, stage, names, vcls), detail + "  pushed: " + mvt[:200])
        else:
            if nontrivial:
                acc.count("nontrivial")
            if cls.endswith("ill-typed:OK") or ":ill-typed:" in cls:
                acc.count("abstained_illtyped")
            elif ":abstained:" in cls:
                acc.count("abstained_reference_unspecified")
            elif cls.endswith(":partly-abstained"):
                acc.count("abstained_no_counterpart")
            if len(acc.samples) < 2 and nontrivial and len(hx) > 8 and zlib.crc32(hx.encode()) % 97 == 0:
                acc.samples.append("%s %s -> %s" % (cfg, names, hx[:80]))
    elif line.startswith("J\t"):
        p = line.rstrip("\n").split("\t")
        if len(p) != 6:
            acc.errors.append("malformed J line: %r" % line[:200])
            return
        _, cfg, stage, names, ok, hx = p
        acc.count("json_texts_second_judge")
        py = model.py_json_accepts(bytes.fromhex(hx))
        if py != (ok == "1"):
            acc.violation(cfg, "refdiff", "A|%s|%s|%s|refdiff" % (cfg, stage, names),
                          "the RFC 8259 reference parser %s, CPython json (strict) %s: %s" % ("accepts" if ok == "1" else "rejects", "accepts" if py else "rejects", bytes.fromhex(hx)[:200]))
    else:
        acc.text.append(line)


def seq_task(args):
    binary, stage, L, sl, nsl = args
    acc = Acc()
    try:
        env = dict(os.environ)
        env.update(ENVX)
        p = subprocess.Popen([binary, "stage=" + stage, "L=%d" % L, str(sl), str(nsl)], stdout=subprocess.PIPE, stderr=subprocess.PIPE, env=env)
        for raw in p.stdout:
            _handle_seq_line(raw.decode("latin-1"), acc)
        err = p.stderr.read().decode(errors="replace")
        rc = p.wait()
        if rc != 0:
            acc.errors.append("c08_seq stage=%s L=%d slice %d/%d exited %s: %s" % (stage, L, sl, nsl, rc, err[-1500:]))
    except Exception:
        import traceback
        acc.errors.append("seq task %s %d/%d: %s" % (stage, sl, nsl, traceback.format_exc()[-1500:]))
    return acc.pack()


def _merge(res, packed):
    sm, sets, viol, samples, errors, text = packed
    r = runner.Result()
    r.feed(text)
    res.merge(r)
    for k, v in sm.items():
        res.sum[k] = res.sum.get(k, 0) + v
    res.sets |= set(sets)
    for k, v in viol.items():
        res.viol.setdefault(k, v)
    res.samples += samples
    res.errors += errors


# =============================================================================================
# (B) transcoding

TRANS_BATCH = 4000
TRANS_SLICES = {"quick": {"cbor": 8, "msgpack": 3, "ubjson": 8, "bson": 1, "json": 1},
                "thorough": {"cbor": 24, "msgpack": 8, "ubjson": 16, "bson": 1, "json": 1}}

# inputs the reference decoders abstain on (so only the well-formedness of the re-encoding is judged), and
# constructs the C07 generators do not produce
EXOTIC = {
    "cbor": ["a1010203"[:6], "a10102", "a201020304", "a1820102f5", "a1f6f6", "a141610161", "bf01020304ff", "a2616101616102", "a1c074323031332d30332d32315432303a30343a30305a01",
             "d8636161", "d9d9f7820102", "c1c101", "d82a8101", "f0", "f8ff", "e0", "d828828202034401020304", "d90410828202038401020304", "d8288282020385010203f6f5",
             "d8404401020304", "82d84142ffff6161", "c24101", "82c249010000000000000000c3410a", "9fc482200aff", "d81845010203", "f7", "82f7a0", "a16161f7", "fb7ff8000000000001",
             "f97c01", "c1fb7ff8000000000000", "c1f97e00", "d9010083636161616361616163616161", "d90100826361616182d81900d81900", "d819006161", "c07f6161ff", "5f41014102ff", "7f61616162ff",
             "a17f6161ffa0", "c482c2410a01", "c5822003", "c58201c249010000000000000000", "c48201c349010000000000000000", "d8184401020304", "d74401020304", "d64401020304", "d54401020304",
             "d82076687474703a2f2f7777772e6578616d706c652e636f6d", "d8216159", "d82264595141", "c11b7fffffffffffffff", "c13b7fffffffffffffff"],
    "msgpack": ["8101c0", "81c0c0", "8190c0", "81c3c2", "81cb3ff8000000000000c0", "82a161c0a161c0", "d4ff00", "c70dff" + "00" * 13, "d50102", "c70001", "c7000a", "d8" + "7f" + "00" * 16,
                "d6ffffffffff", "d7ff0000000400000001", "c70cff3b9ac9ff7fffffffffffffff", "c70cff000000008000000000000000", "c70cff00000001ffffffffffffffff", "92d6ff00000001d6ff00000002",
                "81a161d6ff00000001", "c40100", "c5000100", "dc000101", "de0001a16101", "cb7ff8000000000001", "ca7fc00001", "cf8000000000000000", "d38000000000000000"],
    "ubjson": ["5b4e5d", "5b244e237502"[:10], "7b4e7d", "4869033132" + "33", "48550331653a"[:12], "485504312e3565", "48550431653939", "5b245a236903", "5b2454236902", "7b245a2369016901610a"[:20],
               "5b24552355020001", "5b24642369013fc00000", "5b24442369013ff8000000000000", "5b24432369026162", "5b245b2369025d5d"[:16], "43c3", "4300", "5b2469236902ff7f", "5b24492369018000",
               "44" + "7ff8000000000001", "647fc00001", "4c8000000000000000", "48550231" + "30", "4855152d39323233333732303336383534373735383039", "48551431383434363734343037333730393535313631360a"[:48]],
    "bson": ["0d000000" + "0b6100" + "6100" + "6900" + "00", "08000000066100" + "00", "0800000" + "0ff610000"[1:], "10000000116100" + "0100000002000000" + "00", "18000000136100" + "00" * 16 + "00",
             "0f000000" + "0561000200000002" + "0102"[:4] + "00", "0f0000000561000200000000010200", "0f00000005610002000000ff010200", "0900000008610002" + "00", "1000000001610000000000" + "0000f87f" + "00",
             "10000000016100010000000000f07f00", "10000000096100ffffffffffffff7f00", "100000000961000000000000000080" + "00", "1000000012610000000000000000" + "80" + "00", "0c0000001061000000008000",
             "140000000461000c000000103100010000000000", "13000000106100010000001061000200000000", "1400000007610001" + "02030405060708090a0b0c" + "00", "0e0000000d6100020000007800" + "00",
             "1a0000000f6100120000000200000078000500000000" + "00", "0e0000000e6100020000007800" + "00", "1a0000000c6100020000007800" + "0102030405060708090a0b0c" + "00"],
}

JSON_TEXTS = [
    'null', 'true', 'false', '0', '-0', '-0.0', '1', '-1', '9223372036854775807', '9223372036854775808', '-9223372036854775808', '-9223372036854775809', '18446744073709551615',
    '18446744073709551616', '123456789012345678901234567890', '-123456789012345678901234567890', '1.5', '-2.5e-3', '1E+2', '1e400', '-1e400', '1e-400', '0.1', '1.0', '100000000000000000000.0',
    '4.9e-324', '1.7976931348623157e308', '1.7976931348623159e308', '0.30000000000000004', '123456789012345678901234567890.5', '""', '"a"', '"\\u00e9\\u20ac\\ud800\\udf48"', '"\\"\\\\\\/\\b\\f\\n\\r\\t\\u0000\\u001f\\u007f"',
    '"\u00e9\u2028"', '"' + 'a' * 23 + '"', '"' + 'a' * 24 + '"', '"' + 'a' * 255 + '"', '"' + 'a' * 256 + '"', '[]', '{}', '[[]]', '[{}]', '{"a":{}}', '{"a":[]}', '[1,2,3]', '[1,[2,[3,[4]]]]',
    '{"a":1,"b":[true,null,{"c":"d"}]}', '{"":0}', '{"\\u0000":1}', '{"a\\u0000b":1}', '{"\u00e9":"\u00e9"}', '{"b":1,"a":2}', '[1e400,{"a":-1e400}]', '[18446744073709551616,-9223372036854775809]',
    '[0.5,1.5,2.5]', '[1,2.5,"x",null,true,{"k":[{}]}]', ' [ 1 , 2 ] ', '{"a":1,"a":2}', '[' * 40 + ']' * 40, '[' + ','.join(['0'] * 24) + ']', '{' + ','.join('"k%d":%d' % (i, i) for i in range(16)) + '}',
]


def trans_inputs(fmt, tier):
    from checks import c07
    if fmt == "json":
        for t in JSON_TEXTS:
            yield t.encode("utf-8")
        return
    for v, mode, child, sl in c07.value_set(fmt, tier):
        for e, level in c07.item_encodings(fmt, v, mode, child, c07.ENC_LIMIT):
            yield e
    for v in c07.long_items(fmt, tier):
        for e, level in c07.item_encodings(fmt, v, "reduced", "one", 1 << 30):
            yield e
    for hx in EXOTIC[fmt]:
        try:
            yield bytes.fromhex(hx)
        except ValueError:
            pass


def run_trans_exec(binary, fmt, inputs):
    env = dict(os.environ)
    env.update(ENVX)
    answers = []
    todo = inputs
    pre = fmt.encode() + b" "
    while todo:
        payload = b"".join(pre + x.hex().encode() + b"\n" for x in todo)
        try:
            r = subprocess.run([binary], input=payload, stdout=subprocess.PIPE, stderr=subprocess.PIPE, env=env, timeout=1800)
            out, rc, hung, err = r.stdout, r.returncode, False, r.stderr
        except subprocess.TimeoutExpired as ex:
            out, rc, hung, err = ex.stdout or b"", -1, True, b""
        lines = out.decode("latin-1").split("\n")
        if lines and lines[-1] == "":
            lines.pop()
        elif lines:
            lines.pop()
        answers += lines
        if len(lines) >= len(todo):
            break
        answers.append("HNG" if hung else "DIE rc=%s %s" % (rc, err.decode("latin-1")[-200:].replace("\n", " ")))
        todo = todo[len(lines) + 1:]
    return answers


def _src_decode(fmt, data):
    if fmt == "json":
        ok, tree = model.json_tree(data)
        if not ok:
            return ("ILL", "json")
        return ("OK", _json_src_value(tree))
    return model.REF[fmt].decode(data)


def _json_src_value(t):
    """Reference reading of a JSON text as jsoncons' data model: integers, correctly rounded doubles, big numbers."""
    from fractions import Fraction
    if t is None:
        return ('null', None, 0)
    if t is True or t is False:
        return ('bool', t, 0)
    if isinstance(t, str):
        return ('str', t.encode("utf-8"), 0)
    if isinstance(t, list):
        return ('arr', [_json_src_value(e) for e in t], 0)
    if t[0] == 'obj':
        return ('obj', [(k.encode("utf-8"), _json_src_value(e)) for k, e in t[1]], 0)
    lit = t[1]
    if re.match(r"^-?[0-9]+$", lit):
        n = int(lit)
        if lit == "-0":
            return ('int', 0, 0)
        if mv.INT64_MIN <= n <= mv.UINT64_MAX:
            return ('int', n, 0)
        return ('num', Fraction(n), mv.TAG_BIGINT)
    d = float(lit)
    exact = Fraction(lit)
    if d in (float("inf"), float("-inf")):
        return ('num', exact, mv.TAG_BIGDEC)
    if exact != 0 and abs(d) < 2.3e-308:
        # underflow / subnormal: a double or the exact decimal are both documented readings (judged by C04)
        return ('alt', [('dbl', mv.f64_bits(d), 0), ('num', exact, mv.TAG_BIGDEC)], 0)
    return ('dbl', mv.f64_bits(d), 0)


def _decoded_as_reference(rv, text):
    try:
        if text == mv.render(rv):
            return True
    except mv.MVSyntax:
        pass
    try:
        return mv.equal(rv, mv.parse(text))
    except (mv.MVSyntax, ValueError, IndexError):
        return True       # text not parsable (a quote inside a string): no filter


def trans_task(args):
    binary, fmt, tier, sl, nsl = args
    acc = Acc()
    try:
        seen = set()
        batch = []

        def flush():
            if not batch:
                return
            answers = run_trans_exec(binary, fmt, batch)
            for data, line in zip(batch, answers):
                acc.count("evaluations")
                acc.count("transcode_inputs_" + fmt)
                if line.startswith("DIE") or line == "HNG":
                    sig = "B|%s|%s|*|crash" % (fmt, data.hex() if len(data) <= 300 else "%d:%08x" % (len(data), zlib.crc32(data)))
                    acc.violation(fmt, "crash", sig, "executor died or hung while transcoding: " + line[:200])
                    continue
                if line.startswith("REJ"):
                    acc.count("transcode_source_rejected")
                    acc.sets.add(fmt + ":source-rejected")
                    continue
                src = _src_decode(fmt, data)
                if src[0] == "ILL":
                    acc.count("transcode_source_illformed_but_accepted")      # C07's subject
                    acc.sets.add(fmt + ":source-ill-formed-per-reference")
                    continue
                if src[0] == "OK" and model.has_duplicate_keys(src[1]):
                    src = ("UNSPEC", "duplicate-key")
                fields = line.split("\t")
                if src[0] == "OK" and fmt != "json" and not _decoded_as_reference(src[1], fields[0][3:]):
                    # jsoncons read the input differently from the reference: that is C07's finding, not an
                    # encoder's; the re-encodings are still required to be well-formed
                    acc.count("transcode_source_decoded_differently")
                    acc.sets.add(fmt + ":source-decoded-differently(C07)")
                    src = ("UNSPEC", "decoded-differently")
                if src[0] == "OK":
                    acc.count("nontrivial")
                else:
                    acc.count("transcode_source_unspecified")
                for f in fields[1:]:
                    tr, _, result = f.partition("=")
                    target, _, route = tr.partition(".")
                    acc.count("transcodings")
                    try:
                        cls, vcls, detail = model.judge_transcode(fmt, src, target, route, result)
                    except Exception:
                        import traceback
                        acc.errors.append("judge_transcode %s %s %s: %s" % (fmt, data.hex()[:80], tr, traceback.format_exc()[-900:]))
                        return
                    acc.sets.add(cls)
                    if vcls is not None:
                        did = data.hex() if len(data) <= 300 else "%d:%08x" % (len(data), zlib.crc32(data))
                        acc.violation(fmt + ">" + tr, vcls, "B|%s|%s|%s|%s" % (fmt, did, tr, vcls), detail + "  input: " + data.hex()[:120] + "  jsoncons read: " + fields[0][3:120])
                    elif cls.endswith(":ok") or cls.endswith(":partly-abstained"):
                        acc.count("transcodings_validated")
                if len(acc.samples) < 2 and src[0] == "OK" and zlib.crc32(data) % 199 == 0:
                    acc.samples.append("transcode %s %s -> %s" % (fmt, data.hex()[:48], " ".join(fields[1:4])[:160]))
            del batch[:]

        for x in trans_inputs(fmt, tier):
            if zlib.crc32(x) % nsl != sl or x in seen:
                continue
            seen.add(x)
            batch.append(x)
            if len(batch) >= TRANS_BATCH:
                flush()
        flush()
    except Exception:
        import traceback
        acc.errors.append("trans task %s %d/%d: %s" % (fmt, sl, nsl, traceback.format_exc()[-1500:]))
    return acc.pack()


SEQ_STAGES = {
    "quick": [("struct", 7, 16), ("mid", 5, 16), ("zoo", 4, 16), ("long", 4, 4)],
    "thorough": [("struct", 9, 64), ("mid", 6, 64), ("zoo", 4, 16), ("long", 4, 4)],
}


def selftests():
    errs = []
    for fmt in ("cbor", "msgpack", "ubjson", "bson"):
        errs += model.REF[fmt].selftest()
    # stringref expansion against the example of the specification (http://cbor.schmorp.de/stringref)
    spec = bytes.fromhex("d9010083a34472616e6b0445636f756e741901a1446e616d6548436f636b7461696ca3d819024442617468d81901190138d8190004a3d8190244466f6f64d819011902b3d8190004")
    plain, why = model.cbor_expand_stringrefs(spec)
    want = bytes.fromhex("83a34472616e6b0445636f756e741901a1446e616d6548436f636b7461696ca3446e616d65444261746845636f756e741901384472616e6b04a3446e616d6544466f6f6445636f756e741902b34472616e6b04")
    if plain != want:
        errs.append("stringref expansion of the specification's example: %r (%s)" % (plain.hex() if plain else None, why))
    for t, w in ((b'{"a":[1,2.5e3,"\\u00e9"]}', True), (b'[NaN]', False), (b'[1,]', False), (b'"\\ud800"', False), (b'"\xff"', False), (b' [ ] ', True), (b'01', False), (b'', False)):
        if model.py_json_accepts(t) != w:
            errs.append("py_json_accepts(%r) != %r" % (t, w))
    return errs


def run(tier):
    from concurrent.futures import ThreadPoolExecutor
    with ThreadPoolExecutor(max_workers=2) as ex:
        f1, f2 = ex.submit(_bin_seq), ex.submit(_bin_trans)
        bseq, btrans = f1.result(), f2.result()
    ck = runner.Check(PROP, tier, "model_checking")
    errs = selftests()
    if errs:
        r = runner.Result()
        r.errors += ["reference self-test: " + e for e in errs[:10]]
        ck.add(r)
        ck.finish(replay)
    tasks = []
    for stage, L, nsl in SEQ_STAGES[tier]:
        for s in range(nsl):
            tasks.append(("seq", (bseq, stage, L, s, nsl)))
    for fmt, nsl in TRANS_SLICES[tier].items():
        for s in range(nsl):
            tasks.append(("trans", (btrans, fmt, tier, s, nsl)))
    # heavy stages first
    weight = {"mid": 0, "struct": 1, "zoo": 2, "cbor": 3, "ubjson": 3, "msgpack": 4, "long": 5, "bson": 6, "json": 6}
    tasks.sort(key=lambda t: weight.get(t[1][1], 9))
    res = runner.Result()
    res.sum["evaluations"] = 0
    res.sum["nontrivial"] = 0
    with ProcessPoolExecutor(max_workers=runner.NCPU) as ex:
        for packed in ex.map(_dispatch, tasks, chunksize=1):
            _merge(res, packed)
    ck.add(res)
    st = dict((s, (L, n)) for s, L, n in SEQ_STAGES[tier])
    ck.rule = (
        "(A) stateless explicit-state search: the tree of all grammatically well-formed visitor event prefixes (pushdown discipline: balanced "
        "containers, keys alternate with values, one root value; only prefixes completable within the bound) is walked depth first over four "
        "alphabets and every complete sequence is re-executed from a fresh encoder: 'struct' (begin_array indefinite/0/1/2/3, begin_object "
        "indefinite/0/1/2, begin_multi_dim, keys 'a' and '', null, 1, 'abc', NaN) up to %d events; 'mid' (29 scalars, one per kind/tag family, "
        "begin_array indefinite/2/3, begin_object indefinite/1/2, begin_multi_dim, 3 keys incl. one that needs escaping) up to %d events; 'zoo' (229 scalars: integers at every "
        "width boundary, time-tagged integers/doubles/strings, doubles incl. NaN payloads, +-inf, -0.0, subnormal, halves, strings of lengths "
        "0..32 and every UTF-8 width and escape class, the string '1' under each of the 21 semantic tags, bigint/bigdec/bigfloat texts, byte "
        "strings of the base64 padding classes and fixext sizes with each tag and 9 ext tags, typed arrays of all 11 element types; 6 keys incl. "
        "NUL and escapes) up to %d events; 'long' (strings, byte strings, typed arrays, keys of 255/256/65535/65536 bytes, 300-digit bignums) up "
        "to %d events. Declared lengths are right, too small, too large or absent by construction. Each sequence runs through 14 JSON "
        "configurations (compact x 8 option sets: NaN/Inf substitutes as numbers/strings and both setter orders, byte_string_format, "
        "bignum_format, escape_all_non_ascii/solidus, float_format; pretty x 6 layouts: line_length_limit 1..16, every line_split kind, "
        "indent 0..3, tabs, CRLF, spaces_around, padding), 7 binary ones (CBOR, +typed arrays, +pack_strings, +both, MessagePack, UBJSON, "
        "BSON) and 2 CSV ones (default; quote_style all + CRLF), by the error_code overloads into a string/bytes sink and by the throwing overloads into a stream sink (outcomes must agree; "
        "flush() and destructor included). Oracle: error reported, or output accepted by the strict RFC 8259 reference parser (cross-checked "
        "against CPython json on the default configurations) / by the reference decoder of the format with nothing left over, and equal to the "
        "model of the pushed data under the documented mappings; CSV output must be readable by a strict RFC 4180 reading (written from "
        "the RFC's ABNF, LF accepted as a line break) and, for arrays of rows / arrays of objects of untagged strings, integers and booleans, "
        "give back the pushed rows (header = member names). states = distinct event prefixes; transitions = events pushed; "
        "traces_validated = complete sequences whose output a reference judged. "
        "(B) every encoding accepted by jsoncons out of: every legal encoding of <= 24 bytes of the C07 value set per format (all head widths, "
        "definite/indefinite/chunked forms, typed arrays, tags, UBJSON typed/counted containers), the C07 long items (lengths 24..65536), ~130 "
        "hand-listed inputs the reference abstains on (non-text keys, unknown/nested tags, stringrefs, multi-dim, simple values, ext/timestamp "
        "oddities, no-op, BSON exotic types) and 62 JSON texts; decoded and re-encoded into every other format and compact/pretty JSON text by "
        "the DOM route (decode_X<json> + encode_Y/dump) and the streaming route (X reader piped into the Y encoder). Oracle: the result is "
        "well-formed per the reference of the target and denotes the value the source format's reference decoder reads. "
        "non-trivial = (A) judged outputs that matched with no abstention, (B) inputs whose source value the reference defines."
        % (st["struct"][0], st["mid"][0], st["zoo"][0], st["long"][0]))
    ck.assumptions = [
        "an error report (error code, ser_error, json_exception incl. a tripped assertion) is always an acceptable outcome for an encoder; only for re-encoding a "
        "decoded value as JSON text is an error counted as a violation",
        "ill-typed tag/content pairs are pushed and counted but never judged (DESIGN.md: C05's subject): a string tagged bigint/bigdec/bigfloat/epoch_*/id/regex whose "
        "text is not what the tag announces, noesc on text that needs escaping, invalid UTF-8 in strings and keys",
        "duplicate member names in one object: only well-formedness is judged (RFC 8259 and the binary specifications leave the value open)",
        "where the target format has no counterpart the value is not compared: CBOR epoch_milli/epoch_nano (converted to seconds as a double), BSON epoch_nano "
        "(truncated to milliseconds), BSON undefined/regex/decimal128 (reference abstains), a BSON root array (written as a document with index names), ext tags "
        "above 255 in MessagePack/BSON (one byte available), MessagePack ext 255 (the timestamp type), ext numbers that are CBOR tags with a meaning of their own, "
        "time tags on doubles outside CBOR (compared as numbers), bigdec exponents beyond 100000 (reference limit)",
        "doubles must read back bit for bit (any NaN is a NaN); under a non-default float_format only 'is a number' is demanded; bignum_format base64/base64url is "
        "compared by the value of the decoded bytes, base16 text case-insensitively",
        "CBOR only: tags written for ext byte strings and multi-dim arrays (40/1040) are taken off the byte stream and compared separately, the stringref namespace "
        "(pack_strings) is expanded by a small pre-pass written from the stringref specification; well-formedness and value are then judged by lib/ref_cbor.py",
        "(B) inputs that jsoncons reads differently from the reference decoder, or that the reference calls ill-formed, are C07's findings: only the well-formedness of "
        "their re-encodings is judged here; MessagePack timestamps may come out as epoch_second integers or epoch_nano digit strings (both documented)",
        "CSV: values nested deeper than a table (array of scalars / rows / flat objects, or object of scalars / columns) become multi-valued fields joined by "
        "subfield_delimiter, a jsoncons extension without an RFC 4180 reading: not judged (observed: with quote_style all each subfield is quoted separately and the "
        "default delimiter is a NUL character). Only well-formedness is judged for shapes other than an array of non-empty rows (arrays, or objects with identical member-name lists) of untagged "
        "strings / integers / booleans; rows that are a single empty field (an empty line) are abstained; the CSV encoder is not run on the 'long' alphabet. "
        "The TOON encoder is not part of this check (recorded open findings F32-F34, F71)",
    ]
    ck.finish(replay)


def _dispatch(t):
    return seq_task(t[1]) if t[0] == "seq" else trans_task(t[1])


def replay(sig):
    p = sig.split("|")
    if p[0] == "A":
        binary = _bin_seq()
        rc, out, err = runner.run_cmd([binary, "replay", sig], timeout=600, env=ENVX)
        acc = Acc()
        for line in out.splitlines(True):
            _handle_seq_line(line, acc)
        if acc.errors:
            return False, acc.errors[0]
        r = runner.Result()
        r.feed("".join(acc.text))
        for k, v in list(acc.viol.items()) + list(r.viol.items()):
            if k == sig:
                return True, v
        return False, ""
    if p[0] == "B" and len(p) == 5:
        fmt, did, tr, vcls = p[1], p[2], p[3], p[4]
        binary = _bin_trans()
        if ":" in did:
            n, crc = did.split(":")
            data = None
            for x in trans_inputs(fmt, "thorough"):
                if len(x) == int(n) and "%08x" % zlib.crc32(x) == crc:
                    data = x
                    break
            if data is None:
                return False, "long input not regenerated"
        else:
            data = bytes.fromhex(did)
        line = run_trans_exec(binary, fmt, [data])[0]
        if line.startswith("DIE") or line == "HNG":
            return (vcls == "crash"), line[:200]
        if line.startswith("REJ"):
            return False, "source rejected"
        src = _src_decode(fmt, data)
        if src[0] == "ILL":
            return False, ""
        if src[0] == "OK" and model.has_duplicate_keys(src[1]):
            src = ("UNSPEC", "duplicate-key")
        fields = line.split("\t")
        if src[0] == "OK" and fmt != "json" and not _decoded_as_reference(src[1], fields[0][3:]):
            src = ("UNSPEC", "decoded-differently")
        for f in fields[1:]:
            t, _, result = f.partition("=")
            if t != tr:
                continue
            target, _, route = t.partition(".")
            cls, v, detail = model.judge_transcode(fmt, src, target, route, result)
            if v == vcls:
                return True, detail
        return False, ""
    return False, "unknown signature"
