"""C09 — basic_json behaves as a value-semantic JSON container (DESIGN.md §4 C09)."""
from lib import build, runner

PROP = "C09"
FLAGS = ["-O1", "-fsanitize=address,undefined", "-fsanitize-recover=address,undefined", "-fno-sanitize=nonnull-attribute",
         "-fno-access-control", "-DVF_PRIV"]
ENV = {"ASAN_OPTIONS": "halt_on_error=0:detect_leaks=0", "UBSAN_OPTIONS": "print_stacktrace=0"}


def _bin():
    return build.build("c09", ["harness/c09.cpp"], FLAGS)


def prebuild():
    _bin()


def run(tier):
    b = _bin()
    ck = runner.Check(PROP, tier, "model_checking")
    d = 5 if tier == "quick" else 7
    n = runner.NCPU
    ck.add(runner.run_slices(b, ["bfs", "type=json", "depth=%d" % d], nslices=n, env=ENV))
    ck.add(runner.run_slices(b, ["bfs", "type=ojson", "depth=%d" % d], nslices=n, env=ENV))
    ck.add(runner.run_slices(b, ["pairs"], nslices=n, env=ENV))
    ck.add(runner.run_slices(b, ["wide"], nslices=n, env=ENV))
    ck.add(runner.run_slices(b, ["isas"], nslices=1, env=ENV))
    if ck.res.sum.get("bfs_state_cap_hit"):
        ck.exhaustive = False
    ck.rule = ("BFS to depth %d over two variables x,y (json and ojson) under ~60 operations (assign 15 literals of every storage "
               "kind, copy, move, swap, copy/move-construct round trips, self-assignment, assignment from json_ref/const_json_ref, "
               "push_back, insert, erase, resize, clear, reserve, shrink_to_fit, insert_or_assign, try_emplace, operator[]=, erase(key), "
               "merge, merge_or_update), states de-duplicated on kind-exact text + capacity of x and y; after every transition both "
               "objects are compared with a reference model through size/empty/contains/count/find/at/operator[]/iteration order/dump. "
               "Relational laws over all ordered pairs of a %s-value alphabet (every storage kind, number-tagged strings, byte strings "
               "with ext tags, json_ref/const_json_ref wrappers): antisymmetry of compare, symmetry of ==, the six operators vs compare, "
               "reflexivity of deep copies, equal values of identical kinds print identically. is<T>() => as<T>() exact for 12 arithmetic T "
               "over 67 boundary values. non-trivial = distinct states / equal pairs / (value,T) with is<T>() true." % (d, "~110"))
    ck.assumptions = [
        "operations whose precondition the documentation does not define (array operation on an object, ...) must throw or leave valid objects; the model re-synchronises",
        "number-tagged strings with non-numeric text are ill-typed and not in the alphabet; cross-kind numeric equality and transitivity are not demanded",
        "is<float>() on a double that float cannot represent exactly is abstained (is<float> is documented as 'holds a floating-point number')",
        "ASan+UBSan reports are captured per transition and count as violations",
    ]
    ck.finish(replay)


def replay(sig):
    rc, out, err = runner.run_cmd([_bin(), "replay", sig], timeout=300, env=ENV)
    r = runner.Result()
    r.feed(out)
    if sig in r.viol:
        return True, r.viol[sig]
    if r.viol and not sig.startswith("W|"):
        return True, list(r.viol.values())[0]
    return False, ""
