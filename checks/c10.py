"""C10 — resource limits hold against hostile input (DESIGN.md §4 C10)."""
from lib import build, runner

PROP = "C10"
FLAGS = ["-O2"]


def _bin():
    return build.build("c10", ["harness/c10.cpp"], FLAGS)


def prebuild():
    _bin()


def run(tier):
    b = _bin()
    ck = runner.Check(PROP, tier, "fault_enumeration")
    n = runner.NCPU
    t = ["tier=" + tier]
    for mode in ("depth", "reuse", "items", "stack", "mem"):
        ck.add(runner.run_slices(b, [mode] + t, nslices=n, timeout=3000))
    ck.rule = ("depth: 20 container shapes over JSON/CBOR/MessagePack/UBJSON/BSON/TOON decoders (definite, indefinite, counted, tagged, "
               "16/32-bit headers) x limit L (quick: 1,2,3,10,64,65,66,1024; thorough: every L in 1..300 and 1023,1024,1025,5000,20000,50000) "
               "x nesting depth in {L-1, L, L+1} x 3 source kinds, and the JSON (compact, pretty), CBOR, MessagePack, UBJSON, BSON encoders on "
               "iteratively built values: accepted, accepted, max_nesting_depth_exceeded. items: UBJSON max_items m x counts {m-1,m,m+1} x 5 "
               "header kinds. stack: 30 operations (parse, copy, copy-assign, ==, <, dump, dump_pretty, CBOR decode/encode, ojson, move/swap "
               "on depth-1024 values; parse+destroy at depth 1e5 and 1e6) on a painted 512 KiB thread stack in a forked child. mem: 30 "
               "length-claiming headers x claimed n in 2^20..2^64-1 x trailing bytes {0,1,16} x {bytes, istream, iterator} sources of decode_X<json> and the typed entry points try_decode_X<vector<double>|vector<uint8_t>|vector<string>|map<string,int64_t>> with a "
               "replaced operator new: peak live heap <= 128 KiB + 32 x (bytes supplied + bytes of value produced), and the claim must "
               "never reach the allocator (bad_alloc / length_error). non-trivial = cases where the expected acceptance / bound held.")
    ck.assumptions = ["stack and heap numbers are those of an -O2 build without sanitizers",
                      "claims below 2^20 cannot be told from buffer noise (16 KiB stream chunks) and are not judged"]
    ck.finish(replay)


def replay(sig):
    rc, out, err = runner.run_cmd([_bin(), "replay", sig], timeout=600)
    r = runner.Result()
    r.feed(out)
    if sig in r.viol:
        return True, r.viol[sig]
    return False, ""
