"""C11 — JSON Schema validation verdicts are correct (DESIGN.md §4 C11).

Python explorer + two references (python-jsonschema and a small specification evaluator, both in
lib/c11_oracle.py, run under python3-vt) + C++ executor (harness/c11_exec.cpp; ASan+UBSan, -O2 for the
thorough-only deep families).  The schema grammar lives in lib/c11_gen.py.

Violation signatures (all replayable from the signature alone):
  S|<dialect>|<hex schema>|<hex instance>                  verdict differs from the (agreeing) references
  E|<dialect>|<hex schema>|<hex instance>                  is_valid / validate(throwing|reporter|visitor) disagree
  H|<dialect>|<hex schema>|<hex instance array>            verdict (or walk trace) of a compiled schema changed with history
  P|<dialect>|<hex schema>|<hex instance>|<hex schema'>|<hex instance'>   verdict changed under member-order permutation
                                                           (or under declaring the dialect with "$schema")
  C|<dialect>|<hex schema>|                                jsoncons refuses a schema the dialect's meta-schema accepts
  X|<dialect>|<hex schema>|<hex instance array>            crash / sanitizer report / hang / unexpected exception
"""
import os, sys, threading, subprocess, collections, json
from concurrent.futures import ProcessPoolExecutor, ThreadPoolExecutor
from lib import build, runner
from lib import c11_gen as G

PROP = "C11"
ASAN = ["-O1", "-fsanitize=address,undefined", "-fno-sanitize-recover=undefined", "-fno-sanitize=nonnull-attribute"]
ENV = {"ASAN_OPTIONS": "detect_leaks=0:abort_on_error=0:exitcode=77", "UBSAN_OPTIONS": "print_stacktrace=1:halt_on_error=1:exitcode=78",
       "LC_ALL": "C"}
ORACLE = [os.environ.get("VERIF_PY_VT", "python3-vt"), os.path.join(runner.VERIF, "lib", "c11_oracle.py")]
LINE_TIMEOUT = 30          # seconds per executor line (watchdog inside the executor)
FULL_CAP = 24              # member-order variants per schema (families explored in both tiers)
DEEP_CAP = 4               # ... for the thorough-only families
DEEP = ("D2T", "D3", "UE2", "UI2")
HIST_N = 24                # history independence: all ordered pairs over the first HIST_N instances of a schema


def _bins():
    """(ASan+UBSan executor, -O2 executor for the thorough-only deep families); compiled in parallel."""
    with ThreadPoolExecutor(max_workers=2) as ex:
        a = ex.submit(build.build, "c11_exec_asan", ["harness/c11_exec.cpp"], ASAN)
        b = ex.submit(build.build, "c11_exec_fast", ["harness/c11_exec.cpp"], ["-O2"])
        return a.result(), b.result()


def _bin():
    return build.build("c11_exec_asan", ["harness/c11_exec.cpp"], ASAN)


def prebuild():
    _bins()


# ---------------------------------------------------------------------------- subprocess plumbing

def _env():
    e = dict(os.environ)
    e.update(ENV)
    return e


def _pipe(cmd, data, timeout=None):
    p = subprocess.Popen(cmd, stdin=subprocess.PIPE, stdout=subprocess.PIPE, stderr=subprocess.PIPE, env=_env())
    try:
        out, err = p.communicate(data, timeout=timeout)
    except subprocess.TimeoutExpired:
        p.kill()
        out, err = p.communicate()
        return -999, out.decode("utf-8", "replace"), "TIMEOUT"
    return p.returncode, out.decode("utf-8", "replace"), err.decode("utf-8", "replace")


def run_exec(binary, lines):
    """Run the executor over `lines`; a line that kills or hangs the process gets the answer 'CRASH ...'/'HANG' and the
    rest is resubmitted to a fresh process.  Returns one answer per line."""
    answers = []
    start = 0
    restarts = 0
    while start < len(lines):
        chunk = lines[start:]
        rc, out, err = _pipe([binary, str(LINE_TIMEOUT)], ("\n".join(chunk) + "\n").encode("utf-8"),
                             timeout=LINE_TIMEOUT * 4 + len(chunk) * 2)
        got = out.split("\n")
        if got and got[-1] == "":
            got.pop()
        if len(got) >= len(chunk) and not (got and got[len(chunk) - 1].startswith("HANG")):
            answers += got[:len(chunk)]
            if rc != 0:   # every line answered but the process failed at exit
                raise RuntimeError("executor answered every line but exited with %s: %s" % (rc, _first_lines(err)))
            break
        if got and got[-1].startswith("HANG"):
            answers += got[:-1]
            answers.append("HANG no answer within %d s" % LINE_TIMEOUT)
        else:
            answers += got
            answers.append("CRASH rc=%s %s" % (rc, _first_lines(err)))
        start = len(answers)
        restarts += 1
        if restarts > 200:
            raise RuntimeError("executor died more than 200 times in one batch")
    return answers


def _first_lines(err):
    keep = []
    for l in err.splitlines():
        l = l.strip()
        if not l or l.startswith("===") or l.startswith("#") and not l.startswith("#0") and not l.startswith("#1 ") and not l.startswith("#2 "):
            continue
        keep.append(l[:220])
        if len(keep) >= 6:
            break
    return " / ".join(keep).replace("\t", " ")


def run_oracle(lines):
    rc, out, err = _pipe(ORACLE, ("\n".join(lines) + "\n").encode("utf-8"))
    got = out.split("\n")
    if got and got[-1] == "":
        got.pop()
    if rc != 0 or len(got) != len(lines):
        raise RuntimeError("oracle failed rc=%s answered %d of %d: %s" % (rc, len(got), len(lines), err[-1500:]))
    return got


def both(binary, exec_lines, oracle_lines):
    res = {}

    def a():
        try:
            res["o"] = run_oracle(oracle_lines) if oracle_lines else []
        except Exception as e:  # noqa
            res["oerr"] = repr(e)
    t = threading.Thread(target=a)
    t.start()
    try:
        res["e"] = run_exec(binary, exec_lines)
    except Exception as e:  # noqa
        res["eerr"] = repr(e)
    t.join()
    return res


# ---------------------------------------------------------------------------- abstentions

def _has_intfloat(x):
    if isinstance(x, float):
        return x == x and x not in (float("inf"), float("-inf")) and x == int(x)
    if isinstance(x, list):
        return any(_has_intfloat(v) for v in x)
    if isinstance(x, dict):
        return any(_has_intfloat(v) for v in x.values())
    return False


def abstain(d, schema_text, inst):
    """Draft 4 says an integer is a number without fractional *part in its representation* (1.0 is not an integer
    for the reference, the later drafts say it is): no verdict demanded when the schema mentions "integer"."""
    if d == "4" and '"integer"' in schema_text and _has_intfloat(inst):
        return "draft4_integer_valued_float"
    return None


# ---------------------------------------------------------------------------- one task = one slice of one dialect

def work(args):
    d, tier, k, n, binary, deep = args
    viol = {}
    cnt = collections.Counter()
    classes = set()
    samples = []
    errors = []
    disagree = []
    cases = []      # (fam, schema, hs, insts(all incl. permuted), nbase, perm pairs, hex instances array)
    exec_lines, tags, oracle_lines = [], [], []
    idx = -1
    for fam, s in G.schemas(d, tier):
        if (fam in DEEP) != deep:
            continue
        idx += 1
        if idx % n != k:
            continue
        insts = G.instances_for(fam, s)
        perms = G.perm_instances(insts)
        allinsts = insts + [p for _, p in perms]
        hs = G.hexs(s)
        hi = G.hexs(allinsts)
        ci = len(cases)
        cases.append((fam, s, hs, allinsts, len(insts), perms, hi))
        line = "%s %s %s" % (d, hs, hi)
        exec_lines.append("%s:h%d %s %s" % (d, min(len(insts), HIST_N), hs, hi))
        tags.append((ci, None))
        oracle_lines.append(line)
        cap = DEEP_CAP if fam in DEEP else FULL_CAP
        for v in G.order_variants(s, cap) + G.schema_keyword_variants(d, s):
            exec_lines.append("%s:q %s %s" % (d, G.hexs(v), hi))
            tags.append((ci, v))
    if not cases:
        return dict(viol=viol, cnt=cnt, classes=classes, samples=samples, errors=errors, disagree=disagree)
    r = both(binary, exec_lines, oracle_lines)
    if "oerr" in r or "eerr" in r:
        errors.append("task %s/%d: %s %s" % (d, k, r.get("oerr", ""), r.get("eerr", "")))
        return dict(viol=viol, cnt=cnt, classes=classes, samples=samples, errors=errors, disagree=disagree)
    ex, orc = r["e"], r["o"]
    base_verdicts = {}
    s_candidates = []    # (ci, i, detail)
    for li, ((ci, variant), ans) in enumerate(zip(tags, ex)):
        fam, s, hs, allinsts, nbase, perms, hi = cases[ci]
        if variant is not None:
            continue
        oans = orc[ci]
        cnt["schemas"] += 1
        cnt["schemas_" + fam] += 1
        stext = G.text(s)
        if oans.startswith("BADSCHEMA"):
            cnt["skipped_rejected_by_metaschema"] += 1
            continue
        if oans.startswith("ERR"):
            cnt["abstain_reference_failed"] += 1
            continue
        op = oans.split(" ")
        overd, sverd = op[1], op[2]
        if ans.startswith("SCHEMA_ERR"):
            cnt["compile_refusals"] += 1
            viol["C|%s|%s|" % (d, hs)] = "jsoncons refuses to compile a schema that the %s meta-schema accepts: %s :: schema %s" % (d, ans[11:], stext)
            classes.add("schema_err")
            continue
        if not ans.startswith("OK "):
            cnt["executor_failures"] += 1
            viol["X|%s|%s|%s" % (d, hs, hi)] = "%s :: schema %s" % (ans[:600], stext)
            classes.add(ans.split(" ")[0].lower())
            continue
        parts = ans.split(" ", 3)
        verd = parts[1]
        if len(verd) != len(allinsts) or len(overd) != len(allinsts) or len(sverd) != len(allinsts):
            errors.append("verdict length mismatch for %s %s: %r vs %r" % (d, stext, ans[:200], oans[:200]))
            continue
        base_verdicts[ci] = verd
        cnt["evaluations"] += len(allinsts)
        cnt["cases"] += len(allinsts)
        if "0" in verd[:nbase] and "1" in verd[:nbase]:
            cnt["nontrivial"] += 1
        kws = sorted(G.keywords(s) - {"a", "b", "x", "^a"}) if isinstance(s, dict) else ["bool"]
        for kw in kws:
            if "1" in verd:
                classes.add("%s:%s:valid" % (d, kw))
            if "0" in verd:
                classes.add("%s:%s:invalid" % (d, kw))
        if (ci * 7919 + k) % 997 == 0 and len(samples) < 4:
            samples.append("%s %s on %s -> %s" % (d, stext, G.text(allinsts[:nbase]), verd[:nbase]))
        for i, (a, b, c) in enumerate(zip(verd, overd, sverd)):
            why = abstain(d, stext, allinsts[i])
            if why:
                cnt["abstain_" + why] += 1
                continue
            if b == "?" and c == "?":
                cnt["abstain_no_reference"] += 1
                continue
            if b == "?":
                # python-jsonschema does not implement this corner of the dialect (2019-09: contains must not feed
                # unevaluatedItems; its legacy code lets it) -- the specification evaluator alone is not a second opinion
                cnt["abstain_python_jsonschema_has_no_opinion"] += 1
                if a != c:
                    cnt["info_differs_from_spec_evaluator_where_abstained"] += 1
                continue
            elif c == "?":
                cnt["judged_by_python_jsonschema_only"] += 1
            elif b != c:
                cnt["abstain_references_disagree"] += 1
                if len(disagree) < 40:
                    disagree.append("%s %s on %s: python-jsonschema %s, spec evaluator %s, jsoncons %s" % (d, stext, G.text(allinsts[i]), b, c, a))
                continue
            else:
                cnt["judged_by_both_references"] += 1
            if a == b:
                continue
            s_candidates.append((ci, i, "jsoncons says %s, the references (%s) say %s :: schema %s instance %s" % (
                "valid" if a == "1" else "invalid", d, "valid" if b == "1" else "invalid", stext, G.text(allinsts[i]))))
        for (orig, p), j in zip(perms, range(nbase, len(allinsts))):
            cnt["instance_order_pairs"] += 1
            if verd[j] != verd[orig]:
                viol["P|%s|%s|%s|%s|%s" % (d, hs, G.hexs(allinsts[orig]), hs, G.hexs(p))] = (
                    "verdict depends on instance member order: %s -> %s, %s -> %s :: schema %s" % (
                        G.text(allinsts[orig]), verd[orig], G.text(p), verd[j], stext))
        if len(parts) > 3 and parts[2] == "MISMATCH":
            for item in parts[3].split(";"):
                kind = item.split(":", 1)[0]
                if kind in ("ep", "visitor"):
                    try:
                        i = int(item.split(":")[1][2:])
                    except ValueError:
                        i = 0
                    cnt["entry_point_disagreements"] += 1
                    viol["E|%s|%s|%s" % (d, hs, G.hexs(allinsts[i]))] = "%s :: schema %s instance %s" % (item, stext, G.text(allinsts[i]))
                else:
                    cnt["history_dependences"] += 1
                    viol.setdefault("H|%s|%s|%s" % (d, hs, hi), "%s :: schema %s instances %s" % (item, stext, G.text(allinsts)))
    # member-order / $schema variants against the base verdicts
    for (ci, variant), ans in zip(tags, ex):
        if variant is None or ci not in base_verdicts:
            continue
        fam, s, hs, allinsts, nbase, perms, hi = cases[ci]
        cnt["schema_variants"] += 1
        verd = base_verdicts[ci]
        if ans.startswith("OK "):
            cnt["evaluations"] += len(allinsts)
            v2 = ans.split(" ", 3)[1]
            if v2 == verd:
                continue
            i = next(j for j in range(len(verd)) if j >= len(v2) or v2[j] != verd[j])
            detail = "verdict %s for %s but %s for %s :: instance %s" % (verd[i], G.text(s), v2[i:i + 1], G.text(variant), G.text(allinsts[i]))
        else:
            i = 0
            detail = "%s for %s but verdicts %s for %s" % (ans[:300], G.text(variant), verd, G.text(s))
        cnt["order_dependences"] += 1
        hx = G.hexs(allinsts[i])
        viol["P|%s|%s|%s|%s|%s" % (d, hs, hx, G.hexs(variant), hx)] = detail
    # confirm verdict mismatches on a fresh compiled schema with the single instance (else it is a history effect)
    if s_candidates:
        lines = ["%s:q %s %s" % (d, cases[ci][2], G.hexs([cases[ci][3][i]])) for ci, i, _ in s_candidates]
        r2 = run_exec(binary, lines)
        for (ci, i, detail), ans in zip(s_candidates, r2):
            fam, s, hs, allinsts, nbase, perms, hi = cases[ci]
            if ans.startswith("OK ") and ans[3:4] == base_verdicts[ci][i]:
                cnt["verdict_mismatches"] += 1
                viol["S|%s|%s|%s" % (d, hs, G.hexs(allinsts[i]))] = detail
            else:
                cnt["history_dependences"] += 1
                viol.setdefault("H|%s|%s|%s" % (d, hs, hi), "verdict for instance %d differs between the batch (%s) and a fresh schema (%s) :: %s" % (
                    i, base_verdicts[ci][i], ans[:80], detail))
    return dict(viol=viol, cnt=cnt, classes=classes, samples=samples, errors=errors, disagree=disagree)


# ---------------------------------------------------------------------------- driver

def run(tier):
    asan, fast = _bins()
    ck = runner.Check(PROP, tier, "exploration")
    jobs = max(2, runner.NCPU // 2)          # every task keeps two processes busy (oracle + executor)
    nsl = jobs
    tasks = []
    if tier == "thorough":
        tasks += [(d, tier, k, nsl * 6, fast, True) for d in reversed(G.DIALECTS) for k in range(nsl * 6)]
    tasks += [(d, tier, k, nsl, asan, False) for d in reversed(G.DIALECTS) for k in range(nsl)]
    res = runner.Result()
    budget = 150 if tier == "quick" else 1500
    skipped = 0
    disagreements = []
    with ProcessPoolExecutor(max_workers=jobs) as ex:
        futs = []
        for t in tasks:
            futs.append(ex.submit(_guarded, t, ck.t0 + budget))
        for f in futs:
            out = f.result()
            if out is None:
                skipped += 1
                continue
            for sig, det in out["viol"].items():
                res.nviol_total += 1
                res.viol.setdefault(sig, det)
            for key, v in out["cnt"].items():
                res.sum[key] = res.sum.get(key, 0) + v
            res.sets |= out["classes"]
            res.samples += out["samples"]
            res.errors += out["errors"]
            disagreements += out["disagree"]
    if skipped:
        ck.exhaustive = False
        ck.extra["tasks_skipped_at_deadline"] = skipped
    for key in ("evaluations", "nontrivial"):
        res.sum.setdefault(key, 0)
    ck.extra["reference_disagreement_examples"] = sorted(disagreements)[:12]
    ck.add(res)
    ck.rule = ("per dialect (drafts 4, 6, 7, 2019-09, 2020-12) every schema of lib/c11_gen.py: A = each leaf alone (boolean schemas, 7 types, "
               "enum/const, min/max incl. exclusive forms and 2^53 limits, multipleOf, min/maxLength, 3 portable patterns, min/maxItems, "
               "uniqueItems, required, min/maxProperties, dependentRequired); D1 = every combinator template (allOf anyOf oneOf not "
               "if/then/else properties patternProperties additionalProperties items/prefixItems/additionalItems contains(+min/maxContains) "
               "propertyNames dependencies/dependentSchemas, $ref to definitions/$defs, to a plain-name anchor, to '#' (recursive) and to the "
               "location of a subschema under each applicator keyword, unevaluatedProperties unevaluatedItems, sibling keywords, $ref with "
               "siblings) over 8 operand leaves; D2 = templates over depth-1 core schemas; UE1/UI1 = unevaluated* next to every in-place "
               "applicator over 9-10 annotating atoms; thorough adds D2T (core binary over K1xK1), D3 (core unary over depth-2 core) and "
               "UE2/UI2 (in-place depth 2), those on an -O2 executor.  Each schema x 19 fixed instances + boundary instances per keyword "
               "class + every member-order permutation of 2-3 member object instances; four entry points and walk per instance; history "
               "independence over all ordered pairs of the first %d instances; each schema additionally in every member-order permutation "
               "of its objects (<= 3 members, product capped at %d variants, %d for the thorough-only families) and with \"$schema\" "
               "declared first/last.  Counters: schemas_<family>.  non-trivial = schemas for which the instance list contains both a valid "
               "and an invalid instance." % (HIST_N, FULL_CAP, DEEP_CAP))
    ck.assumptions = [
        "a verdict is demanded only where python-jsonschema 4.26 (validator class of the dialect, no format checker) and the specification evaluator in lib/c11_oracle.py agree; disagreements between the two references are abstentions (abstain_references_disagree)",
        "2019-09 schemas using unevaluated*: python-jsonschema's legacy implementation contradicts the 2019-09 text, its 2020-12 validator is used on the respelled schema (items[]/additionalItems -> prefixItems/items); where contains meets unevaluatedItems (contains feeds unevaluatedItems only from 2020-12 on, python-jsonschema and jsoncons let it in 2019-09 too) nothing is demanded (abstain_python_jsonschema_has_no_opinion)",
        "schemas rejected by check_schema are skipped, reference failures are abstentions",
        "Draft 4: no verdict demanded for instances containing an integer-valued float when the schema mentions \"integer\" (the drafts disagree)",
        "not generated: format, content*, remote references, $dynamicRef/$recursiveRef, $id-based rebasing, patterns outside {^a, b$, a+}, numeric limits that are not exact in binary64, compatibility_mode, `definitions` in 2019-09/2020-12, `$defs` in drafts 4-7, JSON pointers into the siblings of a draft 4-7 $ref below the root",
        "dialect selected with evaluation_options::default_version; the \"$schema\" variants must give the same verdicts",
        "executor is built with ASan+UBSan (leak detection off): a sanitizer report, crash, hang (> %d s per line) or foreign exception is a violation (X|...)" % LINE_TIMEOUT,
    ]
    ck.finish(lambda sig: replay(sig))


def _guarded(t, deadline):
    import time
    if time.time() > deadline:
        return None
    return work(t)


# ---------------------------------------------------------------------------- replay

def _unhex_json(h):
    return json.loads(bytes.fromhex(h).decode("utf-8"))


def replay(sig):
    binary = _bin()
    p = sig.split("|")
    kind, d, hs = p[0], p[1], p[2]
    if kind == "S":
        hi = G.hexs([_unhex_json(p[3])])
        line = "%s %s %s" % (d, hs, hi)
        e = run_exec(binary, [line])[0]
        o = run_oracle([line])[0]
        if e.startswith("OK ") and o.startswith("OK "):
            b, c = o.split(" ")[1], o.split(" ")[2]
            ref = c if b == "?" else b
            if ref in ("0", "1") and (c == "?" or b == "?" or b == c) and e[3:4] != ref:
                return True, "jsoncons %s, references %s" % (e[3:4], ref)
        return False, ""
    if kind == "E":
        hi = G.hexs([_unhex_json(p[3])])
        e = run_exec(binary, ["%s %s %s" % (d, hs, hi)])[0]
        if e.startswith("OK ") and " MISMATCH " in e and ("ep:" in e or "visitor:" in e):
            return True, e
        return False, ""
    if kind == "H":
        e = run_exec(binary, ["%s %s %s" % (d, hs, p[3])])[0]
        if e.startswith("OK ") and " MISMATCH " in e and ("hist:" in e or "walk:" in e):
            return True, e
        # verdict in the batch differs from the verdict on a fresh schema
        if e.startswith("OK "):
            insts = _unhex_json(p[3])
            singles = run_exec(binary, ["%s:q %s %s" % (d, hs, G.hexs([x])) for x in insts])
            v = "".join(a[3:4] if a.startswith("OK ") else "?" for a in singles)
            if v != e.split(" ")[1]:
                return True, "batch %s, fresh %s" % (e.split(" ")[1], v)
        return False, ""
    if kind == "P":
        a = run_exec(binary, ["%s:q %s %s" % (d, hs, G.hexs([_unhex_json(p[3])])), "%s:q %s %s" % (d, p[4], G.hexs([_unhex_json(p[5])]))])
        va = [x.split(" ")[1] if x.startswith("OK ") else x.split(" ")[0] for x in a]
        if va[0] != va[1]:
            return True, "%s vs %s" % (va[0], va[1])
        return False, ""
    if kind == "C":
        line = "%s %s %s" % (d, hs, G.hexs([]))
        e = run_exec(binary, [line])[0]
        o = run_oracle([line])[0]
        if e.startswith("SCHEMA_ERR") and o.startswith("OK"):
            return True, e
        return False, ""
    if kind == "X":
        e = run_exec(binary, ["%s %s %s" % (d, hs, p[3])])[0]
        if not e.startswith("OK ") and not e.startswith("SCHEMA_ERR"):
            return True, e.split(" ")[0]
        return False, ""
    return False, "unknown signature kind"
