"""C12 — JSONPath queries select exactly the addressed nodes (DESIGN.md §4 C12)."""
from lib import build, runner

PROP = "C12"
ASAN = ["-O1", "-fsanitize=address,undefined", "-fno-sanitize-recover=undefined", "-fno-sanitize=nonnull-attribute"]
FAST = ["-O2"]
ENV = {"ASAN_OPTIONS": "detect_leaks=1:abort_on_error=0:exitcode=77", "UBSAN_OPTIONS": "print_stacktrace=1:halt_on_error=1:exitcode=78"}


def _bins():
    from concurrent.futures import ThreadPoolExecutor
    with ThreadPoolExecutor(max_workers=2) as ex:
        a = ex.submit(build.build, "c12_asan", ["harness/c12.cpp"], ASAN)
        f = ex.submit(build.build, "c12_fast", ["harness/c12.cpp"], FAST)
        return a.result(), f.result()


def prebuild():
    _bins()


def run(tier):
    asan, fast = _bins()
    ck = runner.Check(PROP, tier, "exploration")
    q = tier == "quick"
    n = runner.NCPU * 4
    # docs=S: every tree over keys {a,b}; docs=K: every tree over keys {a,b,"",',",\,e-acute,0}; leaves {1,2,"x",null};
    # docs=H: hand-shaped documents.  level=full adds every one-shot json_query overload under every result option.
    # Stages that tally (no tally=0) partition the explored (expression, document) pairs: documents by size / key set,
    # expression sets by minus=...; tally=0 stages re-run a subset under ASan+UBSan or with level=full.
    if q:
        stages = [
            (asan, ["G", "docs=H"]), (asan, ["G", "docs=K", "n=3"]), (fast, ["G", "docs=S", "n=4"]),
            (asan, ["P", "docs=H", "exprs=one,prefull,mid2,core3s,keys", "level=full"]),
            (asan, ["P", "docs=S", "n=3", "exprs=one,core3s", "level=lite", "tally=0"]),
            (fast, ["P", "docs=S", "n=2", "exprs=one,prefull,mid2,core3s", "level=full"]),
            (fast, ["P", "docs=S", "n=3", "from=3", "exprs=one,prefull,mid2,core3s", "level=lite"]),
            (fast, ["P", "docs=S", "n=4", "from=4", "exprs=one,core3s", "level=lite"]),
            (fast, ["P", "docs=K", "n=2", "exprs=one,keys", "level=full"]),
            (fast, ["P", "docs=K", "n=3", "from=3", "exprs=one,keys", "level=lite"]),
        ]
    else:
        stages = [
            (asan, ["G", "docs=H"]), (asan, ["G", "docs=K", "n=3", "tally=0"]), (fast, ["G", "docs=K", "n=4"]), (fast, ["G", "docs=S", "n=5"]),
            (asan, ["P", "docs=H", "exprs=one,prefull,mid2,core3,keys", "level=full"]),
            (asan, ["P", "docs=S", "n=3", "exprs=one,prefull,mid2,core3s", "level=lite", "tally=0"]),
            (asan, ["P", "docs=K", "n=2", "exprs=one,keys", "level=full", "tally=0"]),
            (fast, ["P", "docs=S", "n=3", "exprs=one,prefull,mid2,core3", "level=full"]),
            (fast, ["P", "docs=S", "n=4", "from=4", "exprs=mid2,prefull", "minus=one,core3", "level=lite"]),
            (fast, ["P", "docs=S", "n=5", "from=4", "exprs=one,core3", "level=lite"]),
            (fast, ["P", "docs=K", "n=3", "exprs=one,keys", "level=full"]),
            (fast, ["P", "docs=K", "n=4", "from=4", "exprs=keys", "level=lite"]),
        ]
    for b, st in stages:
        if ck.time_left() < 60:
            ck.exhaustive = False
            break
        r = runner.run_slices(b, st, nslices=n, env=ENV)
        key = "pairs@" + " ".join(st)
        ck.extra.setdefault("stages", {})[key] = {k: r.sum.get(k, 0) for k in ("pairs", "pairs_rechecked_in_another_build_or_level", "node_paths", "evaluations")}
        ck.add(r)
    rej = sorted(c[len("rejected:"):] for c in ck.res.sets if c.startswith("rejected:"))
    ck.extra["generated_expressions_rejected_by_compiler"] = rej
    ck.rule = ("Expression ASTs: $ followed by <= 3 steps, rendered to text and compiled by jsoncons. Step alphabet (499 steps): "
               "names for keys {a,b,'',',\",\\,e-acute,0} in dot, bracket single/double quoted, dot-quoted and \\u-escaped notation; indices 0,-1,5,1; "
               ".* and [*]; slices with start/stop in {none,0,1,-1,-5,5} and step in {none,1,2,-1,-2}; unions of 2 (and 3) of {name,index,slice,"
               "wildcard,filter}; descendant segments over names, wildcards, indices, slices, unions, filters; filters [?(p op lit)] with "
               "p in {@,@.a,@.k,@[0],@['b']}, op in {==,!=,<,<=,>,>=}, lit in {1,'x',true,null}, reversed operands, &&, ||, ! and parentheses; "
               "non-core steps (existence tests, length, length(), index expression, parent ^ and ^^ as last step). Sets: every 1-step expression; "
               "4 prefixes x every step and every step x 3 suffixes; the complete 2-step product over a 109-step alphabet; the complete 3-step "
               "product over a 12-step (quick) / 24-step (thorough) alphabet. Documents: every tree with <= 4 (quick) / <= 5 (thorough) nodes over "
               "keys {a,b}, every tree with <= 3 / <= 4 nodes over the 8-key alphabet, leaves {1,2,\"x\",null}, 7 hand-shaped documents "
               "(quick: the 2-step product on <= 3-node documents, 1-step and 3-step on <= 4; thorough: 2-step on <= 4, 1-step and 3-step on <= 5). "
               "Per pair: value/path/callback results, nodups/sort/sort_descending, compiled vs one-shot, select_paths, json_replace "
               "(const char*, json rvalue, std::string rvalue, callback), an independent RFC 9535 reference evaluator for core selectors, "
               "document unchanged. Stage G: every node's normalized path through json_location::parse, to_string, jsonpath::get and as a query. "
               "non-trivial = (expression, document) pairs with a non-empty selection, plus node paths of stage G.")
    ck.assumptions = [
        "object member order: where a wildcard, filter or descendant segment iterates an object with >= 2 members the node list is compared as a multiset",
        "a name selector spelling an integer applied to an array ($.a.0) indexes the array in jsoncons (Goessner heritage, present in its own test data): reference abstains",
        "filters: a missing member compares like null in jsoncons and as 'Nothing' in RFC 9535; <= and >= on equal null/boolean operands differ likewise: reference abstains on those pairs",
        "computed results (length of arrays/strings, documented extension) have no node in the document: checked as parent length, excluded from address identity",
        "existence tests, functions, index expressions and the parent operator are checked by the consistency oracles only (not core selectors)",
        "json_replace(root, expr, lvalue) does not compile (T deduced as a reference type fails is_json_traits_specialized): only prvalue/xvalue arguments exist to be tested",
        "sort order demanded: component-wise, indices numerically, names bytewise, a prefix before its extensions; sort_descending (documented result option, used by json_replace) is its reverse",
        "level=lite stages use one compiled expression per expression text for all documents and re-compile (one-shot json_query, json_replace) only where the selection is non-empty; level=full stages exercise every overload under every option",
    ]
    ck.finish(lambda sig: replay(sig))


def replay(sig):
    asan, fast = _bins()
    rc, out, err = runner.run_cmd([asan, "replay", sig], timeout=300, env=ENV)
    r = runner.Result()
    r.feed(out)
    if sig in r.viol:
        return True, r.viol[sig]
    if rc != 0 and not r.viol:
        return True, "sanitizer/abort in replay: " + err[-600:]
    return False, ""
