"""C13 — JMESPath evaluation follows the JMESPath specification (DESIGN.md §4 C13).

Python explorer + reference interpreter (lib/ref_jmespath.py), C++ executor (harness/c13_exec.cpp, ASan+UBSan).
The explorer enumerates expression ASTs family by family, renders each AST to text (so the real compiler is
exercised), evaluates the AST with the reference on every document of the family and compares with what
jsoncons returns for the rendered text.  Signature of a case:  J|<hex expression>|<hex document json>.
"""
import itertools
import json
import multiprocessing
import os
import re
import sys
import time

from lib import build, runner
from lib import ref_jmespath as R

PROP = "C13"
ASAN = ["-O1", "-fsanitize=address,undefined", "-fno-sanitize-recover=undefined", "-fno-sanitize=nonnull-attribute"]
ENV = {"ASAN_OPTIONS": "detect_leaks=1:abort_on_error=0:exitcode=77",
       "UBSAN_OPTIONS": "print_stacktrace=1:halt_on_error=1:exitcode=78"}
NTASKS = runner.NCPU * 6
CHUNK = 12000
VIOL_CAP = 150      # distinct violating cases kept per worker task (all are counted)


def _compliance_dir():
    d = os.path.join(build.REPO, "test/jmespath/input/compliance")
    return d if os.path.isdir(d) else "/repo/test/jmespath/input/compliance"


def _bin():
    return build.build("c13_exec", ["harness/c13_exec.cpp"], ASAN)


def prebuild():
    _bin()


# ---------------------------------------------------------------------------- documents

DOCS = [
    {}, [], None, 1, "x", True,
    {"a": 1, "b": 2},
    {"a": None, "b": False},
    {"a": [1, 2, 3], "b": "x"},
    {"a": {"a": {"a": 1}, "b": [1, 2]}, "b": {"a": 2}},
    {"a": [{"a": 1, "b": 2}, {"a": 3}, {"b": 4}], "b": []},
    [1, 2, 3],
    [[1, 2], [3, [4]], 5],
    [None, 1, None],
    [{"a": 1}, {"a": None}, {"b": 2}, None, {"a": [1]}],
    {"a b": 1, "a": {"a b": [1]}, "b": {"a": "a b"}},
    {"a": "", "b": []},
    {"a": {}, "b": 0},
    [1, "x", True, None, [], {}],
    {"a": [[1, 2], [3]], "b": [[], [[5]]]},
    {"\u00e9": 1, "a": "\u00e9", "a b": "\u00fc"},
    {"a": [{"a": [1, 2]}, {"a": [3]}], "b": {"a": [{"b": 1}]}},
    {"a": 1.0, "b": 1},
    {"a": [3, 1, 2], "b": ["b", "a", "c"]},
    {"a": {"b": 1, "a": 2}, "b": {"x": None}},
    [{"a": 2, "b": "y"}, {"a": 1, "b": "x"}, {"a": 3, "b": "z"}],
    {"a": [0, 1, 2, 3, 4, 5, 6], "b": [0]},
    {"a": "abc", "b": "b"},
    {"a": [True, False], "b": True},
    {"a": -1.5, "b": [1.5, -2]},
    {"a": [{"a": {"a": 1}}, {"a": {"b": 2}}], "b": {"a": [1], "b": [2]}},
    [[], [None], [[]]],
]
ALL_DOCS = list(range(len(DOCS)))
SLICE_DOCS = [1, 11, 13, 23, 26, 2, 4, 27]                   # arrays of length 0/3/7, nulls inside, non-arrays
OPER_DOCS = [0, 3, 6, 7, 8, 16, 17, 22, 27, 28, 29, 9]       # truthy / falsy / numeric / equal-by-value members

# documents for the lexical family (special keys)
LEXDOC = {"\u00e9": 1, "a b": 2, "\"": 3, "a\\b": 4, "": 5, "\n": 6, "\U0001F600": 7, "a": {"\u00e9": [8]}, "_1": 9, "A": 10}

# argument kinds of the function family: first value = primary
KINDS = [
    ("n", [-2, 1.5, 0]),
    ("s", ["abc", "", "\u00e9b"]),
    ("t", [True, False]),
    ("z", [None]),
    ("an", [[3, 1, 2], [], [1.5]]),
    ("as", [["b", "a", "c"], [""]]),
    ("am", [[1, "a", None], [True], [[1], [2]]]),
    ("o", [{"a": 1, "b": 2}, {}, {"b": [1]}, {"a": {"c": 1}}]),
    ("ao", [[{"a": 2, "b": "y"}, {"a": 1, "b": "x"}], [{"a": "x"}, {"a": 1}], [{"a": None}], [{}]]),
]
EXPREFS = [("id", "a"), ("id", "b"), ("cur",)]
FDOC = {}
for _k, _vals in KINDS:
    for _i, _v in enumerate(_vals):
        FDOC["%s%d" % (_k, _i)] = _v
NUMSTRINGS = ["1", "-2", "1.5", "1e2", "abc", "", "0"]
for _i, _v in enumerate(NUMSTRINGS):
    FDOC["ns%d" % _i] = _v

FUNCS = [("abs", 1), ("avg", 1), ("ceil", 1), ("contains", 2), ("ends_with", 2), ("floor", 1), ("join", 2), ("keys", 1),
         ("length", 1), ("map", 2), ("max", 1), ("max_by", 2), ("merge", 2), ("min", 1), ("min_by", 2), ("not_null", 2),
         ("reverse", 1), ("sort", 1), ("sort_by", 2), ("starts_with", 2), ("sum", 1), ("to_array", 1), ("to_string", 1),
         ("to_number", 1), ("type", 1), ("values", 1)]
UNARY = [f for f, k in FUNCS if k == 1]

E = ("elem",)


def ID(n):
    return ("id", n)


def LIT(v):
    return ("lit", v)


# ---------------------------------------------------------------------------- chain builder

def _chain(head, seg, rhs):
    """Apply the postfix tokens `seg` to `head` the way the grammar binds them: everything that follows a
    projection is projected (goes into its right-hand side) up to the next flatten, which closes all open
    projections and applies to their result."""
    cur = head
    i = 0
    while i < len(seg):
        t = seg[i]
        k = t[0]
        if k in ("proj", "vproj", "slice", "filt", "flat"):
            rest = seg[i + 1:]
            j = len(rest)
            for q, u in enumerate(rest):
                if u[0] == "flat":
                    j = q
                    break
            r = _chain(E, rest[:j], True)
            if k == "proj":
                cur = ("proj", cur, r)
            elif k == "vproj":
                cur = ("vproj", cur, r)
            elif k == "flat":
                if rhs:
                    raise R.Unrenderable("flatten inside a right-hand side")
                cur = ("flat", cur, r)
            elif k == "slice":
                cur = ("slice", cur, t[1], r)
            else:
                cur = ("filt", cur, t[1], r)
            i += 1 + j
        elif k == "dot":
            cur = t[1] if (cur == E and not rhs) else ("sub", cur, t[1])
            i += 1
        elif k == "idx":
            cur = ("idx", cur, t[1])
            i += 1
        else:
            raise ValueError(k)
    return cur


def build_chain(head, toks):
    """toks may contain the stop markers ('P',) = parenthesise everything so far, ('|',) = pipe."""
    segs, stops, cur = [], [], []
    for t in toks:
        if t[0] in ("P", "|"):
            segs.append(cur)
            stops.append(t[0])
            cur = []
        else:
            cur.append(t)
    segs.append(cur)
    if head == E and not segs[0]:
        raise R.Unrenderable("empty expression")
    whole = _chain(head, segs[0], False)
    for st, seg in zip(stops, segs[1:]):
        if st == "P":
            whole = _chain(("paren", whole), seg, False)
        else:
            if not seg:
                raise R.Unrenderable("empty pipe rhs")
            whole = ("pipe", whole, _chain(E, seg, False))
    return whole


def ambiguous_vproj(ast):
    """Right-hand sides of projections whose extent the grammar does not fix (reference implementations, driven by
    binding-power tables, cut them off at these points; jsoncons keeps projecting):
      `L.*` followed by `.x.y`, `.x[?..]`, `[0].y`;  `L[?c]` followed by `.x[?d]`;
      anything after a multiselect inside a right-hand side: `L[*].[a, b][0]`, `L[].{a: a}.a`."""
    for n in R.walk(ast):
        k = n[0]
        if k not in ("proj", "vproj", "slice", "filt", "flat"):
            continue
        spine = []
        x = n[3] if k in ("slice", "filt") else n[2]
        while x != E and x[0] in ("sub", "idx", "slice", "proj", "vproj", "filt", "flat"):
            spine.append(x)
            x = x[1]
        if x != E:
            continue
        ops = spine[::-1]
        for op in ops[:-1]:
            if op[0] == "sub" and op[2][0] in ("mlist", "mhash"):
                return True
        if (k == "vproj" and n[1] != E) or k == "filt":
            cut = ("sub", "filt", "vproj") if k == "vproj" else ("filt",)
            if ops and ops[0][0] in ("sub", "idx"):
                for op in ops[1:]:
                    if op[0] in cut:
                        return True
    return False


# ---------------------------------------------------------------------------- families

T_IDS = [("dot", ID("a")), ("dot", ID("b")), ("dot", ("qid", "a b", False))]
T_IDX = [("idx", 0), ("idx", -1), ("idx", 9)]
T_PROJ = [("proj",), ("vproj",), ("flat",)]
T_SLICE = [("slice", (1, None, None)), ("slice", (None, None, -1)), ("slice", (None, 2, None)), ("slice", (-5, 5, 2))]
C_A = ID("a")
C_EQ = ("cmp", "==", ID("a"), LIT(1))
C_GT = ("cmp", ">", ("cur",), LIT(1))
C_NE = ("cmp", "!=", ID("b"), LIT(None))
T_FILT = [("filt", C_A), ("filt", C_EQ), ("filt", C_GT)]
T_MSEL = [("dot", ("mlist", [ID("a"), ID("b")])), ("dot", ("mhash", [("a", ID("a")), ("b", ID("b"))]))]
T_FULL = T_IDS + T_IDX + T_PROJ + T_SLICE + T_FILT + T_MSEL
T_RED6 = [("dot", ID("a")), ("idx", 0), ("proj",), ("vproj",), ("flat",), ("filt", C_A)]
T_RED9 = [("dot", ID("a")), ("dot", ID("b")), ("idx", 0), ("idx", -1), ("proj",), ("vproj",), ("flat",),
          ("slice", (1, None, None)), ("filt", C_A)]
H_FULL = [ID("a"), ID("b"), ("qid", "a b", False), ("cur",), E, LIT([[1, 2], [3]]), LIT({"a": {"b": 1}})]
STOPS = [None, ("P",), ("|",)]


def _seqs(tokens, length):
    """token sequences of exactly `length` postfix tokens with every choice of stop marker in between"""
    for ts in itertools.product(tokens, repeat=length):
        for st in itertools.product(STOPS, repeat=length - 1):
            out = [ts[0]]
            for s, t in zip(st, ts[1:]):
                if s is not None:
                    out.append(s)
                out.append(t)
            yield out


def fam_chains(tier):
    q = tier == "quick"
    for h in H_FULL:
        for L in (1, 2):
            for toks in _seqs(T_FULL, L):
                yield build_chain, (h, toks), ALL_DOCS
    red, heads = (T_RED6, [ID("a"), E]) if q else (T_RED9, [ID("a"), E, ("cur",), ID("b")])
    for h in heads:
        for toks in _seqs(red, 3):
            yield build_chain, (h, toks), ALL_DOCS
    if not q:
        for h in (ID("a"), E):
            for toks in _seqs(T_FULL, 3):
                yield build_chain, (h, toks), ALL_DOCS
        # depth 4 without stop markers on the 6-token set (projection nesting only)
        for h in (ID("a"), E):
            for ts in itertools.product(T_RED6, repeat=4):
                yield build_chain, (h, list(ts)), ALL_DOCS


SL_VALS = [None, 0, 1, -1, -5, 5]
SL_STEPS = [None, 1, 2, -1, -2, 0]


def fam_slices(tier):
    q = tier == "quick"
    for h in (ID("a"), ("cur",), E):
        for a in SL_VALS:
            for b in SL_VALS:
                for c in SL_STEPS:
                    yield build_chain, (h, [("slice", (a, b, c))]), SLICE_DOCS
    if not q:
        follow = [("dot", ID("a")), ("idx", 0), ("proj",), ("flat",), ("slice", (None, None, -1)), ("|",), ("P",)]
        for a in SL_VALS:
            for b in SL_VALS:
                for c in SL_STEPS:
                    for f in follow:
                        toks = [("slice", (a, b, c)), f]
                        if f[0] in ("|", "P"):
                            toks.append(("idx", 0))
                        yield build_chain, (E, toks), [11, 12, 13, 25, 1]


OPS2 = [("pipe",), ("or",), ("and",), ("cmp", "=="), ("cmp", "!="), ("cmp", "<"), ("cmp", "<="), ("cmp", ">"), ("cmp", ">=")]
OPERANDS = [ID("a"), ID("b"), LIT(1), LIT(None), ("raw", "x"), ("cur",), ("sub", ID("a"), ID("b")), ("idx", ID("a"), 0),
            LIT([]), LIT(1.0), LIT(False), LIT("")]


def _binop(op, x, y):
    return (op[0], x, y) if op[0] != "cmp" else ("cmp", op[1], x, y)


def _mk(node):
    return node


def _trees(nleaves):
    """all binary tree shapes with nleaves leaves, as nested tuples of None"""
    if nleaves == 1:
        yield None
        return
    for k in range(1, nleaves):
        for l in _trees(k):
            for r in _trees(nleaves - k):
                yield (l, r)


def _fill(shape, ops, leaves):
    """consume ops/leaves iterators left to right"""
    if shape is None:
        return next(leaves)
    l = _fill(shape[0], ops, leaves)
    op = next(ops)   # operator of this node is taken after its left subtree: in-order
    r = _fill(shape[1], ops, leaves)
    return _binop(op, l, r)


def fam_operators(tier):
    q = tier == "quick"
    for x in OPERANDS:
        yield _mk, (("not", x),), OPER_DOCS
        yield _mk, (("not", ("not", x)),), OPER_DOCS
        for y in OPERANDS:
            for op in OPS2:
                yield _mk, (_binop(op, x, y),), OPER_DOCS
    ops = [("pipe",), ("or",), ("and",), ("cmp", "=="), ("cmp", "<")]
    leaves = [ID("a"), ID("b"), LIT(1), LIT(None)]
    for shape in _trees(3):
        for o in itertools.product(ops, repeat=2):
            for lv in itertools.product(leaves, repeat=3):
                yield _mk, (_fill(shape, iter(o), iter(lv)),), OPER_DOCS
    for op in ops:
        for x, y in itertools.product(leaves, repeat=2):
            yield _mk, (("not", _binop(op, x, y)),), OPER_DOCS
            yield _mk, (_binop(op, ("not", x), y),), OPER_DOCS
            yield _mk, (_binop(op, x, ("not", y)),), OPER_DOCS
            yield _mk, (("paren", _binop(op, x, y)),), OPER_DOCS
    if not q:
        ops4 = [("pipe",), ("or",), ("and",), ("cmp", "==")]
        lv3 = [ID("a"), ID("b"), LIT(1)]
        for shape in _trees(4):
            for o in itertools.product(ops4, repeat=3):
                for lv in itertools.product(lv3, repeat=4):
                    yield _mk, (_fill(shape, iter(o), iter(lv)),), OPER_DOCS
    # operators inside filters, multiselects and function arguments; projections as operands
    projs = [("proj", ID("a"), E), ("proj", ID("a"), ("sub", E, ID("a"))), ("flat", ID("a"), E), ("vproj", E, E)]
    for p in projs:
        for op in OPS2:
            for y in (ID("b"), LIT(1), LIT(None)):
                yield _mk, (_binop(op, p, y),), ALL_DOCS
                yield _mk, (_binop(op, y, p),), ALL_DOCS
    for op in OPS2:
        for x, y in itertools.product([ID("a"), ID("b"), ("cur",), LIT(1)], repeat=2):
            yield _mk, (("filt", E, _binop(op, x, y), E),), ALL_DOCS
            yield _mk, (("filt", ID("a"), _binop(op, x, y), ("sub", E, ID("a"))),), ALL_DOCS
            yield _mk, (("mlist", [_binop(op, x, y), ID("a")]),), OPER_DOCS
            yield _mk, (("fn", "not_null", [_binop(op, x, y), LIT("d")]),), OPER_DOCS
            yield _mk, (("mhash", [("a", _binop(op, x, y)), ("b", ID("b"))]),), OPER_DOCS
            yield _mk, (("fn", "map", [("expref", _binop(op, x, y)), ("mlist", [("cur",), ID("a")])]),), OPER_DOCS


def _argnode(kind, idx, mode):
    if kind == "e":
        return ("expref", EXPREFS[idx])
    v = dict(KINDS)[kind][idx]
    if mode == "field":
        return ID("%s%d" % (kind, idx))
    if mode == "raw" and isinstance(v, str) and "'" not in v and "\\" not in v:
        return ("raw", v)
    return LIT(v)


def fam_functions(tier):
    q = tier == "quick"
    kinds = [k for k, _ in KINDS] + ["e"]
    nvar = dict((k, len(v)) for k, v in KINDS)
    nvar["e"] = len(EXPREFS)
    for name, ar in FUNCS + [("foo", 1)]:
        for m in range(0, min(ar + 1, 3) + 1):
            if m > ar and q:
                tuples = itertools.product(["n", "s", "e"], repeat=m)
            else:
                tuples = itertools.product(kinds, repeat=m)
            for tup in tuples:
                for mode in ("lit", "field"):
                    args = [_argnode(k, 0, mode) for k in tup]
                    yield _mk, (("fn", name, args),), ["F"]
                # every combination of value variants where the primary tuple is well-typed
                if m == 0 or name == "foo":
                    continue
                if m != ar and not (name in ("merge", "not_null") and m == 1):
                    continue
                for combo in itertools.product(*[range(nvar[k]) for k in tup]):
                    for mode in ("raw", "field"):
                        yield _mk, (("fn", name, [_argnode(k, i, mode) for k, i in zip(tup, combo)]),), ["F"]
    for i in range(len(NUMSTRINGS)):
        yield _mk, (("fn", "to_number", [ID("ns%d" % i)]),), ["F"]
        yield _mk, (("fn", "to_number", [LIT(NUMSTRINGS[i])]),), ["F"]
    # three-argument merge / not_null with overriding keys
    objs = [LIT({"a": 1}), LIT({"a": [1]}), LIT({"a": {"b": 1}}), LIT({"b": 2}), LIT({"a": "a long string value, not inlined"}),
            LIT({"a": None}), LIT({})]
    for tup in itertools.product(objs, repeat=2):
        yield _mk, (("fn", "merge", list(tup)),), ["F"]
    if not q:
        for tup in itertools.product(objs, repeat=3):
            yield _mk, (("fn", "merge", list(tup)),), ["F"]
    for tup in itertools.product([LIT(None), ID("nope"), LIT(0), LIT(False), LIT([]), ID("s0")], repeat=3):
        yield _mk, (("fn", "not_null", list(tup)),), ["F"]


FN_HEADS = [("cur",), ID("a"), ID("b"), ("proj", ID("a"), E), ("vproj", ID("a"), E), ("idx", ID("a"), 0),
            ("proj", E, ("sub", E, ID("a"))), ("sub", ID("a"), ID("b"))]
KEYEXPRS = [ID("a"), ID("b"), ("cur",), LIT(1), ("idx", ID("a"), 0), ("fn", "length", [("cur",)]), ("sub", ID("a"), ID("a")),
            ("fn", "to_string", [("cur",)])]


def fam_fnchains(tier):
    q = tier == "quick"
    cur = ("cur",)
    for f in UNARY:
        call = lambda x: ("fn", f, [x])
        for h in FN_HEADS:
            yield _mk, (call(h),), ALL_DOCS
        for h in (ID("a"), ID("b"), cur):
            yield _mk, (("sub", h, call(cur)),), ALL_DOCS
            yield _mk, (("proj", h, ("sub", E, call(cur))),), ALL_DOCS
            yield _mk, (("flat", h, ("sub", E, call(cur))),), ALL_DOCS
            yield _mk, (("pipe", h, call(cur)),), ALL_DOCS
            yield _mk, (("idx", call(h), 0),), ALL_DOCS
            yield _mk, (("proj", call(h), E),), ALL_DOCS
            yield _mk, (("sub", call(h), ID("a")),), ALL_DOCS
            yield _mk, (("flat", call(h), E),), ALL_DOCS
            yield _mk, (("filt", h, call(cur), E),), ALL_DOCS
            yield _mk, (("fn", "map", [("expref", call(cur)), h]),), ALL_DOCS
            yield _mk, (("fn", "sort_by", [h, ("expref", call(cur))]),), ALL_DOCS
        yield _mk, (("vproj", E, ("sub", E, call(cur))),), ALL_DOCS
        for g in UNARY:
            for h in ((cur, ID("a")) if q else (cur, ID("a"), ID("b"), ("proj", ID("a"), E))):
                yield _mk, (call(("fn", g, [h])),), ALL_DOCS
    two = ["contains", "ends_with", "starts_with", "join", "merge", "not_null"]
    hs = [cur, ID("a"), ID("b"), LIT("b"), LIT(1), ("idx", ID("a"), 0), ("raw", "")]
    for f in two:
        for x, y in itertools.product(hs, repeat=2):
            yield _mk, (("fn", f, [x, y]),), ALL_DOCS
    for f in ("sort_by", "max_by", "min_by", "map"):
        for h in (cur, ID("a"), ID("b"), ("vproj", E, E), ("flat", E, E)):
            for kx in KEYEXPRS:
                args = [("expref", kx), h] if f == "map" else [h, ("expref", kx)]
                call = ("fn", f, args)
                yield _mk, (call,), ALL_DOCS
                yield _mk, (("proj", call, ("sub", E, ID("a"))),), ALL_DOCS
                yield _mk, (("idx", call, -1),), ALL_DOCS


def _mk_text(ast, text):
    return ast, text


def fam_mixed(tier):
    """binary operators and comparators over operands that are themselves chains / projections"""
    q = tier == "quick"
    toks = T_RED6 if q else T_RED9
    operands = []
    for h in (ID("a"), E):
        for t in toks:
            try:
                operands.append(build_chain(h, [t]))
            except R.Unrenderable:
                pass
    operands += [ID("a"), ID("b"), LIT(1)]
    for op in OPS2:
        for x in operands:
            for y in operands:
                yield _mk, (_binop(op, x, y),), ALL_DOCS
    for x in operands:
        yield _mk, (("not", x),), ALL_DOCS
        for f in ("length", "type", "to_array", "not_null"):
            yield _mk, (("fn", f, [("or", x, ID("b"))]),), ALL_DOCS
            yield _mk, (("fn", f, [("pipe", x, ("idx", E, 0))]),), ALL_DOCS
    # expression references with composite bodies
    bodies = [("or", ID("a"), ID("b")), ("and", ID("a"), ID("b")), ("pipe", ID("a"), ID("a")), ("sub", ID("a"), ID("b")),
              ("idx", ID("a"), 0), ("mlist", [ID("a")]), ("not", ID("a")), ("cmp", "==", ID("a"), LIT(1)), ("paren", ID("a")),
              ("fn", "not_null", [ID("a"), LIT(0)]), ("fn", "not_null", [ID("b"), LIT("")]), ("proj", ID("a"), E), ("flat", ID("a"), E)]
    for body in bodies:
        for h in (("cur",), ID("a"), ("vproj", E, E)):
            yield _mk, (("fn", "map", [("expref", body), h]),), ALL_DOCS
            for f in ("sort_by", "max_by", "min_by"):
                yield _mk, (("fn", f, [h, ("expref", body)]),), ALL_DOCS


def fam_spacing(tier):
    """the same operator trees written without blanks and with blanks / tabs / newlines around every operator"""
    ops = [("pipe",), ("or",), ("and",), ("cmp", "=="), ("cmp", "<"), ("cmp", ">="), ("cmp", "!=")]
    leaves = [ID("a"), ID("b"), LIT(1)]
    for shape in _trees(3):
        for o in itertools.product(ops, repeat=2):
            for lv in itertools.product(leaves, repeat=3):
                ast = _fill(shape, iter(o), iter(lv))
                text = R.render(ast)
                yield _mk_text, (ast, text.replace(" ", "")), OPER_DOCS[:6]
                yield _mk_text, (ast, " " + text.replace(" ", " \t\n ") + " "), OPER_DOCS[:6]
    # blanks between tokens where every tokenisation agrees (not inside `[?`, `[*]`, `[]`, not between a function name and `(`)
    for ast in (("sub", ID("a"), ID("b")), ("mlist", [ID("a"), ID("b")]), ("mhash", [("a", ID("a")), ("b", ID("b"))]),
                ("fn", "not_null", [ID("a"), ID("b")]), ("fn", "sort_by", [ID("a"), ("expref", ID("a"))]), ("paren", ID("a")),
                ("sub", ID("a"), ("mlist", [ID("a")])), ("pipe", ID("a"), ("mhash", [("a", ("cur",))]))):
        text = R.render(ast)
        for sep in (" ", "  ", "\n", "\t", "\r\n"):
            spaced = ""
            for ch in text:
                if ch in ".,:{}|&":
                    spaced += sep + ch + sep
                elif ch in "([":
                    spaced += ch + sep
                elif ch in ")]":
                    spaced += sep + ch
                else:
                    spaced += ch
            yield _mk_text, (ast, spaced), ALL_DOCS


MS_EXPRS = [ID("a"), ID("b"), ("cur",), LIT(1), ("sub", ID("a"), ID("b")), ("idx", ID("a"), 0), ("proj", ID("a"), E),
            ("or", ID("a"), ID("b"))]


def fam_multiselect(tier):
    ms = []
    for x in MS_EXPRS:
        ms.append(("mlist", [x]))
        ms.append(("mhash", [("a", x)]))
        ms.append(("mhash", [("a b", x)]))
        for y in MS_EXPRS:
            ms.append(("mlist", [x, y]))
            ms.append(("mhash", [("a", x), ("b", y)]))
    for m in ms:
        yield _mk, (m,), ALL_DOCS
        yield _mk, (("sub", ID("a"), m),), ALL_DOCS
        yield _mk, (("proj", ID("a"), ("sub", E, m)),), ALL_DOCS
        yield _mk, (("proj", E, ("sub", E, m)),), ALL_DOCS
        yield _mk, (("idx", m, 0),), ALL_DOCS
        yield _mk, (("sub", m, ID("a")),), ALL_DOCS
        yield _mk, (("flat", m, E),), ALL_DOCS
        yield _mk, (("pipe", m, ("idx", E, 0)),), ALL_DOCS
        yield _mk, (("vproj", m, E),), ALL_DOCS
    if tier != "quick":
        for m in ms:
            yield _mk, (("mlist", [m, ID("a")]),), ALL_DOCS
            yield _mk, (("mhash", [("a", m)]),), ALL_DOCS
            yield _mk, (("vproj", E, ("sub", E, m)),), ALL_DOCS
            yield _mk, (("flat", ID("a"), ("sub", E, m)),), ALL_DOCS
            yield _mk, (("filt", E, ID("a"), ("sub", E, m)),), ALL_DOCS


def fam_lexical(tier):
    keys = list(LEXDOC.keys())
    for k in keys:
        for esc in (False, True):
            yield _mk, (("qid", k, esc),), ["L"]
            yield _mk, (("sub", ID("a"), ("qid", k, esc)),), ["L"]
            yield _mk, (("mhash", [("k", ("qid", k, esc))]),), ["L"]
        yield _mk, (ID(k),), ["L"]
        yield _mk, (("mhash", [(k, LIT(1))]),), ["L"]
        yield _mk, (("cmp", "==", LIT(k), ("raw", k) if ("'" not in k and "\\" not in k) else LIT(k)),), ["L"]
    lits = [1, -1, 0, 1.5, -0.5, 1e2, True, False, None, "", "x", "a`b", "\u00e9", "a\"b", "a\\b", [], {}, [1, [2, {"a": None}]],
            {"a": {"b": [True]}}, {"b": 1, "a": 2}, "\U0001F600", " ", "a b"]
    for v in lits:
        yield _mk, (LIT(v),), ["L"]
        yield _mk, (("fn", "type", [LIT(v)]),), ["L"]
        yield _mk, (("mlist", [LIT(v), LIT(v)]),), ["L"]
        yield _mk, (("cmp", "==", LIT(v), LIT(v)),), ["L"]
        yield _mk, (("fn", "to_string", [LIT(v)]),), ["L"]
    for s in ["", "x", "a b", "it's", "\u00e9", "a\"b", "`", "a`b", "\U0001F600", "[0]", "a.b", "\\", "\\\\", "a\\b", "\\n"]:
        yield _mk, (("raw", s),), ["L"]
        yield _mk, (("fn", "length", [("raw", s)]),), ["L"]
        yield _mk, (("cmp", "==", ("raw", s), LIT(s)),), ["L"]
        yield _mk, (("fn", "reverse", [("raw", s)]),), ["L"]


# expressions outside the grammar: every one must be reported as a syntax error (and must not crash)
SYNTAX_BAD = ["a)", "a))", "(a", "((a)", "a.", ".a", "a..b", "a[", "a]", "a[0", "a[*", "[?a", "a[?]", "{a}", "{a:}", "{:a}", "a,b",
              "a b", "a |", "| a", "a ||", "&& a", "a ==", "== a", "a = b", "a[0:1:2:3]", "a[x]", "`1", "'x", "\"a", "a.`1`", "a.'x'",
              "a.@", "a.(b)", "!", "a !", "@@", "a.b.", "abs(", "abs(a", "abs(a,)", "abs(,a)", "[a,]", "[,a]", "{a:b,}", "a[-]",
              "*.*.", "a[*", "a[]]", "a}", "{a:b", "a & b", "a[?b]]", "a[0]]", "(a))", "a)(", "()", "[]]", "a.[", "a.{", "a.[]",
              "a[1:2", "`{`", "\"\\q\"", "a.1", "1", "a[*]b", "a[0]b", "#", "a#", "a.b c", "[a b]", "{a b}", "{a: b c}"]


def fam_syntax(tier):
    for s in SYNTAX_BAD:
        yield None, (s,), ["N"]


FAMILIES = [("chains", fam_chains), ("slices", fam_slices), ("operators", fam_operators), ("functions", fam_functions),
            ("fnchains", fam_fnchains), ("multiselect", fam_multiselect), ("mixed", fam_mixed), ("spacing", fam_spacing),
            ("lexical", fam_lexical), ("syntax", fam_syntax)]


def _doc(ix):
    if ix == "F":
        return FDOC
    if ix == "L":
        return LEXDOC
    if ix == "N":
        return {"a": 1}
    return DOCS[ix]


_DOCTEXT = {}


def _doctext(ix):
    if ix not in _DOCTEXT:
        t = json.dumps(_doc(ix), ensure_ascii=False)
        _DOCTEXT[ix] = (t, t.encode("utf-8").hex())
    return _DOCTEXT[ix]


def enumerate_cases(tier, only=None):
    """yields (index, family, expression text, ast or None, docs) — every distinct expression text once"""
    seen = set()
    idx = 0
    for fname, gen in FAMILIES:
        if only and fname not in only:
            continue
        for mk, args, docs in gen(tier):
            if mk is None:
                text, ast = args[0], None
            else:
                try:
                    ast = mk(*args)
                    if mk is _mk_text:
                        ast, text = ast
                    else:
                        text = R.render(ast)
                except R.Unrenderable:
                    continue
            if text in seen:
                continue
            seen.add(text)
            yield idx, fname, text, ast, docs
            idx += 1


# ---------------------------------------------------------------------------- judging one case

def parse_out(line):
    """-> (kind, payload, mismatches)   kind in OK/ERR/EXC/HANG"""
    p = line.split("\t")
    mism = [x for x in p if x.startswith("MISMATCH ")]
    p = [x for x in p if not x.startswith("MISMATCH ")]
    if p[0] == "OK":
        return "OK", json.loads(p[1]), mism
    if p[0] == "ERR":
        return "ERR", p[1], mism
    return p[0], "\t".join(p[1:]), mism


def judge(ast, ref, static, line):
    """-> (verdict, detail)  verdict: 'ok' | 'abstain:<why>' | 'viol'"""
    kind, payload, mism = parse_out(line)
    if kind == "EXC":
        return "viol", "exception escaped the error_code overload: %s" % payload
    if kind == "HANG":
        return "viol", "did not terminate within 20 s"
    if mism:
        return "viol", "jsoncons disagrees with itself: search -> %s %s; %s" % (kind, json.dumps(payload, ensure_ascii=False), "; ".join(mism))
    if ref.kind == "abstain":
        return "abstain:" + ref.why, ""
    if ast is not None and ambiguous_vproj(ast):
        return "abstain:extent of a projection's right-hand side not fixed by the grammar (L.*.x.y, L[?c].x[?d], L[*].[a,b][0])", ""
    if kind == "ERR":
        if ref.kind == "error":
            if payload in ref.classes:
                return "ok", ""
            if payload in static:
                return "abstain:which of several errors is reported", ""
            return "viol", "error class %s, specification: %r" % (payload, ref)
        if payload in static:
            return "abstain:statically detectable error in a sub-expression that evaluation does not reach", ""
        return "viol", "error %s, specification: %r" % (payload, ref)
    # jsoncons returned a value
    if ref.kind == "error":
        return "viol", "result %s, specification: %r" % (json.dumps(payload, ensure_ascii=False), ref)
    if R.deep_eq(payload, ref.value):
        return "ok", ""
    if "order" in ref.flags and R.multiset_eq(payload, ref.value):
        return "abstain:order of object members", ""
    if "tie" in ref.flags:
        return "abstain:equal sort keys", ""
    if "tostring_order" in ref.flags:
        return "abstain:member order inside to_string", ""
    if "tostring_number" in ref.flags and R.loose_eq(payload, ref.value):
        return "abstain:text of a number inside to_string", ""
    return "viol", "result %s, specification: %r" % (json.dumps(payload, ensure_ascii=False), ref)


def reference(ast, doc):
    if ast is None:
        return R.Outcome("error", classes=frozenset([R.ERR_SYNTAX])), set()
    return R.evaluate(ast, doc), R.static_errors(ast)


def same_outcome(a, b):
    if a.kind != b.kind:
        return False
    if a.kind == "value":
        return R.deep_eq(a.value, b.value)
    if a.kind == "error":
        return a.classes == b.classes
    return True


_ADDR = re.compile(r"==[0-9]+==|0x[0-9a-f]+|/[^ ()]*/build/[0-9a-f]+/")


def run_exec(binary, lines):
    """Feed `lines` (str) to the executor; returns a list of output lines, one per input line.  A case on which
    the process dies is reported as 'CRASH\t<summary>' and the batch is resumed after it."""
    out = []
    pos = 0
    while pos < len(lines):
        data = ("\n".join(lines[pos:]) + "\n").encode("ascii")
        rc, so, se = runner.run_cmd([binary], timeout=3600, env=ENV, stdin=data)
        got = [l for l in so.split("\n") if l]
        if got and got[-1] == "HANG":
            out.extend(got)
            pos += len(got)
            continue
        out.extend(got)
        pos += len(got)
        if pos >= len(lines) and rc != 0:
            # every case answered but the process did not exit cleanly (e.g. a leak report at exit)
            out.append("EXECUTOR\texit %s: %s" % (rc, se[-600:].replace("\n", " | ")))
        if pos < len(lines):
            summ = [l.strip() for l in se.split("\n") if "SUMMARY" in l or "runtime error" in l]
            # keep the report free of pids, addresses and build paths: the detail must be identical on replay
            text = " | ".join(_ADDR.sub("", x)[:240] for x in summ[:2])
            out.append("CRASH\texit %s %s" % (rc, text))
            pos += 1
    return out


def judge_crash(line):
    if line.startswith("CRASH\t"):
        return "process died: " + line[6:]
    return None


# ---------------------------------------------------------------------------- worker

def worker(job):
    tier, binary, slice_i, nslices, only, deadline = job
    res = runner.Result()
    pend = []     # (sig, text, ast, ref, static, docix)
    lines = []
    nsamples = 0

    def flush():
        if not lines:
            return
        outs = run_exec(binary, lines)
        for o in [o for o in outs if o.startswith("EXECUTOR\t")]:
            res.errors.append("executor did not exit cleanly: " + o[9:])
            outs.remove(o)
        if len(outs) != len(lines):
            res.errors.append("executor returned %d lines for %d cases" % (len(outs), len(lines)))
            del pend[:], lines[:]
            return
        for (sig, text, ast, ref, static, dix), line in zip(pend, outs):
            # one-shot, compiled (evaluated twice), throwing overload, and unless the text is rejected: (e), e | @
            res.sum["evaluations"] = res.sum.get("evaluations", 0) + (3 if line.startswith("ERR\tsyntax") else 6)
            crash = judge_crash(line)
            if crash:
                res.viol.setdefault(sig, "%s on %s :: %s" % (text, _doctext(dix)[0][:160], crash))
                res.nviol_total += 1
                res.sum["violating_pairs"] = res.sum.get("violating_pairs", 0) + 1
                res.sets.add("jsoncons:crash")
                continue
            try:
                verdict, detail = judge(ast, ref, static, line)
            except Exception as ex:
                res.errors.append("cannot judge %r -> %r: %r" % (text, line[:200], ex))
                continue
            res.sets.add("jsoncons:" + line.split("\t")[0] + (":" + line.split("\t")[1] if line.startswith("ERR") else ""))
            if verdict == "viol":
                res.nviol_total += 1
                res.sum["violating_pairs"] = res.sum.get("violating_pairs", 0) + 1
                if len(res.viol) < VIOL_CAP:
                    res.viol.setdefault(sig, "%s on %s :: %s" % (text, _doctext(dix)[0][:160], detail))
            elif verdict.startswith("abstain:"):
                key = "abstain: " + verdict[8:]
                res.sum[key] = res.sum.get(key, 0) + 1
                res.sum["abstentions"] = res.sum.get("abstentions", 0) + 1
        del pend[:], lines[:]

    for idx, fname, text, ast, docs in enumerate_cases(tier, only):
        if idx % nslices != slice_i:
            continue
        if time.time() > deadline:
            res.sum["deadline_hit"] = 1
            break
        res.sum["expressions"] = res.sum.get("expressions", 0) + 1
        res.sum["expressions_" + fname] = res.sum.get("expressions_" + fname, 0) + 1
        # render fidelity: the reference parser must read the rendered text back as the same function
        ast2 = None
        if ast is not None:
            try:
                ast2 = R.parse(text)
            except R.SyntaxErr as ex:
                res.errors.append("rendered expression rejected by the reference parser: %s (%s)" % (text, ex))
                continue
            amb = ambiguous_vproj(ast)
        else:
            try:
                R.parse(text)
                res.errors.append("syntax family: reference parser accepts %r" % text)
                continue
            except R.SyntaxErr:
                pass
        hx = text.encode("utf-8").hex()
        for dix in docs:
            doc = _doc(dix)
            ref, static = reference(ast, doc)
            if ast2 is not None and not amb:
                ref2 = R.evaluate(ast2, doc)
                if not same_outcome(ref, ref2):
                    res.errors.append("render fidelity: %s evaluates to %r, its rendering parses to something evaluating to %r on %s"
                                      % (text, ref, ref2, _doctext(dix)[0]))
                    continue
            dt, dhx = _doctext(dix)
            sig = "J|%s|%s" % (hx, dhx)
            pend.append((sig, text, ast, ref, static, dix))
            lines.append(hx + " " + dhx)
            res.sum["pairs"] = res.sum.get("pairs", 0) + 1
            res.sum["pairs_" + fname] = res.sum.get("pairs_" + fname, 0) + 1
            if ref.kind == "abstain":
                res.sets.add("spec:abstain")
            elif ref.kind == "error":
                res.sum["nontrivial"] = res.sum.get("nontrivial", 0) + 1
                for c in ref.classes:
                    res.sets.add("spec:error:" + c)
            else:
                res.sets.add("spec:value:" + R.jtype(ref.value))
                if ref.value is not None:
                    res.sum["nontrivial"] = res.sum.get("nontrivial", 0) + 1
            if nsamples < 3 and ref.kind == "value" and ref.value not in (None, [], {}) and idx % 7 == 0:
                nsamples += 1
                res.samples.append("%s on %s => %s" % (text, dt, json.dumps(ref.value, ensure_ascii=False)))
        if len(lines) >= CHUNK:
            flush()
    flush()
    return res


# ---------------------------------------------------------------------------- entry points

def selftest_model():
    n, fails, skipped = R.selftest(_compliance_dir())
    errs = []
    if n < 800:
        errs.append("model self-test found only %d compliance cases" % n)
    for f in fails[:10]:
        errs.append("reference interpreter fails compliance case: " + f)
    return n, errs


def run(tier):
    b = _bin()
    ck = runner.Check(PROP, tier, "exploration")
    ncomp, errs = selftest_model()
    ck.res.errors += errs
    ck.extra["model_selftest_compliance_cases"] = ncomp
    only = os.environ.get("C13_ONLY")
    only = set(only.split(",")) if only else None
    if not errs:
        budget = 170 if tier == "quick" else 1700
        deadline = min(ck.deadline, time.time() + float(os.environ.get("C13_BUDGET_S", budget)))
        jobs = [(tier, b, i, NTASKS, only, deadline) for i in range(NTASKS)]
        ctx = multiprocessing.get_context("fork")
        with ctx.Pool(runner.NCPU) as pool:
            for r in pool.imap_unordered(worker, jobs):
                ck.add(r)
        if ck.res.sum.get("deadline_hit"):
            ck.exhaustive = False
    ck.rule = ("ASTs over identifiers {a, b, \"a b\"}, @, literals, raw strings, '.', [n] for n in {0,-1,9}, slices, [*], .*, [], "
               "[?cond], pipe, multiselect list/hash, ||, &&, !, the six comparators, parentheses and the 26 built-in functions, "
               "rendered to text with the minimal parentheses the grammar's precedences require. Families: (chains) 7 heads x every "
               "sequence of <= 2 postfix constructs from a 20-construct set with each choice of nothing/parentheses/pipe between "
               "them, every 3-sequence over 6 constructs (thorough: over all 20 for heads a and bare, over 9 for 4 heads, 4-sequences "
               "over 6); (slices) all 216 [a:b:c], a,b in {none,0,1,-1,-5,5}, c in {none,1,2,-1,-2,0}, on 3 heads (thorough: followed "
               "by one construct); (operators) every unary/binary operator over 12 operands, every 3-leaf (thorough 4-leaf) operator "
               "tree, operators inside filters/multiselects/arguments/exprefs; (functions) every built-in and one unknown function on "
               "every argument tuple of length 0..arity+1 over {number,string,bool,null,number array,string array,mixed array,object,"
               "array of objects,expref} as literals and as field references, every value variant of arity-correct tuples; (fnchains) "
               "functions composed with projections, pipes, filters, exprefs and each other; (multiselect); (mixed) operators over "
               "projection operands, exprefs with composite bodies; (spacing) blanks/tabs/newlines between tokens; (lexical) quoted "
               "identifiers, JSON literals, raw strings; (syntax) %d strings outside the grammar; each over up to %d documents (empty "
               "containers, nulls, mixed arrays, nested projection shapes, non-ASCII and quoted keys). Oracle: an AST interpreter of "
               "the specification (validated on the %d shipped compliance cases; every rendered text is read back by a reference "
               "parser and must denote the same function); one-shot == compiled (evaluated twice) == throwing overload; (e) and "
               "e | @ equal e; document unchanged. non-trivial = (expression, document) pairs whose specified outcome is a non-null "
               "value or an error." % (len(SYNTAX_BAD), len(DOCS), ncomp))
    ck.assumptions = [
        "abstained (counted, not compared): order of results derived from object member order (compared as multisets); which error "
        "is reported when several apply, and statically detectable errors (unknown function, arity, step 0) in sub-expressions that "
        "evaluation does not reach; an expression reference passed to a parameter of type any; contains(string, non-string); "
        "variadic functions called with no argument (the shipped compliance file expects null for not_null()); ties between sort "
        "keys; the text of a number inside to_string (6 vs 6.0); the extent of a projection's right-hand side where the grammar "
        "does not fix it: L.*.x.y, L[?c].x[?d], anything after a multiselect in a right-hand side",
        "the operand of `!` is parenthesised unless it is an atom and a comparator nested in a comparator is always parenthesised, so "
        "the relative precedence of `!` and `.`/`[` and the associativity of comparators are not examined",
        "ordering comparators on non-numbers yield null (specification text); strings are ordered by code point in sort/max/min",
        "numbers are compared by value (1 == 1.0); the executor's result is read back from jsoncons' compact JSON dump",
        "object member order: the reference iterates objects in key order (as jsoncons::json does); only when a comparison fails "
        "is it repeated with arrays as multisets",
        "each pair costs 6 executions of the real code (one-shot, compiled x2, (e), e | @, throwing overload), under ASan+UBSan",
    ]
    ck.finish(lambda sig: replay(sig))


def replay(sig):
    b = _bin()
    p = sig.split("|")
    if len(p) != 3 or p[0] != "J":
        return False, "bad signature"
    text = bytes.fromhex(p[1]).decode("utf-8")
    doctext = bytes.fromhex(p[2]).decode("utf-8")
    doc = json.loads(doctext)
    try:
        ast = R.parse(text)
    except R.SyntaxErr:
        ast = None
    ref, static = reference(ast, doc)
    outs = [o for o in run_exec(b, [p[1] + " " + p[2]]) if not o.startswith("EXECUTOR\t")]
    if len(outs) != 1:
        return False, "executor returned %d lines" % len(outs)
    crash = judge_crash(outs[0])
    if crash:
        return True, "%s on %s :: %s" % (text, doctext, crash)
    verdict, detail = judge(ast, ref, static, outs[0])
    if verdict == "viol":
        return True, "%s on %s :: %s" % (text, doctext, detail)
    return False, verdict
