"""C14 — JSON Pointer operations follow RFC 6901 (DESIGN.md §4 C14)."""
from lib import build, runner

PROP = "C14"
ASAN = ["-O1", "-fsanitize=address,undefined", "-fno-sanitize-recover=undefined", "-fno-sanitize=nonnull-attribute"]
ENV = {"ASAN_OPTIONS": "detect_leaks=1:abort_on_error=0:exitcode=77", "UBSAN_OPTIONS": "print_stacktrace=1:halt_on_error=1:exitcode=78"}


def _bin():
    return build.build("c14_asan", ["harness/c14.cpp"], ASAN)


def prebuild():
    _bin()
