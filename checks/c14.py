"""C14 — JSON Pointer operations follow RFC 6901 (DESIGN.md §4 C14)."""
from lib import build, runner

PROP = "C14"
ASAN = ["-O1", "-fsanitize=address,undefined", "-fno-sanitize-recover=undefined", "-fno-sanitize=nonnull-attribute"]
ENV = {"ASAN_OPTIONS": "detect_leaks=1:abort_on_error=0:exitcode=77", "UBSAN_OPTIONS": "print_stacktrace=1:halt_on_error=1:exitcode=78"}


def _bin():
    return build.build("c14_asan", ["harness/c14.cpp"], ASAN)


def prebuild():
    _bin()


def run(tier):
    b = _bin()
    ck = runner.Check(PROP, tier, "model_checking")
    q = tier == "quick"
    n = runner.NCPU
    if q:
        stages = [
            ["syntax", "L=7"],
            ["edit", "depth=2", "finalq=1"],
            ["edit", "depth=1", "cim=1", "finalq=1"],
            ["flat", "N=5"],
        ]
    else:
        stages = [
            ["syntax", "L=8"],
            ["edit", "depth=3", "finalq=0"],
            ["edit", "depth=2", "cim=1", "finalq=0"],
            ["flat", "N=7"],
        ]
    for st in stages:
        # edit: every slice repeats the cheap shared levels, so more slices than cores does not pay
        ck.add(runner.run_slices(b, st, nslices=n if st[0] == "edit" else n * 4, env=ENV, timeout=7200))
    ck.rule = ("syntax: every string of length <= L over {/ ~ 0 1 a} (quick 7, thorough 8), as a pointer string (parse / constructors accept exactly the "
               "RFC 6901 grammar, to_string(parse(s)) == s, tokens == reference un-escaping, operator/=, append, operator/ and operator<< rebuild s) and as a "
               "raw token (escape, escape_string, escape-into agree with the reference escaping and parse back). edit: breadth-first search over edit histories "
               "from {}, [], {\"a\":[1,2],\"b\":{\"c\":1}}, [[1],{\"a\":1}] on json and ojson; a state is a document (de-duplicated on its canonical text, member "
               "order included for ojson), a transition is one real call of add / add_if_absent / replace / remove with one of 276 pointers (<= 2 tokens over "
               "{a,b,c,0,1,2,-,01,-1,+1,1e0,\"\",a~1b,m~0n,e-acute,18446744073709551616} plus the invalid strings a, /~, /a~2) and a value of {1,{\"x\":1},[1]}; "
               "histories of length <= 2 (quick) / <= 3 (thorough) are executed; in every expanded state (quick: also in the states reached by the last step) every "
               "pointer is looked up with contains/get. A second search uses add/add_if_absent/replace with create_if_missing=true (histories <= 1 quick, <= 2 thorough). "
               "Oracle: RFC 6901 resolution over the model value (index syntax 0|[1-9][0-9]*, '-' only for add at the end, add inserts/shifts, replace needs the "
               "location, add_if_absent never overwrites a member); on any error the document must be unchanged. The shared levels also run the json_pointer-object/"
               "throwing overloads. states = expanded states, transitions = edit calls + lookups in them. flat: every tree with <= N nodes (quick 5, thorough 7) over "
               "member names {a, b/~, \"\"} and leaves {null,1,\"x\",{},[]}: flatten(d) has one member per leaf named by its pointer and unflatten(flatten(d)) == d, "
               "plus three documents with a 12-element array. non-trivial = valid pointer strings + edits the reference accepts + trees with at least one child.")
    ck.assumptions = [
        "add_if_absent with the empty pointer and remove of the whole document are not fixed by RFC 6901 or the documentation: abstained (only 'error => unchanged' is demanded)",
        "successor states are taken only from transitions on which implementation and reference agree; a disagreeing transition is reported and not followed",
        "states first reached by the last step of a history are not expanded; each slice counts them separately (not part of `states`)",
        "member names that are array-index-like (all digits) are outside the flatten/unflatten statement and are not generated; '-' is treated as index-like and not generated either",
        "object member order is not compared (ojson keeps insertion order; RFC 6901 does not speak about order)",
    ]
    ck.finish(lambda sig: replay(sig))


def replay(sig):
    b = _bin()
    rc, out, err = runner.run_cmd([b, "replay", sig], timeout=120, env=ENV)
    r = runner.Result()
    r.feed(out)
    if r.errors or rc != 0:
        return False, "replay error: %s %s" % (r.errors, err[-500:])
    if sig in r.viol:
        return True, r.viol[sig]
    return False, ""
