"""C15 — JSON Patch is RFC 6902-conformant and atomic (DESIGN.md §4 C15)."""
from lib import build, runner

PROP = "C15"
ASAN = ["-O1", "-fsanitize=address,undefined", "-fno-sanitize-recover=undefined", "-fno-sanitize=nonnull-attribute"]
ENV = {"ASAN_OPTIONS": "detect_leaks=1:abort_on_error=0:exitcode=77", "UBSAN_OPTIONS": "print_stacktrace=1:halt_on_error=1:exitcode=78"}


def _bin():
    return build.build("c15_asan", ["harness/c15.cpp"], ASAN)


def prebuild():
    _bin()


def run(tier):
    b = _bin()
    ck = runner.Check(PROP, tier, "model_checking")
    q = tier == "quick"
    n = runner.NCPU * 4
    stages = [["jp", "L=2"], ["jd", "N=4"]] if q else [["jp", "L=3"], ["jd", "N=5"]]
    for st in stages:
        ck.add(runner.run_slices(b, st, nslices=n, env=ENV, timeout=7200))
    ck.rule = ("jp: start documents {}, [], {\"a\":1}, [1,2,3], {\"a\":[1,2],\"b\":{\"c\":1}}, [[1],{\"a\":1}], 1, null on json and ojson; every sequence of <= L "
               "operations (quick 2, thorough 3) in which each successful prefix is extended by every operation of the alphabet of the document it produced: "
               "{add, remove, replace, test} x path and {move, copy} x from x path (a non-existent from with one path only) with paths drawn from every location of the current document, /-, a missing "
               "member of every object, - and size+1 of every array, a child of `from`, an index with a leading zero; values 1 and {\"x\":1}, tests also against the "
               "current value (for ojson also with its members in another order); plus, at every position, 17 malformed operations (failing test, missing path "
               "target, unknown op, op not a string, missing op/path/value/from, path/from not a JSON Pointer, operation not an object), each alone and followed "
               "by an operation that would succeed; plus non-array patch documents. Each sequence is one real apply_patch call on a fresh copy of the start document "
               "(error_code overload; the throwing overload too except on the longest sequences). Oracle: RFC 6902 interpreter over the model value; success => "
               "same document, failure => an error is reported and the target equals its pre-call value (objects compared as maps). states = distinct (document, "
               "remaining patch) pairs, transitions = operations evaluated by the real code. jd: every ordered pair of trees with <= N nodes (quick 4: 544 trees, "
               "thorough 5: 4132) over member names {a, ~/} and leaves {1,2,{},[]}: apply_patch(a, from_diff(a,b)) == b on json and ojson, and the generated patch "
               "turns a into b under the reference interpreter too. non-trivial = sequences with at least one successfully applied operation, and pairs a != b.")
    ck.assumptions = [
        "removing the whole document (remove \"\", move from \"\" to \"\") is not defined by RFC 6902: abstained (only 'error => target unchanged' is demanded)",
        "equality after a failed patch and of results is equality as JSON values: object member order is ignored, also for ojson",
        "a malformed operation anywhere in the patch must make the whole call fail and leave the target unchanged (the property's atomicity), whether or not earlier operations were applied first",
    ]
    ck.finish(lambda sig: replay(sig))


def replay(sig):
    b = _bin()
    rc, out, err = runner.run_cmd([b, "replay", sig], timeout=120, env=ENV)
    r = runner.Result()
    r.feed(out)
    if r.errors or rc != 0:
        return False, "replay error: %s %s" % (r.errors, err[-500:])
    if sig in r.viol:
        return True, r.viol[sig]
    return False, ""
