"""C16 — JSON Merge Patch follows RFC 7386 (DESIGN.md §4 C16)."""
from lib import build, runner

PROP = "C16"
ASAN = ["-O1", "-fsanitize=address,undefined", "-fno-sanitize-recover=undefined", "-fno-sanitize=nonnull-attribute"]
ENV = {"ASAN_OPTIONS": "detect_leaks=1:abort_on_error=0:exitcode=77", "UBSAN_OPTIONS": "print_stacktrace=1:halt_on_error=1:exitcode=78"}


def _bin():
    return build.build("c16_asan", ["harness/c16.cpp"], ASAN)


def prebuild():
    _bin()


def run(tier):
    b = _bin()
    ck = runner.Check(PROP, tier, "exploration")
    q = tier == "quick"
    n = runner.NCPU * 4
    if q:
        stages = [["mp", "NA=4", "NB=4"], ["md", "NA=4", "NB=4"]]
    else:
        stages = [
            ["mp", "NA=5", "NB=5"],
            ["md", "NA=5", "NB=5"],
            # one node further on either side (6 x 6 is 4.5e9 pairs and does not fit): target <= 6 x patch <= 4 and target <= 4 x patch <= 6
            ["mp", "NA=6", "NB=4", "SK=4", "types=1"],
            ["mp", "NA=4", "NB=6", "SK=4", "types=1"],
            ["md", "NA=6", "NB=4", "SK=4", "types=1"],
            ["md", "NA=4", "NB=6", "SK=4", "types=1"],
        ]
    for st in stages:
        ck.add(runner.run_slices(b, st, nslices=n, env=ENV, timeout=3600))
    ck.rule = ("trees = all JSON values with <= N nodes over member names {a,b} and one-node leaves {null, 1, \"x\", {}, []} "
               "(N=4: 825 trees, N=5: 7055, N=6: 66770; engine/tree_enum.hpp). mp: every ordered pair (target, patch), "
               "apply_merge_patch on json and ojson versus the RFC 7386 MergePatch pseudo-code over the model value; the patch argument "
               "must stay unchanged. md: every ordered pair (source, target) whose target has no null object member: "
               "apply_merge_patch(source, from_diff(source, target)) == target. quick: N=4 x 4; thorough: 5 x 5 on json and ojson plus "
               "6 x 4 and 4 x 6 on json. Objects compared as maps. non-trivial = mp: the patch is a non-empty object (the recursion runs); "
               "md: source and target are different objects.")
    ck.assumptions = [
        "the reference model is the RFC 7386 section 2 pseudo-code; it must reproduce the fifteen appendix A examples before anything is compared (else harness error)",
        "md: targets with a null object member anywhere are outside the statement: abstained (counted in md_abstained_target_has_null_member)",
        "member order of ojson results is not compared (RFC 7386 objects are unordered)",
    ]
    ck.finish(lambda sig: replay(sig))


def replay(sig):
    b = _bin()
    rc, out, err = runner.run_cmd([b, "replay", sig], timeout=120, env=ENV)
    r = runner.Result()
    r.feed(out)
    if r.errors or rc != 0:
        return False, "replay error: %s %s" % (r.errors, err[-500:])
    if sig in r.viol:
        return True, r.viol[sig]
    return False, ""
