"""C17 — typed encoding and decoding are inverse and route-independent (DESIGN.md §4 C17)."""
from lib import build, runner

PROP = "C17"
FLAGS = ["-O1", "-fsanitize=address,undefined", "-fno-sanitize-recover=undefined", "-fno-sanitize=nonnull-attribute"]
ENV = {"ASAN_OPTIONS": "detect_leaks=0"}


def _bin():
    return build.build("c17", ["harness/c17_a.cpp", "harness/c17_b.cpp", "harness/c17_c.cpp"], FLAGS)


def prebuild():
    _bin()


def run(tier):
    b = _bin()
    ck = runner.Check(PROP, tier, "exploration")
    ck.add(runner.run_slices(b, ["N=%d" % (4 if tier == "quick" else 5)], nslices=runner.NCPU, env=ENV))
    ck.rule = ("49 C++ types (all fixed-width integers, bool, float, double, string, vector/deque/list/set/array/map/unordered_map "
               "instantiations, pair, tuple, optional, variant, shared_ptr, unique_ptr, chrono durations, bitset<8>/<70>, an enum with "
               "names, classes described with ALL_MEMBER, N_MEMBER (optional members), ALL_CTOR_GETTER, ALL_GETTER_SETTER_NAME, nested "
               "members, POLYMORPHIC base with two derived) x a small exhaustive value domain each (min, -1, 0, 1, max; lengths 0..3; "
               "present/absent; each alternative): decode_F<T>(encode_F(t)) == t for JSON, CBOR, MessagePack, UBJSON and (object-rooted) "
               "BSON, json(t).as<T>() == t, and the streaming encoding denotes the same model value as the encoding of json(t). Mismatch: "
               "for every T and every JSON text of <= 4 (thorough 5) nodes over leaves {null,true,1,-1,1.5,\"x\",\"1\"} and keys {a,b,zz}: "
               "decode_json<T>(text) and json::parse(text).as<T>() both succeed with equal values or both report a json_exception. "
               "non-trivial = (value, format) round trips and texts both routes accept.")
    ck.assumptions = ["deque<int>/set<int> do not compile with encode_cbor in this version (typed-array path builds a span): string element types are used instead",
                      "any exception of the library's json_exception family counts as 'reported as a conversion error'",
                      "CBOR carries an epoch_nano count as tag 1 with a float64 of seconds: chrono::nanoseconds via CBOR are compared up to the rounding of "
                      "that double (1 part in 2^52, at least 1 ns); counts within 1 s of the int64 limits are left out for that route (the float rounds "
                      "beyond the range)"]
    ck.finish(replay)


def replay(sig):
    rc, out, err = runner.run_cmd([_bin(), "replay", sig], timeout=600, env=ENV)
    r = runner.Result()
    r.feed(out)
    if sig in r.viol:
        return True, r.viol[sig]
    return False, ""
