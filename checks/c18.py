"""C18 — CSV and TOON text round-trip tabular and tree data (DESIGN.md §4 C18)."""
from lib import build, runner

PROP = "C18"
FLAGS = ["-O2"]


def _bin():
    return build.build("c18", ["harness/c18.cpp"], FLAGS)


def prebuild():
    _bin()


def run(tier):
    b = _bin()
    ck = runner.Check(PROP, tier, "exploration")
    t = ["tier=" + tier]
    ck.add(runner.run_slices(b, ["csv"] + t, nslices=runner.NCPU * 4))
    # thorough: every slice materialises the whole tree set (~3.6 GB), so only a few run at a time
    ck.add(runner.run_slices(b, ["toon"] + t, nslices=runner.NCPU, jobs=(runner.NCPU if tier == "quick" else 4)))
    ck.rule = ("CSV: tables of 1x1, 1x2, 2x1 (cells: every string of length <= 2 over {a 1 , ; \" ' LF CR space \\ e-acute TAB |}, plus "
               "1, -1.5, true, false, null, -7 where types are inferred) and 2x2 (reduced cell alphabet) x 288 option sets (field delimiter "
               ", ; TAB |; quote char \" '; quote escape = quote or backslash; line delimiter LF / CRLF; quote style all / nonnumeric with "
               "type inference on, minimal with inference off; mapping n_rows / n_objects / m_columns): decode_csv(encode_csv(t,o),o) == t, "
               "and every field containing a delimiter, quote or line break is quoted in the text; for the two header mappings also every pair of "
               "distinct column names over the same string alphabet. TOON: all trees with <= 3 (thorough 4) "
               "nodes over 9 keys (incl. empty, spaces, ':' ',' '[' '-' digits) and 45 leaves (fractions below 1, tiny and huge doubles, number-like, date-like, literal-like and control-"
               "character strings), plus deeper trees over a small alphabet, x indent {2,4} x delimiter {comma,tab,pipe} x length marker: "
               "decode_toon(encode_toon(v)) == v. non-trivial = round trips that held.")
    ck.assumptions = ["a one-column row holding an unquoted empty string is an empty line (inherent CSV ambiguity): abstained under minimal quoting",
                      "quote_style none is skipped (it cannot protect any field), as DESIGN.md says"]
    ck.finish(replay)


def replay(sig):
    rc, out, err = runner.run_cmd([_bin(), "replay", sig], timeout=300)
    r = runner.Result()
    r.feed(out)
    for k in r.viol:
        if k == sig or k.startswith(sig):
            return True, r.viol[k]
    return False, ""
