"""C19 — allocation failure at any point is handled cleanly (DESIGN.md §4 C19)."""
from concurrent.futures import ThreadPoolExecutor
from lib import build, runner

PROP = "C19"
FLAGS = ["-O1", "-fsanitize=address", "-fsanitize-recover=address"]
ENV = {"ASAN_OPTIONS": "halt_on_error=0:detect_leaks=0"}


def _bins():
    with ThreadPoolExecutor(max_workers=2) as ex:
        a = ex.submit(build.build, "c19_core", ["harness/c19_core.cpp"], FLAGS)
        b = ex.submit(build.build, "c19_ext", ["harness/c19_ext.cpp"], FLAGS)
        return a.result(), b.result()


def prebuild():
    _bins()


def run(tier):
    core, ext = _bins()
    ck = runner.Check(PROP, tier, "fault_enumeration")
    n = runner.NCPU
    ck.add(runner.run_slices(core, [], nslices=n, env=ENV, timeout=3000))
    ck.add(runner.run_slices(ext, [], nslices=n, env=ENV, timeout=3000))
    ck.rule = ("for each of ~75 scenarios (json/ojson parse of 4 documents from string, istream, iterators, cursor; typed decode; "
               "decode_cbor/msgpack/ubjson/bson/csv incl. stringref and typed arrays; encoders; dump/dump_pretty/operator<<; copy "
               "construction; copy assignment of 3 documents over 5 kinds of existing value; push_back/insert/emplace_back with "
               "reallocation; insert_or_assign/try_emplace/operator[]/merge/merge_or_update on sorted and ordered objects; "
               "reserve/resize; a std::pmr scenario with two tracking resources; apply_patch (success, failing test, missing path), "
               "from_diff, apply_merge_patch, jsonpointer add/replace/remove/flatten, 4 JSONPath queries, json_replace, 4 JMESPath "
               "searches, make_json_schema+is_valid+validate): after a warm-up, the allocations made inside the operation are counted "
               "(A) and the operation is re-run A times with the n-th allocation throwing std::bad_alloc, n = 1..A. Oracle per run: "
               "bad_alloc (and nothing else) reaches the caller, no terminate/crash (each scenario runs in a forked child that publishes "
               "n in shared memory), survivors are internally consistent and serialisable, apply_patch leaves the target unchanged, "
               "live allocation count returns to its pre-operation value after destroying everything, every block is released with the "
               "size it was requested with and to the resource it came from, no ASan report. non-trivial = runs in which the injected "
               "failure actually fired.")
    ck.assumptions = ["single-fault model, as the statement says; the destruction of the operation's result happens after the window with injection off",
                      "allocations made by libstdc++ internals through malloc directly (not operator new) are not injected"]
    ck.finish(replay)


def replay(sig):
    core, ext = _bins()
    for b in (core, ext):
        rc, out, err = runner.run_cmd([b, "replay", sig], timeout=600, env=ENV)
        r = runner.Result()
        r.feed(out)
        if sig in r.viol:
            return True, r.viol[sig]
    return False, ""
