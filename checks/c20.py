"""C20 — immutable artifacts are safe to share across threads (DESIGN.md §4 C20)."""
import re, subprocess
from concurrent.futures import ThreadPoolExecutor
from lib import build, runner

PROP = "C20"
FREE_TIMEOUT = 400


def _bins():
    with ThreadPoolExecutor(max_workers=2) as ex:
        # the harness is instrumented by -fsanitize=thread; the runtime it is linked against is ours, not libtsan
        a = ex.submit(build.build, "c20", ["harness/c20.cpp", "engine/sched/vfsched.cpp"], ["-O1", "-g1", "-fsanitize=thread"],
                      None, ["-no-pie", "-pthread"], True, {"engine/sched/vfsched.cpp": ["-O2"]}, ("engine/sched/vfsched.cpp",))
        # free-running cross-check under the real ThreadSanitizer
        b = ex.submit(build.build, "c20_free", ["harness/c20_free.cpp"], ["-O1", "-g1", "-fsanitize=thread"])
        return a.result(), b.result()


def prebuild():
    _bins()


def _symbolize(binary, detail):
    m = re.search(r"pcs (0x[0-9a-f]+) / (0x[0-9a-f]+)", detail)
    if not m:
        return detail
    try:
        out = subprocess.run(["addr2line", "-f", "-C", "-s", "-e", binary, m.group(1), m.group(2)], capture_output=True, text=True, timeout=60).stdout.split("\n")
        locs = []
        for i in range(0, len(out) - 1, 2):
            fn = re.sub(r"<.*", "", out[i])[:80]
            locs.append("%s at %s" % (fn, out[i + 1]))
        return detail + " :: " + " <-> ".join(locs)
    except Exception:
        return detail


def run(tier):
    sched, free = _bins()
    ck = runner.Check(PROP, tier, "model_checking")
    n = runner.NCPU
    if tier == "quick":
        stages = [["explore", "T=2", "k=2"]]
    else:
        stages = [["explore", "T=2", "k=3"], ["explore", "T=3", "k=2"]]
    for st in stages:
        ck.add(runner.run_slices(sched, st, nslices=n, timeout=6000))
    # supporting evidence: free-running threads under real TSan (a report makes the process exit 66)
    rc, out, err = runner.run_cmd([free, "rounds=%d" % (2 if tier == "quick" else 10), "0", "1"], timeout=FREE_TIMEOUT,
                                  env={"TSAN_OPTIONS": "exitcode=66:halt_on_error=0:report_signal_unsafe=0"})
    r = runner.Result()
    r.feed(out)
    if rc == 66 or "WARNING: ThreadSanitizer" in err:
        first = [l for l in err.splitlines() if "WARNING: ThreadSanitizer" in l or l.strip().startswith("#0") or l.strip().startswith("#1")][:5]
        r.viol["FREE|tsan-report"] = "free-running ThreadSanitizer pass reported: " + " | ".join(x.strip() for x in first)
    elif rc == -999 or rc < 0:
        # real threads stepping on shared state may also hang or crash: an observation about the code, not a harness error
        r.viol["FREE|hang-or-crash"] = "free-running pass " + ("did not terminate within %d s" % FREE_TIMEOUT if rc == -999 else "died with signal %d" % -rc)
    elif rc != 0:
        r.errors.append("free-running pass exited %s: %s" % (rc, err[-500:]))
    ck.add(r)
    # the free-running pass is supporting evidence and not deterministic: when the systematic exploration has reported
    # the defect, its schedules are the replayable artefacts and the free-running reports are dropped
    if any(k.startswith("SCH|") for k in ck.res.viol):
        for k in [k for k in ck.res.viol if k.startswith("FREE|")]:
            del ck.res.viol[k]
            ck.res.sum["free_running_reports_dropped"] = ck.res.sum.get("free_running_reports_dropped", 0) + 1
    for sig in list(ck.res.viol):
        ck.res.viol[sig] = _symbolize(sched, ck.res.viol[sig])
    ck.rule = ("T threads (quick 2; thorough 2 and 3) each perform a read-only operation on artifacts built single-threaded beforehand: "
               "compiled json_schemas (2020-12 and draft-07, together using every assertion keyword incl. contentMediaType/contentEncoding, "
               "all string formats, $dynamicRef, unevaluated*), jsonpath_expressions (filter, every function, regex, tokenize with patterns "
               "taken from the document), jmespath_expressions (projection, sort_by, multiselect, every built-in function), a json/ojson "
               "document (lookup, iteration, compare, copy, dump on every double-formatting path and option set, CBOR encode, pointer get), "
               "one-shot queries, and mixed pairings; all threads use the same artifact and "
               "document. Every schedule with <= k preemptions (quick k=2; thorough k=3 for T=2, k=2 for T=3), switching at the "
               "synchronisation operations the code performs (TSan-ABI atomics, static-local guards, thread start/exit), is executed in its "
               "own forked process (static-local initialisation is fresh in every execution). Oracle per execution: each thread's "
               "observation equals the sequential one; no deadlock; vector-clock happens-before race detection over every instrumented "
               "plain access to memory that existed before the threads started (heap blocks live at that point, static storage). "
               "states/transitions = executions (schedules); non-trivial = distinct interleavings of the synchronisation trace.")
    ck.assumptions = [
        "the scheduler is sequentially consistent: weaker memory orderings are only exercised by the free-running real-TSan pass (supporting evidence)",
        "code inside libstdc++.so / libc is not instrumented (locale facets, iostream internals); header-inline code (regex, shared_ptr, vector, string) is",
        "writes to a thread's own stack and to blocks it allocated during the phase are private until published; publishing needs a judged write",
    ]
    ck.finish(replay)


def replay(sig):
    sched, free = _bins()
    if sig.startswith("FREE|"):
        # real threads: a report may need several attempts to show again
        for attempt in range(8):
            rc, out, err = runner.run_cmd([free, "rounds=5", "0", "1"], timeout=FREE_TIMEOUT, env={"TSAN_OPTIONS": "exitcode=66:halt_on_error=0"})
            r = runner.Result()
            r.feed(out)
            if rc == 66 or rc < 0 or "WARNING: ThreadSanitizer" in err or any(k.startswith("FREE|") for k in r.viol):
                return True, "free-running pass reports again"
        return False, "free-running pass reports again"
    rc, out, err = runner.run_cmd([sched, "replay", sig], timeout=600)
    r = runner.Result()
    r.feed(out)
    for k in r.viol:
        if k.startswith(sig):
            return True, re.sub(r"pcs 0x[0-9a-f]+ / 0x[0-9a-f]+", "pcs", r.viol[k])
    return False, ""
