"""C20 — immutable artifacts are safe to share across threads (DESIGN.md §4 C20)."""
import re, subprocess
from concurrent.futures import ThreadPoolExecutor
from lib import build, runner

PROP = "C20"


def _bins():
    with ThreadPoolExecutor(max_workers=2) as ex:
        # the harness is instrumented by -fsanitize=thread; the runtime it is linked against is ours, not libtsan
        a = ex.submit(build.build, "c20", ["harness/c20.cpp", "engine/sched/vfsched.cpp"], ["-O1", "-g1", "-fsanitize=thread"],
                      None, ["-no-pie", "-pthread"], True, {"engine/sched/vfsched.cpp": ["-O2"]}, ("engine/sched/vfsched.cpp",))
        # free-running cross-check under the real ThreadSanitizer
        b = ex.submit(build.build, "c20_free", ["harness/c20_free.cpp"], ["-O1", "-g1", "-fsanitize=thread"])
        return a.result(), b.result()


def prebuild():
    _bins()


def _symbolize(binary, detail):
    m = re.search(r"pcs (0x[0-9a-f]+) / (0x[0-9a-f]+)", detail)
    if not m:
        return detail
    try:
        out = subprocess.run(["addr2line", "-f", "-C", "-s", "-e", binary, m.group(1), m.group(2)], capture_output=True, text=True, timeout=60).stdout.split("\n")
        locs = []
        for i in range(0, len(out) - 1, 2):
            fn = re.sub(r"<.*", "", out[i])[:80]
            locs.append("%s at %s" % (fn, out[i + 1]))
        return detail + " :: " + " <-> ".join(locs)
    except Exception:
        return detail


def run(tier):
    sched, free = _bins()
    ck = runner.Check(PROP, tier, "model_checking")
    n = runner.NCPU
    if tier == "quick":
        stages = [["explore", "T=2", "k=2"]]
    else:
        stages = [["explore", "T=2", "k=3"], ["explore", "T=3", "k=2"]]
    for st in stages:
        ck.add(runner.run_slices(sched, st, nslices=n, timeout=6000))
    # supporting evidence: free-running threads under real TSan (a report makes the process exit 66)
    rc, out, err = runner.run_cmd([free, "rounds=%d" % (2 if tier == "quick" else 10), "0", "1"], timeout=1800,
                                  env={"TSAN_OPTIONS": "exitcode=66:halt_on_error=0:report_signal_unsafe=0"})
    r = runner.Result()
    r.feed(out)
    if rc == 66 or "WARNING: ThreadSanitizer" in err:
        first = [l for l in err.splitlines() if "WARNING: ThreadSanitizer" in l or l.strip().startswith("#0") or l.strip().startswith("#1")][:5]
        r.viol["FREE|tsan-report"] = "free-running ThreadSanitizer pass reported: " + " | ".join(x.strip() for x in first)
    elif rc != 0:
        r.errors.append("free-running pass exited %s: %s" % (rc, err[-500:]))
    ck.add(r)
    for sig in list(ck.res.viol):
        ck.res.viol[sig] = _symbolize(sched, ck.res.viol[sig])
    ck.rule = ("T threads (quick 2; thorough 2 and 3) each perform a read-only operation on artifacts built single-threaded beforehand: "
               "a compiled json_schema (pattern, $ref, unevaluatedProperties, draft-07 if/then/else), a jsonpath_expression (filter, "
               "functions, regex), a jmespath_expression (projection, sort_by, multiselect), a json/ojson document (lookup, iteration, "
               "compare, copy, dump, CBOR encode, pointer get), one-shot queries, and mixed pairings; all threads use the same artifact and "
               "document. Every schedule with <= k preemptions (quick k=2; thorough k=3 for T=2, k=2 for T=3), switching at the "
               "synchronisation operations the code performs (TSan-ABI atomics, static-local guards, thread start/exit), is executed in its "
               "own forked process (static-local initialisation is fresh in every execution). Oracle per execution: each thread's "
               "observation equals the sequential one; no deadlock; vector-clock happens-before race detection over every instrumented "
               "plain access to memory that existed before the threads started (heap blocks live at that point, static storage). "
               "states/transitions = executions (schedules); non-trivial = distinct interleavings of the synchronisation trace.")
    ck.assumptions = [
        "the scheduler is sequentially consistent: weaker memory orderings are only exercised by the free-running real-TSan pass (supporting evidence)",
        "code inside libstdc++.so / libc is not instrumented (locale facets, iostream internals); header-inline code (regex, shared_ptr, vector, string) is",
        "writes to a thread's own stack and to blocks it allocated during the phase are private until published; publishing needs a judged write",
    ]
    ck.finish(replay)


def replay(sig):
    sched, free = _bins()
    if sig.startswith("FREE|"):
        rc, out, err = runner.run_cmd([free, "rounds=5", "0", "1"], timeout=1800, env={"TSAN_OPTIONS": "exitcode=66:halt_on_error=0"})
        return (rc == 66 or "WARNING: ThreadSanitizer" in err), "free-running TSan report"
    rc, out, err = runner.run_cmd([sched, "replay", sig], timeout=600)
    r = runner.Result()
    r.feed(out)
    for k in r.viol:
        if k.startswith(sig):
            return True, re.sub(r"pcs 0x[0-9a-f]+ / 0x[0-9a-f]+", "pcs", r.viol[k])
    return False, ""
