// Single-fault allocation-failure injection (C19).
// A replaced global operator new counts allocations inside an armed window and makes the n-th one throw
// std::bad_alloc.  Live allocations are tracked (count and bytes) so leaks show as an imbalance.
// Each scenario runs in a forked child that publishes its progress in shared memory, so that
// std::terminate / a crash at injection point n is reported as a violation for that n and the
// enumeration continues with n+1.
#pragma once
#include "common.hpp"
#include <new>
#include <sys/mman.h>
#include <sys/wait.h>
#include <functional>
#include <memory_resource>

namespace vf {
struct AllocState {
    long long live_count = 0, live_bytes = 0;
    bool armed = false; long long window_count = 0; long long fail_at = -1; bool fired = false;
    long long size_mismatch = 0;
};
inline AllocState& ast() { static AllocState s; return s; }
inline void* af_alloc(size_t n) {
    AllocState& s = ast();
    if (s.armed) { ++s.window_count; if (s.window_count == s.fail_at) { s.fired = true; throw std::bad_alloc(); } }
    size_t* p = (size_t*)malloc(n + 16); if (!p) throw std::bad_alloc();
    p[0] = n; p[1] = 0x5AFEC0DE; ++s.live_count; s.live_bytes += (long long)n;
    return (char*)p + 16;
}
inline void af_free(void* q, size_t sized = (size_t)-1) {
    if (!q) return;
    size_t* p = (size_t*)((char*)q - 16);
    AllocState& s = ast();
    if (p[1] != 0x5AFEC0DE) { ++s.size_mismatch; return; }
    if (sized != (size_t)-1 && sized != p[0]) ++s.size_mismatch;
    --s.live_count; s.live_bytes -= (long long)p[0]; p[1] = 0;
    free(p);
}
struct Arm {   // RAII window
    Arm(long long fail_at) { AllocState& s = ast(); s.window_count = 0; s.fail_at = fail_at; s.fired = false; s.armed = true; }
    ~Arm() { ast().armed = false; }
};
inline void disarm() { ast().armed = false; }

// tracking memory resource: every block must come back to the resource it came from, with the size and alignment requested
struct TrackingResource : std::pmr::memory_resource {
    struct Rec { size_t bytes, align; };
    std::map<void*, Rec> live; long long errors = 0; int id;
    explicit TrackingResource(int id_) : id(id_) {}
    void* do_allocate(size_t bytes, size_t align) override {
        void* p = af_alloc(bytes + align); // may throw through the injection window
        void* q = (void*)(((uintptr_t)p + align - 1) / align * align);
        bool was = ast().armed; ast().armed = false;   // bookkeeping is not part of the operation
        live[q] = Rec{bytes, align}; origin[q] = p;
        ast().armed = was;
        return q;
    }
    void do_deallocate(void* q, size_t bytes, size_t align) override {
        bool was = ast().armed; ast().armed = false;
        auto it = live.find(q);
        if (it == live.end()) { ++errors; ast().armed = was; return; }
        if (it->second.bytes != bytes || it->second.align != align) ++errors;
        void* p = origin[q]; live.erase(it); origin.erase(q);
        ast().armed = was;
        af_free(p);
    }
    bool do_is_equal(const std::pmr::memory_resource& o) const noexcept override { return this == &o; }
    std::map<void*, void*> origin;
};
} // namespace vf

#define VF_DEFINE_OPERATOR_NEW \
    void* operator new(size_t n) { return vf::af_alloc(n); } \
    void* operator new[](size_t n) { return vf::af_alloc(n); } \
    void* operator new(size_t n, const std::nothrow_t&) noexcept { try { return vf::af_alloc(n); } catch (...) { return nullptr; } } \
    void* operator new[](size_t n, const std::nothrow_t&) noexcept { try { return vf::af_alloc(n); } catch (...) { return nullptr; } } \
    void operator delete(void* p) noexcept { vf::af_free(p); } \
    void operator delete[](void* p) noexcept { vf::af_free(p); } \
    void operator delete(void* p, size_t n) noexcept { vf::af_free(p, n); } \
    void operator delete[](void* p, size_t n) noexcept { vf::af_free(p, n); }

namespace vf {

// One scenario instance: make() builds the state (injection off), run() is the operation under test (window),
// check() probes the survivors after a bad_alloc or success (injection off) and returns "" or a complaint.
struct Scenario {
    std::string name;
    std::function<void*()> make;                    // returns an opaque context
    std::function<void(void*)> run;
    std::function<std::string(void*, bool threw)> check;
    std::function<void(void*)> destroy;
};

struct Progress { volatile long long n; volatile long long total; volatile long long done; volatile long long evals; volatile long long fired; };

// runs every injection point n = 1..A of the scenario; violations are printed by the child (V lines) or synthesised by the parent on a crash
inline void run_scenario(const Scenario& sc, const std::string& sigprefix, long long only_n = -1) {
    Progress* pg = (Progress*)mmap(nullptr, sizeof(Progress), PROT_READ | PROT_WRITE, MAP_SHARED | MAP_ANONYMOUS, -1, 0);
    pg->n = 0; pg->total = -1; pg->done = 0; pg->evals = 0; pg->fired = 0;
    long long start = only_n > 0 ? only_n : 1;
    for (;;) {
        fflush(stdout);
        pid_t pid = fork();
        if (pid == 0) {
            san().init();
            out().sum.clear(); out().mx.clear(); out().classes.clear(); out().nviol = 0;   // the child reports only its own findings
            // warm-up (one-time static initialisation must not be counted), then count the window
            { void* c = sc.make(); try { sc.run(c); } catch (...) {} sc.destroy(c); }
            long long A;
            { void* c = sc.make(); { Arm a(-1); try { sc.run(c); } catch (...) {} } A = ast().window_count; sc.destroy(c); }
            pg->total = A;
            long long last = only_n > 0 ? std::min(only_n, A) : A;
            for (long long n = start; n <= last; ++n) {
                pg->n = n;
                long long live0 = ast().live_count; long long mism0 = ast().size_mismatch;
                void* c = sc.make();
                bool threw = false; std::string complaint;
                {
                    Arm a(n);
                    try { sc.run(c); }
                    catch (const std::bad_alloc&) { threw = true; }
                    catch (const std::exception& e) { disarm(); complaint = std::string("a different exception escaped: ") + e.what(); }
                    catch (...) { disarm(); complaint = "a non-standard exception escaped"; }
                }
                disarm();
                bool fired = ast().fired;
                if (fired) ++pg->fired;
                if (complaint.empty() && fired && !threw) { /* the operation swallowed the failure: allowed only if it completed with a valid result */ }
                if (complaint.empty()) complaint = sc.check(c, threw);
                sc.destroy(c);
                if (complaint.empty() && ast().live_count != live0) complaint = "leak: " + std::to_string(ast().live_count - live0) + " allocation(s) still live after destroying every object involved";
                if (complaint.empty() && ast().size_mismatch != mism0) complaint = "a block was returned with a different size than it was requested with (or to the wrong deallocation function)";
                std::string santext; if (san().dirty(santext) && complaint.empty()) complaint = "sanitizer report: " + santext;
                ++pg->evals;
                if (!complaint.empty()) { out().viol(sigprefix + "|" + std::to_string(n), sc.name + ", allocation #" + std::to_string(n) + " of " + std::to_string(A) + " fails :: " + complaint); ast().live_count = live0; }
            }
            pg->done = 1;
            out().flush();   // counters of this child (violations)
            _exit(0);
        }
        int st = 0; waitpid(pid, &st, 0);
        if (pg->done) break;
        // the child died at injection point pg->n
        long long n = pg->n;
        std::string how = WIFSIGNALED(st) ? (WTERMSIG(st) == SIGABRT ? "std::terminate/abort" : "signal " + std::to_string(WTERMSIG(st))) : "exit " + std::to_string(WEXITSTATUS(st));
        if (n == 0) { out().error(sc.name + ": scenario died without injection (" + how + ")"); break; }
        out().viol(sigprefix + "|" + std::to_string(n), sc.name + ", allocation #" + std::to_string(n) + " of " + std::to_string(pg->total) + " fails :: the process dies (" + how + ") instead of propagating std::bad_alloc");
        ++pg->evals;
        if (only_n > 0) break;
        start = n + 1;
        if (pg->total >= 0 && start > pg->total) break;
    }
    out().count("evaluations", pg->evals);
    out().count("nontrivial", pg->fired);
    out().count("injection_points", pg->total > 0 ? pg->total : 0);
    out().gauge("max_window_allocations", pg->total);
    munmap(pg, sizeof(Progress));
}
} // namespace vf
