// Shared helpers for all harnesses: line protocol, hex, slicing, counters.
#pragma once
#include <cstdint>
#include <cstdio>
#include <cstdlib>
#include <cstring>
#include <string>
#include <vector>
#include <set>
#include <map>
#include <functional>
#include <csignal>
#include <unistd.h>

namespace vf {

inline std::string hex(const std::string& s) {
    static const char* d = "0123456789abcdef";
    std::string o;
    o.reserve(s.size() * 2);
    for (unsigned char c : s) { o.push_back(d[c >> 4]); o.push_back(d[c & 15]); }
    return o;
}
inline std::string hex(const std::vector<uint8_t>& s) { return hex(std::string(s.begin(), s.end())); }
inline int hexval(char c) { return c <= '9' ? c - '0' : (c | 32) - 'a' + 10; }
inline std::string unhex(const std::string& h) {
    std::string o;
    for (size_t i = 0; i + 1 < h.size(); i += 2) o.push_back(char(hexval(h[i]) * 16 + hexval(h[i + 1])));
    return o;
}
// printable rendering for details (never contains tab/newline)
inline std::string show(const std::string& s) {
    std::string o;
    for (unsigned char c : s) {
        if (c == '\\') o += "\\\\";
        else if (c >= 0x20 && c < 0x7f) o.push_back(char(c));
        else { char b[8]; snprintf(b, sizeof b, "\\x%02x", c); o += b; }
    }
    return o;
}

struct Out {
    std::map<std::string, long long> sum;
    std::map<std::string, long long> mx;
    std::set<std::string> classes;
    long long nviol = 0;
    long long viol_cap = 200;
    long long nsamples = 0;
    void viol(const std::string& sig, const std::string& detail) {
        ++nviol;
        if (nviol <= viol_cap) { printf("V\t%s\t%s\n", sig.c_str(), show(detail).c_str()); fflush(stdout); }
    }
    void count(const std::string& k, long long n = 1) { sum[k] += n; }
    void gauge(const std::string& k, long long v) { if (v > mx[k]) mx[k] = v; }
    void cls(const std::string& k) { classes.insert(k); }
    void sample(const std::string& s) { if (nsamples++ < 6) printf("X\t%s\n", show(s).c_str()); }
    void error(const std::string& s) { printf("E\t%s\n", show(s).c_str()); fflush(stdout); }
    void flush() {
        for (auto& kv : sum) printf("S\t%s\t%lld\n", kv.first.c_str(), kv.second);
        for (auto& kv : mx) printf("M\t%s\t%lld\n", kv.first.c_str(), kv.second);
        for (auto& k : classes) printf("N\t%s\n", k.c_str());
        if (nviol > viol_cap) printf("S\tviolations_suppressed\t%lld\n", nviol - viol_cap);
        fflush(stdout);
    }
};

inline Out& out() { static Out o; return o; }

// Standard argv layout:  <mode...> <slice> <nslices>   or   replay <sig>
struct Args {
    std::vector<std::string> a;
    int slice = 0, nslices = 1;
    bool replay = false;
    std::string sig;
    Args(int argc, char** argv) {
        for (int i = 1; i < argc; ++i) a.push_back(argv[i]);
        if (!a.empty() && a[0] == "replay") { replay = true; sig = a.size() > 1 ? a[1] : ""; }
        else if (a.size() >= 2) { nslices = atoi(a.back().c_str()); slice = atoi(a[a.size() - 2].c_str()); a.resize(a.size() - 2); }
    }
    bool has(const std::string& s) const { for (auto& x : a) if (x == s) return true; return false; }
    std::string get(const std::string& key, const std::string& dflt) const {
        for (auto& x : a) if (x.compare(0, key.size() + 1, key + "=") == 0) return x.substr(key.size() + 1);
        return dflt;
    }
    long long geti(const std::string& key, long long dflt) const { return atoll(get(key, std::to_string(dflt)).c_str()); }
};

// Per-case watchdog: if a case runs longer than `seconds`, report it as a violation (a hang) and end this slice.
// The slice's remaining cases are not explored in this run; the run exits with the violation recorded.
struct Watchdog {
    static char* buf() { static char b[8192]; return b; }
    static void on_alarm(int) {
        const char* b = buf();
        size_t n = strlen(b);
        ssize_t r = write(1, b, n); (void)r;
        _exit(0);
    }
    static void arm(const std::string& sig, const std::string& detail, unsigned seconds) {
        static bool installed = false;
        if (!installed) { signal(SIGALRM, on_alarm); installed = true; }
        fflush(stdout);
        std::string line = "V\t" + sig + "\t" + show(detail) + " :: did not terminate within " + std::to_string(seconds) + " s\nS\thangs\t1\n";
        if (line.size() >= 8192) line = "V\t" + sig.substr(0, 4000) + "\thang\n";
        memcpy(buf(), line.c_str(), line.size() + 1);
        alarm(seconds);
    }
    static void disarm() { alarm(0); }
};

// Sanitizer reports as an oracle: redirect ASan/UBSan report output to a memfd and ask after each case whether
// anything was written.  Build with -fsanitize-recover=address,undefined (and run with ASAN_OPTIONS=halt_on_error=0)
// so that a report does not end the process.  UBSan reports each source location once per process, so the first
// case reaching a defect is the one reported; a replay in a fresh process reproduces it.
#if defined(__SANITIZE_ADDRESS__) || defined(VF_SANITIZED)
#include <sys/mman.h>
struct SanCapture {
    int fd = -1; off_t last = 0;
    // stderr itself is redirected into a memfd (the sanitizer runtimes write their reports to fd 2)
    void init() { if (getenv("VF_NO_SANCAPTURE")) return; fd = memfd_create("vf_san", 0); if (fd >= 0) dup2(fd, 2); }
    bool dirty(std::string& text) {
        if (fd < 0) return false;
        off_t end = lseek(fd, 0, SEEK_END);
        if (end == last) return false;
        size_t n = size_t(end - last); if (n > 1500) n = 1500;
        text.resize(n);
        ssize_t r = pread(fd, &text[0], n, last); if (r < 0) r = 0; text.resize(size_t(r));
        last = end;
        // keep the first informative line
        size_t p = text.find("runtime error"); if (p == std::string::npos) p = text.find("ERROR: AddressSanitizer");
        if (p != std::string::npos) { size_t b = text.rfind('\n', p); b = (b == std::string::npos) ? 0 : b + 1; size_t e = text.find('\n', p); text = text.substr(b, e == std::string::npos ? std::string::npos : e - b); }
        return true;
    }
};
#else
struct SanCapture { void init() {} bool dirty(std::string&) { return false; } };
#endif
inline SanCapture& san() { static SanCapture s; return s; }

inline std::vector<std::string> split(const std::string& s, char sep) {
    std::vector<std::string> o; std::string cur;
    for (char c : s) { if (c == sep) { o.push_back(cur); cur.clear(); } else cur.push_back(c); }
    o.push_back(cur);
    return o;
}

} // namespace vf
