// Plain model value: the oracle-side representation of a jsoncons value.
// All comparisons between the implementation and a reference go through MV,
// never through basic_json::compare (which is itself under test in C09).
#pragma once
#include "common.hpp"
#include <jsoncons/json.hpp>

namespace vf {

struct MV {
    enum K { Null, Bool, Int, UInt, Dbl, Half, Str, Bytes, Arr, Obj } k = Null;
    bool b = false;
    int64_t i = 0;
    uint64_t u = 0;       // UInt value, or double bit pattern, or half bits, or ext tag of bytes
    std::string s;        // string (UTF-8) or bytes
    int tag = 0;          // semantic_tag as int; noesc normalised to none
    bool has_ext = false;
    char fine = 0;        // optional storage detail: 'S' short string, 'L' long string, 'E' empty_object, 'r'/'R' refs
    std::vector<MV> a;
    std::vector<std::pair<std::string, MV>> o;

    static MV null() { return MV(); }
    static MV boolean(bool v) { MV m; m.k = Bool; m.b = v; return m; }
    static MV int64(int64_t v) { MV m; m.k = Int; m.i = v; return m; }
    static MV uint64(uint64_t v) { MV m; m.k = UInt; m.u = v; return m; }
    static MV dbl(double d) { MV m; m.k = Dbl; memcpy(&m.u, &d, 8); return m; }
    static MV dblbits(uint64_t bits) { MV m; m.k = Dbl; m.u = bits; return m; }
    static MV half(uint16_t h) { MV m; m.k = Half; m.u = h; return m; }
    static MV str(const std::string& v, int tag = 0) { MV m; m.k = Str; m.s = v; m.tag = tag; return m; }
    static MV bytes(const std::string& v, int tag = 0) { MV m; m.k = Bytes; m.s = v; m.tag = tag; return m; }
    static MV arr() { MV m; m.k = Arr; return m; }
    static MV obj() { MV m; m.k = Obj; return m; }

    double d() const { double x; memcpy(&x, &u, 8); return x; }
    bool is_nan() const { return k == Dbl && d() != d(); }
};

struct MVCmp {
    bool order_insensitive = false;  // objects compared as maps
    bool nan_equal = true;           // any NaN equals any NaN
    bool ignore_tags = false;
    bool num_by_value = false;       // Int 1 == UInt 1 (non-negative ints compare across kind)
    bool zero_sign = true;           // false: -0.0 equals +0.0
};

inline bool mv_eq(const MV& x, const MV& y, const MVCmp& c = MVCmp()) {
    if (x.k != y.k) {
        if (c.num_by_value && (x.k == MV::Int || x.k == MV::UInt) && (y.k == MV::Int || y.k == MV::UInt)) {
            const MV& I = x.k == MV::Int ? x : y; const MV& U = x.k == MV::Int ? y : x;
            return I.i >= 0 && uint64_t(I.i) == U.u;
        }
        return false;
    }
    if (!c.ignore_tags && x.tag != y.tag) return false;
    switch (x.k) {
        case MV::Null: return true;
        case MV::Bool: return x.b == y.b;
        case MV::Int: return x.i == y.i;
        case MV::UInt: return x.u == y.u;
        case MV::Half: return x.u == y.u;
        case MV::Dbl: if (c.nan_equal && x.is_nan() && y.is_nan()) return true; if (!c.zero_sign && x.d() == 0.0 && y.d() == 0.0) return true; return x.u == y.u;
        case MV::Str: return x.s == y.s;
        case MV::Bytes: return x.s == y.s && x.has_ext == y.has_ext && (!x.has_ext || x.u == y.u);
        case MV::Arr:
            if (x.a.size() != y.a.size()) return false;
            for (size_t i = 0; i < x.a.size(); ++i) if (!mv_eq(x.a[i], y.a[i], c)) return false;
            return true;
        case MV::Obj:
            if (x.o.size() != y.o.size()) return false;
            if (!c.order_insensitive) {
                for (size_t i = 0; i < x.o.size(); ++i)
                    if (x.o[i].first != y.o[i].first || !mv_eq(x.o[i].second, y.o[i].second, c)) return false;
                return true;
            }
            for (auto& kv : x.o) {
                bool f = false;
                for (auto& kw : y.o) if (kw.first == kv.first) { f = mv_eq(kv.second, kw.second, c); break; }
                if (!f) return false;
            }
            return true;
    }
    return false;
}

inline void mv_text(const MV& m, std::string& o, bool fine = false) {
    char buf[40];
    switch (m.k) {
        case MV::Null: o += "null"; break;
        case MV::Bool: o += m.b ? "true" : "false"; break;
        case MV::Int: snprintf(buf, sizeof buf, "i%lld", (long long)m.i); o += buf; break;
        case MV::UInt: snprintf(buf, sizeof buf, "u%llu", (unsigned long long)m.u); o += buf; break;
        case MV::Dbl: snprintf(buf, sizeof buf, "d%016llx", (unsigned long long)m.u); o += buf; break;
        case MV::Half: snprintf(buf, sizeof buf, "h%04x", (unsigned)m.u); o += buf; break;
        case MV::Str: o += "\""; o += show(m.s); o += "\""; break;
        case MV::Bytes: o += "b'"; o += hex(m.s); o += "'"; if (m.has_ext) { snprintf(buf, sizeof buf, "x%llu", (unsigned long long)m.u); o += buf; } break;
        case MV::Arr:
            o += "[";
            for (size_t i = 0; i < m.a.size(); ++i) { if (i) o += ","; mv_text(m.a[i], o, fine); }
            o += "]"; break;
        case MV::Obj:
            o += "{";
            for (size_t i = 0; i < m.o.size(); ++i) { if (i) o += ","; o += "\""; o += show(m.o[i].first); o += "\":"; mv_text(m.o[i].second, o, fine); }
            o += "}"; break;
    }
    if (m.tag) { snprintf(buf, sizeof buf, "#%d", m.tag); o += buf; }
    if (fine && m.fine) { o += '~'; o += m.fine; }
}
inline std::string mv_text(const MV& m, bool fine = false) { std::string o; mv_text(m, o, fine); return o; }

inline std::string to_utf8(const std::string& s) { return s; }
inline std::string to_utf8(jsoncons::string_view s) { return std::string(s.data(), s.size()); }
inline void put_utf8(std::string& o, uint32_t cp) {
    if (cp < 0x80) o.push_back(char(cp));
    else if (cp < 0x800) { o.push_back(char(0xC0 | (cp >> 6))); o.push_back(char(0x80 | (cp & 63))); }
    else if (cp < 0x10000) { o.push_back(char(0xE0 | (cp >> 12))); o.push_back(char(0x80 | ((cp >> 6) & 63))); o.push_back(char(0x80 | (cp & 63))); }
    else { o.push_back(char(0xF0 | (cp >> 18))); o.push_back(char(0x80 | ((cp >> 12) & 63))); o.push_back(char(0x80 | ((cp >> 6) & 63))); o.push_back(char(0x80 | (cp & 63))); }
}
inline std::string to_utf8(const std::wstring& s) {  // wchar_t is UTF-32 on this platform
    std::string o; for (wchar_t c : s) put_utf8(o, uint32_t(c)); return o;
}
inline std::string to_utf8(jsoncons::wstring_view s) { return to_utf8(std::wstring(s.data(), s.size())); }

template <class Json>
MV to_mv(const Json& j) {
    using jsoncons::json_storage_kind;
    MV m;
    int tag = int(j.tag());
    if (tag == int(jsoncons::semantic_tag::noesc)) tag = 0;
    m.tag = tag;
    json_storage_kind sk = j.storage_kind();
    const Json* p = &j;
    if (sk == json_storage_kind::json_ref || sk == json_storage_kind::const_json_ref) {
        // references denote their referent
        MV r;
#ifdef VF_PRIV
        if (sk == json_storage_kind::json_ref) r = to_mv(j.template cast<typename Json::json_ref_storage>().value());
        else r = to_mv(j.template cast<typename Json::const_json_ref_storage>().value());
        r.fine = sk == json_storage_kind::json_ref ? 'R' : 'r';
        return r;
#endif
    }
    switch (j.type()) {
        case jsoncons::json_type::null: m.k = MV::Null; break;
        case jsoncons::json_type::boolean: m.k = MV::Bool; m.b = j.template as<bool>(); break;
        case jsoncons::json_type::int64: m.k = MV::Int; m.i = j.template as<int64_t>(); break;
        case jsoncons::json_type::uint64: m.k = MV::UInt; m.u = j.template as<uint64_t>(); break;
        case jsoncons::json_type::float16: {
            m.k = MV::Half;
#ifdef VF_PRIV
            m.u = p->template cast<typename Json::half_storage>().value();
#else
            m.u = jsoncons::binary::encode_half(j.as_double());
#endif
            break;
        }
        case jsoncons::json_type::float64: { m.k = MV::Dbl; double d = j.as_double(); memcpy(&m.u, &d, 8); break; }
        case jsoncons::json_type::string: {
            m.k = MV::Str; m.s = to_utf8(j.as_string_view());
            m.fine = sk == json_storage_kind::short_str ? 'S' : (sk == json_storage_kind::long_str ? 'L' : 0);
            break;
        }
        case jsoncons::json_type::byte_string: {
            m.k = MV::Bytes; auto v = j.as_byte_string_view(); m.s.assign((const char*)v.data(), v.size());
            if (j.tag() == jsoncons::semantic_tag::ext) { m.has_ext = true; m.u = j.ext_tag(); }
            break;
        }
        case jsoncons::json_type::array:
            m.k = MV::Arr;
            for (const auto& e : j.array_range()) m.a.push_back(to_mv(e));
            break;
        case jsoncons::json_type::object:
            m.k = MV::Obj;
            if (sk == json_storage_kind::empty_object) m.fine = 'E';
            for (const auto& kv : j.object_range()) m.o.emplace_back(to_utf8(kv.key()), to_mv(kv.value()));
            break;
    }
    return m;
}

// Build a jsoncons value from an MV (used to construct inputs independently of the parser).
template <class Json>
Json from_mv(const MV& m) {
    using jsoncons::semantic_tag;
    semantic_tag t = semantic_tag(m.tag);
    switch (m.k) {
        case MV::Null: return Json(jsoncons::null_type(), t);
        case MV::Bool: return Json(m.b, t);
        case MV::Int: return Json(m.i, t);
        case MV::UInt: return Json(m.u, t);
        case MV::Dbl: return Json(m.d(), t);
        case MV::Half: return Json(jsoncons::half_arg, uint16_t(m.u), t);
        case MV::Str: return Json(m.s, t);
        case MV::Bytes: {
            std::vector<uint8_t> v(m.s.begin(), m.s.end());
            if (m.has_ext) return Json(jsoncons::byte_string_arg, v, m.u);
            return Json(jsoncons::byte_string_arg, v, t);
        }
        case MV::Arr: { Json j(jsoncons::json_array_arg, t); for (auto& e : m.a) j.push_back(from_mv<Json>(e)); return j; }
        case MV::Obj: { Json j(jsoncons::json_object_arg, t); for (auto& kv : m.o) j.try_emplace(kv.first, from_mv<Json>(kv.second)); return j; }
    }
    return Json();
}

} // namespace vf
