// A json_visitor that records the event sequence as text, and helpers that turn
// staj (cursor) events into the same text, written without using send_event.
#pragma once
#include "mv.hpp"
#include <jsoncons/json.hpp>

namespace vf {

inline void ev_tag(std::string& o, jsoncons::semantic_tag t) {
    if (t != jsoncons::semantic_tag::none && t != jsoncons::semantic_tag::noesc) { o += '#'; o += std::to_string(int(t)); }
}

struct Rec : public jsoncons::json_visitor {
    std::string ev;
    long long n = 0;
    int fail_at = -1;       // optionally make the visitor report an error at event index
    void sep() { if (!ev.empty()) ev += ' '; ++n; }
    void visit_flush() override {}
    JSONCONS_VISITOR_RETURN_TYPE visit_begin_object(jsoncons::semantic_tag t, const jsoncons::ser_context&, std::error_code&) override { sep(); ev += "{"; ev_tag(ev, t);  JSONCONS_VISITOR_RETURN; }
    JSONCONS_VISITOR_RETURN_TYPE visit_end_object(const jsoncons::ser_context&, std::error_code&) override { sep(); ev += "}";  JSONCONS_VISITOR_RETURN; }
    JSONCONS_VISITOR_RETURN_TYPE visit_begin_array(jsoncons::semantic_tag t, const jsoncons::ser_context&, std::error_code&) override { sep(); ev += "["; ev_tag(ev, t);  JSONCONS_VISITOR_RETURN; }
    JSONCONS_VISITOR_RETURN_TYPE visit_end_array(const jsoncons::ser_context&, std::error_code&) override { sep(); ev += "]";  JSONCONS_VISITOR_RETURN; }
    JSONCONS_VISITOR_RETURN_TYPE visit_key(const string_view_type& s, const jsoncons::ser_context&, std::error_code&) override { sep(); ev += "k:"; ev += hex(std::string(s.data(), s.size()));  JSONCONS_VISITOR_RETURN; }
    JSONCONS_VISITOR_RETURN_TYPE visit_null(jsoncons::semantic_tag t, const jsoncons::ser_context&, std::error_code&) override { sep(); ev += "n"; ev_tag(ev, t);  JSONCONS_VISITOR_RETURN; }
    JSONCONS_VISITOR_RETURN_TYPE visit_bool(bool b, jsoncons::semantic_tag t, const jsoncons::ser_context&, std::error_code&) override { sep(); ev += b ? "t" : "f"; ev_tag(ev, t);  JSONCONS_VISITOR_RETURN; }
    JSONCONS_VISITOR_RETURN_TYPE visit_string(const string_view_type& s, jsoncons::semantic_tag t, const jsoncons::ser_context&, std::error_code&) override { sep(); ev += "s:"; ev += hex(std::string(s.data(), s.size())); ev_tag(ev, t);  JSONCONS_VISITOR_RETURN; }
    JSONCONS_VISITOR_RETURN_TYPE visit_byte_string(const jsoncons::byte_string_view& b, jsoncons::semantic_tag t, const jsoncons::ser_context&, std::error_code&) override { sep(); ev += "b:"; ev += hex(std::string((const char*)b.data(), b.size())); ev_tag(ev, t);  JSONCONS_VISITOR_RETURN; }
    JSONCONS_VISITOR_RETURN_TYPE visit_byte_string(const jsoncons::byte_string_view& b, uint64_t ext, const jsoncons::ser_context&, std::error_code&) override { sep(); ev += "b:"; ev += hex(std::string((const char*)b.data(), b.size())); ev += "x" + std::to_string(ext);  JSONCONS_VISITOR_RETURN; }
    JSONCONS_VISITOR_RETURN_TYPE visit_uint64(uint64_t v, jsoncons::semantic_tag t, const jsoncons::ser_context&, std::error_code&) override { sep(); ev += "u:" + std::to_string(v); ev_tag(ev, t);  JSONCONS_VISITOR_RETURN; }
    JSONCONS_VISITOR_RETURN_TYPE visit_int64(int64_t v, jsoncons::semantic_tag t, const jsoncons::ser_context&, std::error_code&) override { sep(); ev += "i:" + std::to_string(v); ev_tag(ev, t);  JSONCONS_VISITOR_RETURN; }
    JSONCONS_VISITOR_RETURN_TYPE visit_half(uint16_t v, jsoncons::semantic_tag t, const jsoncons::ser_context&, std::error_code&) override { sep(); char b[16]; snprintf(b, sizeof b, "h:%04x", v); ev += b; ev_tag(ev, t);  JSONCONS_VISITOR_RETURN; }
    JSONCONS_VISITOR_RETURN_TYPE visit_double(double v, jsoncons::semantic_tag t, const jsoncons::ser_context&, std::error_code&) override { sep(); uint64_t u; memcpy(&u, &v, 8); char b[24]; snprintf(b, sizeof b, "d:%016llx", (unsigned long long)u); ev += b; ev_tag(ev, t);  JSONCONS_VISITOR_RETURN; }
};

// the same text for one cursor event
template <class Event>
void record_staj(std::string& ev, const Event& e) {
    using jsoncons::staj_events;
    if (!ev.empty()) ev += ' ';
    auto t = e.event_type();
    char b[24];
    if (t == staj_events::begin_object) { ev += "{"; ev_tag(ev, e.tag()); }
    else if (t == staj_events::end_object) ev += "}";
    else if (t == staj_events::begin_array) { ev += "["; ev_tag(ev, e.tag()); }
    else if (t == staj_events::end_array) ev += "]";
    else if (t == staj_events::key) { auto s = e.template get<jsoncons::string_view>(); ev += "k:"; ev += hex(std::string(s.data(), s.size())); }
    else if (t == staj_events::string_value) { auto s = e.template get<jsoncons::string_view>(); ev += "s:"; ev += hex(std::string(s.data(), s.size())); ev_tag(ev, e.tag()); }
    else if (t == staj_events::byte_string_value) { auto s = e.template get<jsoncons::byte_string_view>(); ev += "b:"; ev += hex(std::string((const char*)s.data(), s.size())); if (e.tag() == jsoncons::semantic_tag::ext) ev += "x" + std::to_string(e.ext_tag()); else ev_tag(ev, e.tag()); }
    else if (t == staj_events::null_value) { ev += "n"; ev_tag(ev, e.tag()); }
    else if (t == staj_events::bool_value) { ev += e.template get<bool>() ? "t" : "f"; ev_tag(ev, e.tag()); }
    else if (t == staj_events::int64_value) { ev += "i:" + std::to_string(e.template get<int64_t>()); ev_tag(ev, e.tag()); }
    else if (t == staj_events::uint64_value) { ev += "u:" + std::to_string(e.template get<uint64_t>()); ev_tag(ev, e.tag()); }
    else if (t == staj_events::half_value) { snprintf(b, sizeof b, "h:%04x", (unsigned)e.template get<uint16_t>()); ev += b; ev_tag(ev, e.tag()); }
    else if (t == staj_events::double_value) { double v = e.template get<double>(); uint64_t u; memcpy(&u, &v, 8); snprintf(b, sizeof b, "d:%016llx", (unsigned long long)u); ev += b; ev_tag(ev, e.tag()); }
    else ev += "?";
}

} // namespace vf
