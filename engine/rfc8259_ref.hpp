// A deliberately boring reference for RFC 8259, written from the RFC text:
//   (1) RefParser: recursive descent producing MV (with the two documented
//       relaxations, comments and trailing commas, as switches);
//   (2) RefPDA: the same strict grammar as an explicit pushdown automaton with a
//       small copyable state, used for the product search of C02(B).
#pragma once
#include "mv.hpp"
#include <cerrno>
#include <cmath>

namespace vf {

struct RefOpts {
    bool comments = false;
    bool trailing_comma = false;
    int max_depth = 1024;
    bool lossless_number = false;
    bool lossless_bignum = true;
};

struct RefResult {
    bool ok = false;
    bool unspecified = false;      // the property does not fix the outcome (lone surrogate, comment after root ...)
    bool value_unspecified = false;// accept/reject is fixed, the numeric value is not compared (double range edge)
    bool used_comment = false, used_trailing_comma = false;
    bool depth_exceeded = false;
    MV v;
};

inline bool utf8_valid(const std::string& s) {
    size_t i = 0, n = s.size();
    while (i < n) {
        unsigned char c = s[i];
        if (c < 0x80) { ++i; continue; }
        int len; uint32_t cp;
        if ((c & 0xE0) == 0xC0) { len = 2; cp = c & 0x1F; }
        else if ((c & 0xF0) == 0xE0) { len = 3; cp = c & 0x0F; }
        else if ((c & 0xF8) == 0xF0) { len = 4; cp = c & 0x07; }
        else return false;
        if (i + len > n) return false;
        for (int k = 1; k < len; ++k) { unsigned char d = s[i + k]; if ((d & 0xC0) != 0x80) return false; cp = (cp << 6) | (d & 0x3F); }
        if (len == 2 && cp < 0x80) return false;
        if (len == 3 && cp < 0x800) return false;
        if (len == 4 && cp < 0x10000) return false;
        if (cp > 0x10FFFF || (cp >= 0xD800 && cp <= 0xDFFF)) return false;
        i += len;
    }
    return true;
}

class RefParser {
    const std::string& t;
    size_t p = 0;
    RefOpts o;
    RefResult r;
    bool fail = false;

    bool ws() {  // skip whitespace (and comments when enabled); returns false on malformed comment
        for (;;) {
            while (p < t.size() && (t[p] == ' ' || t[p] == '\t' || t[p] == '\n' || t[p] == '\r')) ++p;
            if (o.comments && p + 1 < t.size() && t[p] == '/' && (t[p + 1] == '/' || t[p + 1] == '*')) {
                r.used_comment = true;
                if (t[p + 1] == '/') {
                    p += 2;
                    while (p < t.size() && t[p] != '\n' && t[p] != '\r') ++p;
                    // a line comment ended by end of input is left to the caller (only possible after the root)
                } else {
                    size_t e = t.find("*/", p + 2);
                    if (e == std::string::npos) { fail = true; return false; }
                    p = e + 2;
                }
                continue;
            }
            return true;
        }
    }
    static int hexv(char c) {
        if (c >= '0' && c <= '9') return c - '0';
        if (c >= 'a' && c <= 'f') return c - 'a' + 10;
        if (c >= 'A' && c <= 'F') return c - 'A' + 10;
        return -1;
    }
    bool hex4(uint32_t& cp) {
        if (p + 4 > t.size()) return false;
        cp = 0;
        for (int k = 0; k < 4; ++k) { int h = hexv(t[p + k]); if (h < 0) return false; cp = cp * 16 + h; }
        p += 4;
        return true;
    }
    bool string(std::string& out) {
        // t[p] == '"'
        ++p;
        for (;;) {
            if (p >= t.size()) return false;
            unsigned char c = t[p];
            if (c == '"') { ++p; break; }
            if (c < 0x20) return false;
            if (c == '\\') {
                ++p;
                if (p >= t.size()) return false;
                char e = t[p++];
                switch (e) {
                    case '"': out.push_back('"'); break;
                    case '\\': out.push_back('\\'); break;
                    case '/': out.push_back('/'); break;
                    case 'b': out.push_back('\b'); break;
                    case 'f': out.push_back('\f'); break;
                    case 'n': out.push_back('\n'); break;
                    case 'r': out.push_back('\r'); break;
                    case 't': out.push_back('\t'); break;
                    case 'u': {
                        uint32_t cp;
                        if (!hex4(cp)) return false;
                        if (cp >= 0xD800 && cp <= 0xDBFF) {
                            // must be followed by \uDC00..DFFF to denote a scalar value; otherwise unspecified
                            size_t save = p; uint32_t lo;
                            if (p + 1 < t.size() && t[p] == '\\' && t[p + 1] == 'u') {
                                p += 2;
                                if (!hex4(lo)) return false;
                                if (lo >= 0xDC00 && lo <= 0xDFFF) { put_utf8(out, 0x10000 + ((cp - 0xD800) << 10) + (lo - 0xDC00)); break; }
                            }
                            (void)save;
                            r.unspecified = true;
                            break;
                        }
                        if (cp >= 0xDC00 && cp <= 0xDFFF) { r.unspecified = true; break; }
                        put_utf8(out, cp);
                        break;
                    }
                    default: return false;
                }
                continue;
            }
            out.push_back(char(c));
            ++p;
        }
        return utf8_valid(out);
    }
    bool number(MV& v) {
        size_t s = p;
        bool neg = false, integral = true;
        if (p < t.size() && t[p] == '-') { neg = true; ++p; }
        if (p >= t.size()) return false;
        if (t[p] == '0') ++p;
        else if (t[p] >= '1' && t[p] <= '9') { while (p < t.size() && t[p] >= '0' && t[p] <= '9') ++p; }
        else return false;
        if (p < t.size() && t[p] == '.') {
            integral = false; ++p;
            if (p >= t.size() || t[p] < '0' || t[p] > '9') return false;
            while (p < t.size() && t[p] >= '0' && t[p] <= '9') ++p;
        }
        if (p < t.size() && (t[p] == 'e' || t[p] == 'E')) {
            integral = false; ++p;
            if (p < t.size() && (t[p] == '+' || t[p] == '-')) ++p;
            if (p >= t.size() || t[p] < '0' || t[p] > '9') return false;
            while (p < t.size() && t[p] >= '0' && t[p] <= '9') ++p;
        }
        std::string lit = t.substr(s, p - s);
        if (integral) {
            // exact integer arithmetic with overflow detection
            unsigned __int128 acc = 0; bool big = false;
            for (size_t k = neg ? 1 : 0; k < lit.size(); ++k) { acc = acc * 10 + (lit[k] - '0'); if (acc > ((unsigned __int128)1 << 64)) { big = true; break; } }
            if (!big && !neg && acc <= (unsigned __int128)UINT64_MAX) { v = MV::uint64(uint64_t(acc)); return true; }
            if (!big && neg && acc <= ((unsigned __int128)1 << 63)) { v = MV::int64(acc == ((unsigned __int128)1 << 63) ? INT64_MIN : -int64_t(uint64_t(acc))); return true; }
            if (o.lossless_bignum) { v = MV::str(lit, int(jsoncons::semantic_tag::bigint)); return true; }
            errno = 0; double d = strtod(lit.c_str(), nullptr);
            v = MV::dbl(d); if (errno == ERANGE) r.value_unspecified = true;
            return true;
        }
        if (o.lossless_number) { v = MV::str(lit, int(jsoncons::semantic_tag::bigdec)); return true; }
        errno = 0; double d = strtod(lit.c_str(), nullptr);
        if (errno == ERANGE) {
            // overflow, or underflow towards zero / inexact subnormal: judged by C04, not here
            if (std::isinf(d) && o.lossless_bignum) { v = MV::str(lit, int(jsoncons::semantic_tag::bigdec)); return true; }
            r.value_unspecified = true;
        }
        v = MV::dbl(d);
        return true;
    }
    bool lit(const char* w) { size_t n = strlen(w); if (t.compare(p, n, w) != 0) return false; p += n; return true; }

    bool value(MV& v, int depth) {
        if (!ws()) return false;
        if (p >= t.size()) return false;
        char c = t[p];
        if (c == '{') {
            if (depth + 1 > o.max_depth) { r.depth_exceeded = true; return false; }
            ++p; v = MV::obj();
            if (!ws()) return false;
            if (p < t.size() && t[p] == '}') { ++p; return true; }
            for (;;) {
                if (!ws()) return false;
                if (p >= t.size() || t[p] != '"') return false;
                std::string k; if (!string(k)) return false;
                if (!ws()) return false;
                if (p >= t.size() || t[p] != ':') return false;
                ++p;
                MV e; if (!value(e, depth + 1)) return false;
                bool dup = false; for (auto& kv : v.o) if (kv.first == k) dup = true;
                if (!dup) v.o.emplace_back(k, e);   // the first of duplicate names wins
                if (!ws()) return false;
                if (p >= t.size()) return false;
                if (t[p] == ',') {
                    ++p;
                    if (o.trailing_comma) { if (!ws()) return false; if (p < t.size() && t[p] == '}') { r.used_trailing_comma = true; ++p; return true; } }
                    continue;
                }
                if (t[p] == '}') { ++p; return true; }
                return false;
            }
        }
        if (c == '[') {
            if (depth + 1 > o.max_depth) { r.depth_exceeded = true; return false; }
            ++p; v = MV::arr();
            if (!ws()) return false;
            if (p < t.size() && t[p] == ']') { ++p; return true; }
            for (;;) {
                MV e; if (!value(e, depth + 1)) return false;
                v.a.push_back(e);
                if (!ws()) return false;
                if (p >= t.size()) return false;
                if (t[p] == ',') {
                    ++p;
                    if (o.trailing_comma) { if (!ws()) return false; if (p < t.size() && t[p] == ']') { r.used_trailing_comma = true; ++p; return true; } }
                    continue;
                }
                if (t[p] == ']') { ++p; return true; }
                return false;
            }
        }
        if (c == '"') { std::string s; if (!string(s)) return false; v = MV::str(s); return true; }
        if (c == 't') { if (!lit("true")) return false; v = MV::boolean(true); return true; }
        if (c == 'f') { if (!lit("false")) return false; v = MV::boolean(false); return true; }
        if (c == 'n') { if (!lit("null")) return false; v = MV::null(); return true; }
        if (c == '-' || (c >= '0' && c <= '9')) return number(v);
        return false;
    }

public:
    RefParser(const std::string& text, const RefOpts& opts) : t(text), o(opts) {}
    RefResult parse() {
        MV v;
        bool ok = value(v, 0);
        if (ok) {
            // after the root: only whitespace.  A comment here is outside what the property fixes.
            size_t q = p;
            while (q < t.size() && (t[q] == ' ' || t[q] == '\t' || t[q] == '\n' || t[q] == '\r')) ++q;
            if (q < t.size()) {
                if (o.comments && t[q] == '/') r.unspecified = true;
                ok = false;
            }
        }
        r.ok = ok && !fail;
        if (r.ok) r.v = v;
        return r;
    }
};

inline RefResult ref_parse(const std::string& text, const RefOpts& o = RefOpts()) { return RefParser(text, o).parse(); }

// Strip comments and trailing commas outside strings (used for the "relaxes exactly those two" oracle).
inline std::string ref_strip(const std::string& t, bool comments, bool commas) {
    std::string o;
    size_t i = 0, n = t.size();
    while (i < n) {
        char c = t[i];
        if (c == '"') {
            o.push_back(c); ++i;
            while (i < n) { o.push_back(t[i]); if (t[i] == '\\' && i + 1 < n) { o.push_back(t[i + 1]); i += 2; continue; } if (t[i] == '"') { ++i; break; } ++i; }
            continue;
        }
        if (comments && c == '/' && i + 1 < n && t[i + 1] == '/') { i += 2; while (i < n && t[i] != '\n' && t[i] != '\r') ++i; o.push_back(' '); continue; }
        if (comments && c == '/' && i + 1 < n && t[i + 1] == '*') { size_t e = t.find("*/", i + 2); if (e == std::string::npos) { o.append(t, i, std::string::npos); break; } i = e + 2; o.push_back(' '); continue; }
        o.push_back(c); ++i;
    }
    if (!commas) return o;
    // remove a comma whose next non-space token is ] or }
    std::string q; n = o.size(); i = 0;
    while (i < n) {
        char c = o[i];
        if (c == '"') { q.push_back(c); ++i; while (i < n) { q.push_back(o[i]); if (o[i] == '\\' && i + 1 < n) { q.push_back(o[i + 1]); i += 2; continue; } if (o[i] == '"') { ++i; break; } ++i; } continue; }
        if (c == ',') { size_t j = i + 1; while (j < n && (o[j] == ' ' || o[j] == '\t' || o[j] == '\n' || o[j] == '\r')) ++j; if (j < n && (o[j] == ']' || o[j] == '}')) { q.push_back(' '); ++i; continue; } }
        q.push_back(c); ++i;
    }
    return q;
}

// ---------------------------------------------------------------------------
// Strict RFC 8259 as a pushdown automaton (ASCII input).  State is small and
// copyable; key() is its canonical form.
struct RefPDA {
    enum M : uint8_t {
        ExpectValue,          // a value must start here (root, after '[' needs ValueOrClose, after ',' in array, after ':')
        ValueOrCloseArr,      // just after '['
        KeyOrCloseObj,        // just after '{'
        ExpectKey,            // after ',' in object
        ExpectColon,
        AfterValue,           // after a complete value inside a container, or after the root value
        InString, InStringEsc, InStringU,   // u holds number of hex digits still to read
        NumMinus, NumZero, NumInt, NumDot, NumFrac, NumE, NumESign, NumExp,
        Lit,                  // inside true/false/null; lit = which, u = chars matched
        Dead
    } m = ExpectValue;
    uint8_t u = 0;
    uint8_t lit = 0;
    bool key = false;         // the string being read is a member name
    std::string stack;        // '[' or '{' per open container
    int max_depth = 1024;

    std::string keystr() const {
        std::string k; k.push_back(char('A' + m)); k.push_back(char('0' + u)); k.push_back(char('0' + lit)); k.push_back(key ? 'k' : 'v'); k += stack; return k;
    }
    bool dead() const { return m == Dead; }
    void value_done() {
        if (key) { key = false; m = ExpectColon; }
        else m = AfterValue;
    }
    static bool isws(unsigned char c) { return c == ' ' || c == '\t' || c == '\n' || c == '\r'; }
    // a number has no terminator of its own: on a non-number character finish it and re-dispatch
    void after_number(unsigned char c) { m = AfterValue; step(c); }
    void start_value(unsigned char c) {
        switch (c) {
            case '{': if ((int)stack.size() + 1 > max_depth) { m = Dead; return; } stack.push_back('{'); m = KeyOrCloseObj; return;
            case '[': if ((int)stack.size() + 1 > max_depth) { m = Dead; return; } stack.push_back('['); m = ValueOrCloseArr; return;
            case '"': m = InString; return;
            case '-': m = NumMinus; return;
            case '0': m = NumZero; return;
            case 't': m = Lit; lit = 0; u = 1; return;
            case 'f': m = Lit; lit = 1; u = 1; return;
            case 'n': m = Lit; lit = 2; u = 1; return;
            default:
                if (c >= '1' && c <= '9') { m = NumInt; return; }
                m = Dead; return;
        }
    }
    void step(unsigned char c) {
        static const char* lits[3] = {"true", "false", "null"};
        switch (m) {
            case Dead: return;
            case ExpectValue: if (isws(c)) return; start_value(c); return;
            case ValueOrCloseArr: if (isws(c)) return; if (c == ']') { stack.pop_back(); m = AfterValue; return; } start_value(c); return;
            case KeyOrCloseObj: if (isws(c)) return; if (c == '}') { stack.pop_back(); m = AfterValue; return; } if (c == '"') { key = true; m = InString; return; } m = Dead; return;
            case ExpectKey: if (isws(c)) return; if (c == '"') { key = true; m = InString; return; } m = Dead; return;
            case ExpectColon: if (isws(c)) return; if (c == ':') { m = ExpectValue; return; } m = Dead; return;
            case AfterValue:
                if (isws(c)) return;
                if (stack.empty()) { m = Dead; return; }
                if (stack.back() == '[') { if (c == ',') { m = ExpectValue; return; } if (c == ']') { stack.pop_back(); m = AfterValue; return; } }
                else { if (c == ',') { m = ExpectKey; return; } if (c == '}') { stack.pop_back(); m = AfterValue; return; } }
                m = Dead; return;
            case InString:
                if (c == '"') { value_done(); return; }
                if (c == '\\') { m = InStringEsc; return; }
                if (c < 0x20) { m = Dead; return; }
                return;
            case InStringEsc:
                switch (c) { case '"': case '\\': case '/': case 'b': case 'f': case 'n': case 'r': case 't': m = InString; return; case 'u': m = InStringU; u = 4; return; default: m = Dead; return; }
            case InStringU:
                if ((c >= '0' && c <= '9') || (c >= 'a' && c <= 'f') || (c >= 'A' && c <= 'F')) { if (--u == 0) m = InString; return; }
                m = Dead; return;
            case NumMinus: if (c == '0') { m = NumZero; return; } if (c >= '1' && c <= '9') { m = NumInt; return; } m = Dead; return;
            case NumZero: if (c == '.') { m = NumDot; return; } if (c == 'e' || c == 'E') { m = NumE; return; } if (c >= '0' && c <= '9') { m = Dead; return; } after_number(c); return;
            case NumInt: if (c >= '0' && c <= '9') return; if (c == '.') { m = NumDot; return; } if (c == 'e' || c == 'E') { m = NumE; return; } after_number(c); return;
            case NumDot: if (c >= '0' && c <= '9') { m = NumFrac; return; } m = Dead; return;
            case NumFrac: if (c >= '0' && c <= '9') return; if (c == 'e' || c == 'E') { m = NumE; return; } after_number(c); return;
            case NumE: if (c == '+' || c == '-') { m = NumESign; return; } if (c >= '0' && c <= '9') { m = NumExp; return; } m = Dead; return;
            case NumESign: if (c >= '0' && c <= '9') { m = NumExp; return; } m = Dead; return;
            case NumExp: if (c >= '0' && c <= '9') return; after_number(c); return;
            case Lit:
                if (c == (unsigned char)lits[lit][u]) { ++u; if (lits[lit][u] == 0) { u = 0; lit = 0; m = AfterValue; } return; }
                m = Dead; return;
        }
    }
    bool accepting() const {
        if (!stack.empty()) return false;
        return m == AfterValue || m == NumZero || m == NumInt || m == NumFrac || m == NumExp;
    }
};

} // namespace vf
