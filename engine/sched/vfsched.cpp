// A small replacement for the ThreadSanitizer runtime (C20).  The harness is compiled with
// -fsanitize=thread and linked against THIS file instead of libtsan, which gives
//   (a) a scheduling point at every synchronisation operation the code performs (TSan-ABI atomics,
//       static-local guards, thread start/exit); real pthreads run one at a time under a baton;
//   (b) a vector-clock happens-before race detector over every instrumented plain access to memory
//       that existed before the concurrent phase (heap blocks live at phase start, static storage).
// This translation unit must NOT be compiled with -fsanitize=thread.
#include "vfsched.h"
#include <cstdio>
#include <cstdlib>
#include <cstring>
#include <cstdint>
#include <new>
#include <vector>
#include <map>
#include <unordered_map>
#include <algorithm>
#include <pthread.h>
#include <semaphore.h>
#include <unistd.h>

extern "C" char __data_start, _end, __bss_start;   // static storage of the executable

namespace {

const int MAXT = 8;
typedef uint32_t Clock[MAXT];

struct Thread { pthread_t pt; sem_t sem; bool started = false, finished = false, blocked = false; const void* blocked_on = nullptr; Clock vc; void (*fn)(int); };
Thread g_thr[MAXT];
int g_nthreads = 1;           // thread 0 = main
thread_local int t_self = 0;
bool g_phase = false;         // concurrent phase active
int g_running = 0;

// ---- schedule -----------------------------------------------------------------------------------
vf_trace* g_trace = nullptr;
const int* g_prefix = nullptr; int g_prefix_len = 0;

// ---- judged memory ------------------------------------------------------------------------------
struct Block { uintptr_t start, size; };
// lazily created and never destroyed: operator new/delete run before static constructors and after static destructors
std::vector<Block>* g_pre_p = nullptr;    // heap blocks live when the phase started (sorted)
std::vector<Block>* g_live_p = nullptr;   // all blocks allocated before the phase (unsorted, filled by operator new)
inline std::vector<Block>& mk(std::vector<Block>*& p) { if (!p) { p = (std::vector<Block>*)malloc(sizeof(std::vector<Block>)); new (p) std::vector<Block>(); } return *p; }
#define g_pre mk(g_pre_p)
#define g_live mk(g_live_p)
bool g_tracking_allocs = true;

struct Shadow { int8_t wtid = -1; uint32_t wclk = 0; uint32_t rclk[MAXT] = {0}; const void* wpc = nullptr; const void* rpc[MAXT] = {nullptr}; };
std::unordered_map<uintptr_t, Shadow>* g_shadow = nullptr;
std::unordered_map<uintptr_t, Clock*>* g_sync = nullptr;   // sync object clocks by address

inline bool in_static(uintptr_t a) { return a >= (uintptr_t)&__data_start && a < (uintptr_t)&_end; }
inline const Block* in_pre(uintptr_t a) {
    size_t lo = 0, hi = g_pre.size();
    while (lo < hi) { size_t mid = (lo + hi) / 2; if (g_pre[mid].start + g_pre[mid].size <= a) lo = mid + 1; else hi = mid; }
    if (lo < g_pre.size() && g_pre[lo].start <= a) return &g_pre[lo];
    return nullptr;
}
bool g_in_runtime = false;

void report_race(uintptr_t a, bool is_write, int other, bool other_write, const void* pc, const void* opc) {
    if (!g_trace) return;
    g_trace->accesses_judged++;
    if (g_trace->nraces < VF_MAX_RACES) {
        vf_race& r = g_trace->races[g_trace->nraces];
        r.addr = a; r.tid = t_self; r.other = other; r.is_write = is_write; r.other_write = other_write; r.pc = (uintptr_t)pc; r.other_pc = (uintptr_t)opc;
        const Block* b = in_pre(a);
        r.region = b ? 1 : 2; r.block_size = b ? b->size : 0; r.offset = b ? a - b->start : a - (uintptr_t)&__data_start;
    }
    g_trace->nraces++;
}

inline bool hb(int otid, uint32_t oclk) { return g_thr[t_self].vc[otid] >= oclk; }

void access(uintptr_t a, size_t n, bool is_write, const void* pc) {
    if (!g_phase || g_in_runtime) return;
    if (!in_static(a) && !in_pre(a)) return;
    if (in_static(a) && a >= (uintptr_t)g_trace && a < (uintptr_t)g_trace + sizeof(vf_trace)) return;
    g_in_runtime = true;
    if (g_trace) g_trace->accesses_judged++;
    Clock& vc = g_thr[t_self].vc;
    for (size_t i = 0; i < n; ++i) {
        Shadow& s = (*g_shadow)[a + i];
        if (is_write) {
            if (s.wtid >= 0 && s.wtid != t_self && !hb(s.wtid, s.wclk)) { report_race(a + i, true, s.wtid, true, pc, s.wpc); }
            else for (int t = 0; t < g_nthreads; ++t) if (t != t_self && s.rclk[t] && !hb(t, s.rclk[t])) { report_race(a + i, true, t, false, pc, s.rpc[t]); break; }
            s.wtid = (int8_t)t_self; s.wclk = vc[t_self]; s.wpc = pc;
        } else {
            if (s.wtid >= 0 && s.wtid != t_self && !hb(s.wtid, s.wclk)) report_race(a + i, false, s.wtid, true, pc, s.wpc);
            s.rclk[t_self] = vc[t_self]; s.rpc[t_self] = pc;
        }
    }
    g_in_runtime = false;
}

// ---- scheduler -----------------------------------------------------------------------------------
void handoff(int next) {
    int me = t_self;
    if (next == me) return;
    g_running = next;
    sem_post(&g_thr[next].sem);
    if (!g_thr[me].finished) sem_wait(&g_thr[me].sem);
}

// choose who runs next at a scheduling point; `me_enabled` false when the caller blocks or finishes
void sched_point(bool me_enabled) {
    if (!g_phase) return;
    int me = t_self;
    int enabled[MAXT]; int n = 0;
    // canonical order: the running thread first if still enabled, then ascending ids
    if (me_enabled) enabled[n++] = me;
    for (int t = 1; t < g_nthreads; ++t) if (t != me && g_thr[t].started && !g_thr[t].finished && !g_thr[t].blocked) enabled[n++] = t;
    if (n == 0) {
        // nobody can run: either everything finished (main is waiting) or a deadlock
        bool all_done = true; for (int t = 1; t < g_nthreads; ++t) if (!g_thr[t].finished) all_done = false;
        if (!all_done) { if (g_trace) g_trace->deadlock = 1; _exit(3); }   // deadlock: no enabled thread (we are in a forked child)
        g_running = 0; sem_post(&g_thr[0].sem);
        if (!g_thr[me].finished) sem_wait(&g_thr[me].sem);
        return;
    }
    int choice = 0;
    long idx = g_trace ? g_trace->npoints : 0;
    if (n > 1 || true) {
        if (idx < g_prefix_len) { choice = g_prefix[idx]; if (choice >= n) { if (g_trace) g_trace->diverged = 1; choice = 0; } }
        if (g_trace && idx < VF_MAX_POINTS) { g_trace->points[idx].n_enabled = (uint8_t)n; g_trace->points[idx].chosen = (uint8_t)choice; g_trace->points[idx].cur_enabled = me_enabled ? 1 : 0; }
        if (g_trace) g_trace->npoints++;
    }
    handoff(enabled[choice]);
}

void sync_acquire(const void* addr) { auto it = g_sync->find((uintptr_t)addr); if (it == g_sync->end()) return; Clock& vc = g_thr[t_self].vc; for (int t = 0; t < MAXT; ++t) vc[t] = std::max(vc[t], (*it->second)[t]); }
void sync_release(const void* addr) {
    Clock*& c = (*g_sync)[(uintptr_t)addr]; if (!c) { c = (Clock*)calloc(1, sizeof(Clock)); }
    Clock& vc = g_thr[t_self].vc; for (int t = 0; t < MAXT; ++t) (*c)[t] = std::max((*c)[t], vc[t]);
    vc[t_self]++;
}
void sync_op(const void* addr) {   // called for every atomic operation: a scheduling point plus acquire+release on the address
    if (!g_phase || g_in_runtime) return;
    g_in_runtime = true;
    if (g_trace) g_trace->sync_ops++;
    g_in_runtime = false;
    sched_point(true);
    g_in_runtime = true;
    sync_acquire(addr); sync_release(addr);
    g_in_runtime = false;
}

void* thread_main(void* p) {
    int id = (int)(intptr_t)p;
    t_self = id;
    sem_wait(&g_thr[id].sem);       // wait for the baton
    g_thr[id].fn(id);
    g_in_runtime = true; g_thr[id].vc[id]++; g_in_runtime = false;
    g_thr[id].finished = true;
    sched_point(false);
    return nullptr;
}

} // namespace

// ---- public API used by the harness ---------------------------------------------------------------
extern "C" {

void vf_set_trace(vf_trace* t, const int* prefix, int prefix_len) { g_trace = t; g_prefix = prefix; g_prefix_len = prefix_len; }

void vf_run_threads(int n, void (*fn)(int)) {
    g_in_runtime = true;
    // freeze the set of pre-existing heap blocks
    g_pre = g_live; std::sort(g_pre.begin(), g_pre.end(), [](const Block& a, const Block& b) { return a.start < b.start; });
    g_tracking_allocs = false;
    g_shadow = new std::unordered_map<uintptr_t, Shadow>(); g_sync = new std::unordered_map<uintptr_t, Clock*>();
    g_nthreads = n + 1;
    memset(g_thr[0].vc, 0, sizeof(Clock)); g_thr[0].vc[0] = 1;
    sem_init(&g_thr[0].sem, 0, 0);
    for (int t = 1; t <= n; ++t) {
        Thread& th = g_thr[t]; sem_init(&th.sem, 0, 0); th.fn = fn; th.started = true; th.finished = false; th.blocked = false;
        memcpy(th.vc, g_thr[0].vc, sizeof(Clock)); th.vc[t] = 1;     // spawn edge
        pthread_create(&th.pt, nullptr, thread_main, (void*)(intptr_t)t);
    }
    g_thr[0].vc[0]++;
    g_phase = true;
    g_in_runtime = false;
    // main hands the baton to the first scheduled thread and waits until every thread has finished
    t_self = 0;
    sched_point(false);
    g_in_runtime = true;
    g_phase = false;
    for (int t = 1; t <= n; ++t) { pthread_join(g_thr[t].pt, nullptr); for (int k = 0; k < MAXT; ++k) g_thr[0].vc[k] = std::max(g_thr[0].vc[k], g_thr[t].vc[k]); }
    g_tracking_allocs = true;
    g_in_runtime = false;
}

// ---- TSan ABI ---------------------------------------------------------------------------------------
void __tsan_init() {}
void __tsan_func_entry(void*) {}
void __tsan_func_exit() {}
#define RW(N) \
    void __tsan_read##N(void* a) { access((uintptr_t)a, N, false, __builtin_return_address(0)); } \
    void __tsan_write##N(void* a) { access((uintptr_t)a, N, true, __builtin_return_address(0)); } \
    void __tsan_unaligned_read##N(void* a) { access((uintptr_t)a, N, false, __builtin_return_address(0)); } \
    void __tsan_unaligned_write##N(void* a) { access((uintptr_t)a, N, true, __builtin_return_address(0)); }
RW(1) RW(2) RW(4) RW(8) RW(16)
void __tsan_read_range(void* a, unsigned long n) { access((uintptr_t)a, n, false, __builtin_return_address(0)); }
void __tsan_write_range(void* a, unsigned long n) { access((uintptr_t)a, n, true, __builtin_return_address(0)); }
void __tsan_vptr_update(void** a, void* v) { if (*a != v) access((uintptr_t)a, 8, true, __builtin_return_address(0)); }
void __tsan_vptr_read(void** a) { access((uintptr_t)a, 8, false, __builtin_return_address(0)); }
void __tsan_read_write1(void* a) { access((uintptr_t)a, 1, true, __builtin_return_address(0)); }
void __tsan_read_write2(void* a) { access((uintptr_t)a, 2, true, __builtin_return_address(0)); }
void __tsan_read_write4(void* a) { access((uintptr_t)a, 4, true, __builtin_return_address(0)); }
void __tsan_read_write8(void* a) { access((uintptr_t)a, 8, true, __builtin_return_address(0)); }

#define ATOMICS(N, T) \
    T __tsan_atomic##N##_load(const volatile T* a, int) { sync_op((const void*)a); return __atomic_load_n(a, __ATOMIC_SEQ_CST); } \
    void __tsan_atomic##N##_store(volatile T* a, T v, int) { sync_op((const void*)a); __atomic_store_n(a, v, __ATOMIC_SEQ_CST); } \
    T __tsan_atomic##N##_exchange(volatile T* a, T v, int) { sync_op((const void*)a); return __atomic_exchange_n(a, v, __ATOMIC_SEQ_CST); } \
    T __tsan_atomic##N##_fetch_add(volatile T* a, T v, int) { sync_op((const void*)a); return __atomic_fetch_add(a, v, __ATOMIC_SEQ_CST); } \
    T __tsan_atomic##N##_fetch_sub(volatile T* a, T v, int) { sync_op((const void*)a); return __atomic_fetch_sub(a, v, __ATOMIC_SEQ_CST); } \
    T __tsan_atomic##N##_fetch_and(volatile T* a, T v, int) { sync_op((const void*)a); return __atomic_fetch_and(a, v, __ATOMIC_SEQ_CST); } \
    T __tsan_atomic##N##_fetch_or(volatile T* a, T v, int) { sync_op((const void*)a); return __atomic_fetch_or(a, v, __ATOMIC_SEQ_CST); } \
    T __tsan_atomic##N##_fetch_xor(volatile T* a, T v, int) { sync_op((const void*)a); return __atomic_fetch_xor(a, v, __ATOMIC_SEQ_CST); } \
    T __tsan_atomic##N##_fetch_nand(volatile T* a, T v, int) { sync_op((const void*)a); return __atomic_fetch_nand(a, v, __ATOMIC_SEQ_CST); } \
    int __tsan_atomic##N##_compare_exchange_strong(volatile T* a, T* c, T v, int, int) { sync_op((const void*)a); return __atomic_compare_exchange_n(a, c, v, 0, __ATOMIC_SEQ_CST, __ATOMIC_SEQ_CST); } \
    int __tsan_atomic##N##_compare_exchange_weak(volatile T* a, T* c, T v, int, int) { sync_op((const void*)a); return __atomic_compare_exchange_n(a, c, v, 0, __ATOMIC_SEQ_CST, __ATOMIC_SEQ_CST); } \
    T __tsan_atomic##N##_compare_exchange_val(volatile T* a, T c, T v, int, int) { sync_op((const void*)a); __atomic_compare_exchange_n(a, &c, v, 0, __ATOMIC_SEQ_CST, __ATOMIC_SEQ_CST); return c; }
ATOMICS(8, unsigned char) ATOMICS(16, unsigned short) ATOMICS(32, unsigned int) ATOMICS(64, unsigned long)
void __tsan_atomic_thread_fence(int) { static char fence_obj; sync_op(&fence_obj); }
void __tsan_atomic_signal_fence(int) {}

// ---- static-local guards (Itanium ABI: byte 0 = initialised) ------------------------------------------
int __cxa_guard_acquire(uint64_t* g) {
    unsigned char* b = (unsigned char*)g;
    if (!g_phase) { if (b[0]) return 0; b[1] = 1; return 1; }
    sched_point(true);
    for (;;) {
        if (b[0]) { g_in_runtime = true; sync_acquire(g); g_in_runtime = false; return 0; }
        if (!b[1]) { b[1] = 1; b[2] = (unsigned char)t_self; return 1; }
        // another thread is initialising: block until it releases or aborts
        g_thr[t_self].blocked = true; g_thr[t_self].blocked_on = g;
        sched_point(false);
    }
}
static void guard_wake(uint64_t* g) { for (int t = 1; t < g_nthreads; ++t) if (g_thr[t].blocked && g_thr[t].blocked_on == g) { g_thr[t].blocked = false; g_thr[t].blocked_on = nullptr; } }
void __cxa_guard_release(uint64_t* g) {
    unsigned char* b = (unsigned char*)g;
    b[0] = 1; b[1] = 0;
    if (!g_phase) return;
    g_in_runtime = true; sync_release(g); guard_wake(g); g_in_runtime = false;
    sched_point(true);
}
void __cxa_guard_abort(uint64_t* g) {
    unsigned char* b = (unsigned char*)g; b[1] = 0;
    if (!g_phase) return;
    g_in_runtime = true; guard_wake(g); g_in_runtime = false;
    sched_point(true);
}

} // extern "C"

// ---- allocation tracking: which heap blocks exist before the phase -------------------------------------
static void note_alloc(void* p, size_t n) {
    if (!g_tracking_allocs || g_in_runtime) return;
    g_in_runtime = true; g_live.push_back(Block{(uintptr_t)p, n}); g_in_runtime = false;
}
static void note_free(void* p) {
    if (!p) return;
    if (g_phase && !g_in_runtime) { if (in_pre((uintptr_t)p)) { access((uintptr_t)p, 1, true, __builtin_return_address(0)); if (g_trace) g_trace->freed_shared++; } return; }
    if (!g_tracking_allocs || g_in_runtime) return;
    g_in_runtime = true;
    for (size_t i = g_live.size(); i-- > 0;) if (g_live[i].start == (uintptr_t)p) { g_live[i] = g_live.back(); g_live.pop_back(); break; }
    g_in_runtime = false;
}
void* operator new(size_t n) { void* p = malloc(n ? n : 1); if (!p) throw std::bad_alloc(); note_alloc(p, n); return p; }
void* operator new[](size_t n) { void* p = malloc(n ? n : 1); if (!p) throw std::bad_alloc(); note_alloc(p, n); return p; }
void operator delete(void* p) noexcept { note_free(p); free(p); }
void operator delete[](void* p) noexcept { note_free(p); free(p); }
void operator delete(void* p, size_t) noexcept { note_free(p); free(p); }
void operator delete[](void* p, size_t) noexcept { note_free(p); free(p); }
