// Interface between the C20 harness and the scheduler / race detector runtime (vfsched.cpp).
#pragma once
#include <cstdint>
#include <cstddef>

#define VF_MAX_POINTS 4096
#define VF_MAX_RACES 16

struct vf_point { uint8_t n_enabled, chosen, cur_enabled; };
struct vf_race { uintptr_t addr, pc, other_pc; int tid, other; bool is_write, other_write; int region; size_t block_size, offset; };
struct vf_trace {
    long npoints;
    vf_point points[VF_MAX_POINTS];
    long nraces;
    vf_race races[VF_MAX_RACES];
    long accesses_judged, sync_ops, freed_shared;
    int deadlock, diverged;
    int done;
    char results[8][2048];     // per-thread observation text written by the harness
};

extern "C" {
void vf_set_trace(vf_trace* t, const int* prefix, int prefix_len);
// runs fn(1..n) on n real threads, one at a time, switching only at synchronisation operations
void vf_run_threads(int n, void (*fn)(int));
}
