// Bounded-exhaustive enumeration of JSON trees: every tree with at most N nodes over a
// member-name alphabet and a leaf alphabet, in a canonical simplest-first order, with
// counting and *unranking* (index -> tree), so that the index space can be cut into
// deterministic slices (index mod nslices) for parallel workers.
//
// What is a tree / a node
//   * a leaf is one node: any MV listed in TreeAlphabet::leaves.  Put MV::obj() / MV::arr()
//     into `leaves` if the empty containers are wanted (they are one-node trees);
//   * a non-empty array is one node plus the nodes of its k >= 1 children (any trees, in order);
//   * a non-empty object is one node plus the nodes of its members; member names are distinct and
//     drawn from TreeAlphabet::keys.  With ordered_members == false members appear in alphabet order
//     (one tree per key *set* - right for sorted objects and for order-insensitive comparisons); with
//     ordered_members == true every ordering of the chosen key set is a distinct tree (right for
//     insertion-ordered objects such as ojson).
//
// Order (index 0 first): by node count; within one node count: leaves (alphabet order), then arrays,
// then objects; arrays/objects ordered lexicographically by (first key position,) first child's node
// count, first child's index among trees of that size, then the remaining children.
//
// Usage
//     vf::TreeAlphabet al;  al.keys = {"a","b"};
//     al.leaves = {MV::null(), MV::uint64(1), MV::str("x"), MV::obj(), MV::arr()};
//     vf::TreeEnum te(al, 5);
//     te.size();                       // number of trees with <= 5 nodes
//     te.count_exact(3);               // number with exactly 3 nodes
//     MV t = te.at(i);                 // i-th tree, 0 <= i < te.size()
//     for (uint64_t i = slice; i < te.size(); i += nslices) use(te.at(i));     // deterministic slicing
//     std::vector<MV> all = te.all();  // materialise (pairs: index p = i * size() + j)
// Counts are uint64_t: keep N small enough (N <= ~12 with a handful of keys/leaves) that they fit.
//
// Helpers for signatures / replay: mv_json(tree) renders a tree as RFC 8259 text (members in MV order,
// non-ASCII bytes copied through), mv_nodes(tree) counts nodes with the definition above.
#pragma once
#include "mv.hpp"
#include <algorithm>

namespace vf {

struct TreeAlphabet {
    std::vector<std::string> keys;   // member-name alphabet (distinct strings)
    std::vector<MV> leaves;          // one-node trees
    bool arrays = true;              // generate non-empty arrays
    bool objects = true;             // generate non-empty objects
    bool ordered_members = false;    // see above
    int max_arity = 0;               // > 0: at most this many children per array (objects are bounded by keys.size())
};

class TreeEnum {
public:
    TreeEnum(const TreeAlphabet& a, int max_nodes) : al_(a), N_(max_nodes < 1 ? 1 : max_nodes) {
        K_ = (int)al_.keys.size();
        if (al_.ordered_members && K_ > 16) { fprintf(stderr, "TreeEnum: ordered_members supports at most 16 keys\n"); abort(); }
        nstates_ = al_.ordered_members ? (size_t(1) << K_) : size_t(K_ + 1);
        R_ = al_.max_arity > 0 ? std::min(al_.max_arity, N_) : N_;
        C_.assign(N_ + 1, 0);
        S_.assign(R_ + 1, std::vector<uint64_t>(N_ + 1, 0));
        W_.assign(nstates_, std::vector<uint64_t>(N_ + 1, 0));
        for (int r = 0; r <= R_; ++r) S_[r][0] = 1;
        for (size_t s = 0; s < nstates_; ++s) W_[s][0] = 1;
        C_[1] = al_.leaves.size();
        // tables for total m use C_[1..m]; C_[m+1] uses tables at m
        for (int m = 1; m <= N_; ++m) {
            if (m >= 2) C_[m] = (al_.arrays ? S_[R_][m - 1] : 0) + (al_.objects ? W_[start_state()][m - 1] : 0);
            for (int r = 1; r <= R_; ++r) {
                uint64_t t = 0;
                for (int j = 1; j <= m; ++j) t += C_[j] * S_[r - 1][m - j];
                S_[r][m] = t;
            }
            // member-sequence table: states in an order such that next(state) is already final for totals < m (it only reads totals < m)
            for (size_t s = 0; s < nstates_; ++s) {
                uint64_t t = 0;
                for (int k = 0; k < K_; ++k) {
                    if (!allowed(s, k)) continue;
                    size_t nx = next_state(s, k);
                    for (int j = 1; j <= m; ++j) t += C_[j] * W_[nx][m - j];
                }
                W_[s][m] = t;
            }
        }
        cum_.assign(N_ + 1, 0);
        for (int n = 1; n <= N_; ++n) cum_[n] = cum_[n - 1] + C_[n];
    }

    int max_nodes() const { return N_; }
    uint64_t count_exact(int n) const { return (n >= 1 && n <= N_) ? C_[n] : 0; }
    uint64_t count_upto(int n) const { return n < 1 ? 0 : cum_[std::min(n, N_)]; }
    uint64_t size() const { return cum_[N_]; }

    // node count of the tree with this index
    int nodes_at(uint64_t index) const {
        for (int n = 1; n <= N_; ++n) if (index < cum_[n]) return n;
        return 0;
    }
    // index -> tree (simplest first)
    MV at(uint64_t index) const {
        int n = nodes_at(index);
        if (!n) { fprintf(stderr, "TreeEnum::at: index out of range\n"); abort(); }
        return exact(n, index - cum_[n - 1]);
    }
    // idx-th tree among those with exactly n nodes
    MV exact(int n, uint64_t idx) const {
        if (n == 1) return al_.leaves[(size_t)idx];
        uint64_t na = al_.arrays ? S_[R_][n - 1] : 0;
        if (idx < na) { MV m = MV::arr(); unrank_seq(R_, n - 1, idx, m); return m; }
        idx -= na;
        MV m = MV::obj(); unrank_members(start_state(), n - 1, idx, m); return m;
    }
    std::vector<MV> all() const {
        std::vector<MV> v; v.reserve((size_t)size());
        for (int n = 1; n <= N_; ++n) for (uint64_t i = 0; i < C_[n]; ++i) v.push_back(exact(n, i));
        return v;
    }
    template <class F> void for_slice(int slice, int nslices, F f) const {
        for (uint64_t i = (uint64_t)slice; i < size(); i += (uint64_t)nslices) f(i, at(i));
    }

private:
    TreeAlphabet al_;
    int N_, K_ = 0, R_ = 0;
    size_t nstates_ = 1;
    std::vector<uint64_t> C_, cum_;
    std::vector<std::vector<uint64_t>> S_;   // S_[r][m]: sequences of <= r trees with m nodes in total
    std::vector<std::vector<uint64_t>> W_;   // W_[state][m]: member sequences continuing from `state` with m nodes in total

    size_t start_state() const { return 0; }
    bool allowed(size_t s, int k) const { return al_.ordered_members ? !((s >> k) & 1) : (size_t)k >= s; }
    size_t next_state(size_t s, int k) const { return al_.ordered_members ? (s | (size_t(1) << k)) : size_t(k + 1); }

    void unrank_seq(int r, int m, uint64_t idx, MV& arr) const {
        while (m > 0) {
            bool found = false;
            for (int j = 1; j <= m; ++j) {
                uint64_t rest = S_[r - 1][m - j];
                uint64_t block = C_[j] * rest;
                if (idx < block) { arr.a.push_back(exact(j, idx / rest)); idx %= rest; m -= j; --r; found = true; break; }
                idx -= block;
            }
            if (!found) { fprintf(stderr, "TreeEnum: unrank_seq inconsistent\n"); abort(); }
        }
    }
    void unrank_members(size_t s, int m, uint64_t idx, MV& obj) const {
        while (m > 0) {
            bool found = false;
            for (int k = 0; k < K_ && !found; ++k) {
                if (!allowed(s, k)) continue;
                size_t nx = next_state(s, k);
                for (int j = 1; j <= m; ++j) {
                    uint64_t rest = W_[nx][m - j];
                    uint64_t block = C_[j] * rest;
                    if (idx < block) { obj.o.emplace_back(al_.keys[k], exact(j, idx / rest)); idx %= rest; m -= j; s = nx; found = true; break; }
                    idx -= block;
                }
            }
            if (!found) { fprintf(stderr, "TreeEnum: unrank_members inconsistent\n"); abort(); }
        }
    }
};

// number of nodes of a tree (every value is one node)
inline int mv_nodes(const MV& m) {
    int n = 1;
    for (auto& e : m.a) n += mv_nodes(e);
    for (auto& kv : m.o) n += mv_nodes(kv.second);
    return n;
}

inline void mv_json_str(const std::string& s, std::string& o) {
    o.push_back('"');
    for (unsigned char c : s) {
        if (c == '"') o += "\\\"";
        else if (c == '\\') o += "\\\\";
        else if (c < 0x20) { char b[8]; snprintf(b, sizeof b, "\\u%04x", c); o += b; }
        else o.push_back(char(c));
    }
    o.push_back('"');
}
// RFC 8259 text of a tree made of null/bool/int/uint/string/array/object (doubles: %.17g; other kinds: null)
inline void mv_json(const MV& m, std::string& o) {
    char buf[40];
    switch (m.k) {
        case MV::Null: o += "null"; break;
        case MV::Bool: o += m.b ? "true" : "false"; break;
        case MV::Int: snprintf(buf, sizeof buf, "%lld", (long long)m.i); o += buf; break;
        case MV::UInt: snprintf(buf, sizeof buf, "%llu", (unsigned long long)m.u); o += buf; break;
        case MV::Dbl: snprintf(buf, sizeof buf, "%.17g", m.d()); o += buf; if (!strpbrk(buf, ".eEn")) o += ".0"; break;
        case MV::Str: mv_json_str(m.s, o); break;
        case MV::Arr:
            o.push_back('[');
            for (size_t i = 0; i < m.a.size(); ++i) { if (i) o.push_back(','); mv_json(m.a[i], o); }
            o.push_back(']'); break;
        case MV::Obj:
            o.push_back('{');
            for (size_t i = 0; i < m.o.size(); ++i) { if (i) o.push_back(','); mv_json_str(m.o[i].first, o); o.push_back(':'); mv_json(m.o[i].second, o); }
            o.push_back('}'); break;
        default: o += "null"; break;
    }
}
inline std::string mv_json(const MV& m) { std::string o; mv_json(m, o); return o; }

// canonical form for de-duplication as a JSON value: object members sorted by name, recursively
inline MV mv_sorted(const MV& m) {
    MV r = m;
    for (auto& e : r.a) e = mv_sorted(e);
    for (auto& kv : r.o) kv.second = mv_sorted(kv.second);
    std::sort(r.o.begin(), r.o.end(), [](const std::pair<std::string, MV>& x, const std::pair<std::string, MV>& y) { return x.first < y.first; });
    return r;
}

} // namespace vf
