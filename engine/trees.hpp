// Deterministic enumeration of all model-value trees with a given number of nodes over a
// leaf alphabet and a key alphabet (simplest first).  A leaf, an empty array and an empty
// object each count one node; a container counts one node plus its children.  Object members
// use distinct keys; every ordered selection of distinct keys is produced (ordered objects).
#pragma once
#include "mv.hpp"

namespace vf {

struct TreeEnum {
    std::vector<MV> leaves;
    std::vector<std::string> keys;
    bool ordered_objects = false;     // false: keys of an object in increasing alphabet order only
    std::map<int, std::vector<MV>> memo;

    // all sequences of trees whose node counts sum to total (each >= 1), as lists of children
    void seqs(int total, int maxlen, std::vector<std::vector<MV>>& outv) {
        std::vector<MV> cur;
        rec(total, maxlen, cur, outv);
    }
    void rec(int total, int maxlen, std::vector<MV>& cur, std::vector<std::vector<MV>>& outv) {
        if (total == 0) { outv.push_back(cur); return; }
        if ((int)cur.size() >= maxlen) return;
        for (int k = 1; k <= total; ++k) {
            const auto& ts = exact(k);
            for (const auto& t : ts) { cur.push_back(t); rec(total - k, maxlen, cur, outv); cur.pop_back(); }
        }
    }
    void key_choices(size_t n, std::vector<std::vector<int>>& outv) {
        std::vector<int> cur; std::vector<bool> used(keys.size(), false);
        keyrec(n, cur, used, outv);
    }
    void keyrec(size_t n, std::vector<int>& cur, std::vector<bool>& used, std::vector<std::vector<int>>& outv) {
        if (cur.size() == n) { outv.push_back(cur); return; }
        for (int i = 0; i < (int)keys.size(); ++i) {
            if (used[i]) continue;
            if (!ordered_objects && !cur.empty() && i < cur.back()) continue;
            used[i] = true; cur.push_back(i); keyrec(n, cur, used, outv); cur.pop_back(); used[i] = false;
        }
    }
    const std::vector<MV>& exact(int n) {
        auto it = memo.find(n);
        if (it != memo.end()) return it->second;
        std::vector<MV> v;
        if (n == 1) { v = leaves; v.push_back(MV::arr()); v.push_back(MV::obj()); }
        else {
            std::vector<std::vector<MV>> ch;
            seqs(n - 1, n - 1, ch);
            for (auto& c : ch) { MV a = MV::arr(); a.a = c; v.push_back(a); }
            std::vector<std::vector<MV>> och;
            seqs(n - 1, (int)keys.size(), och);
            for (auto& c : och) {
                std::vector<std::vector<int>> kc; key_choices(c.size(), kc);
                for (auto& ks : kc) { MV o = MV::obj(); for (size_t i = 0; i < c.size(); ++i) o.o.emplace_back(keys[ks[i]], c[i]); v.push_back(o); }
            }
        }
        return memo[n] = v;
    }
    std::vector<MV> upto(int n) { std::vector<MV> v; for (int k = 1; k <= n; ++k) { auto& e = exact(k); v.insert(v.end(), e.begin(), e.end()); } return v; }
};

} // namespace vf
