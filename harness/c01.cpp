// C01 — JSON text round-trip is lossless and canonical.
#include "rfc8259_ref.hpp"
#include "trees.hpp"
#include <jsoncons/json.hpp>
#include <sstream>
#include <cfloat>

using namespace vf;
using jsoncons::json; using jsoncons::ojson; using jsoncons::wjson;

// --- option axes --------------------------------------------------------------------------
struct Axis { const char* name; int nvalues; };
static const Axis AXES[] = {
    {"indent_size", 4}, {"indent_char", 2}, {"colon", 4}, {"comma", 4}, {"pad_obj", 2}, {"pad_arr", 2}, {"newline", 4},
    {"nonascii", 2}, {"solidus", 2}, {"oo", 3}, {"oa", 3}, {"aa", 3}, {"ao", 3}, {"root", 3}, {"limit", 3}};
static const int NAXES = sizeof(AXES) / sizeof(AXES[0]);
typedef std::vector<int> OptVec;   // one value index per axis; 0 = library default

template <class Opt>
static void apply_opts(Opt& o, const OptVec& v) {
    using namespace jsoncons;
    static const uint8_t isz[] = {4, 0, 1, 8};
    static const spaces_option sp[] = {spaces_option::space_after, spaces_option::no_spaces, spaces_option::space_before, spaces_option::space_before_and_after};
    static const line_split_kind ls[] = {line_split_kind::multi_line, line_split_kind::new_line, line_split_kind::same_line};
    static const size_t lim[] = {120, 8, 1};
    if (v[0]) o.indent_size(isz[v[0]]);
    if (v[1]) o.indent_char('\t');
    if (v[2]) o.spaces_around_colon(sp[v[2]]);
    if (v[3]) o.spaces_around_comma(sp[v[3]]);
    if (v[4]) o.pad_inside_object_braces(true);
    if (v[5]) o.pad_inside_array_brackets(true);
    if (v[6]) { typename Opt::string_type nl; if (v[6] == 1) { nl.push_back('\r'); nl.push_back('\n'); } else if (v[6] == 2) nl.push_back('\r'); o.new_line_chars(nl); }
    if (v[7]) o.escape_all_non_ascii(true);
    if (v[8]) o.escape_solidus(true);
    if (v[9]) o.object_object_line_splits(ls[v[9]]);
    if (v[10]) o.object_array_line_splits(ls[v[10]]);
    if (v[11]) o.array_array_line_splits(ls[v[11]]);
    if (v[12]) o.array_object_line_splits(ls[v[12]]);
    if (v[13]) o.root_line_splits(ls[v[13]]);
    if (v[14]) o.line_length_limit(lim[v[14]]);
}
static std::string optstr(const OptVec& v) { std::string s; for (int i = 0; i < NAXES; ++i) s.push_back(char('0' + v[i])); return s; }
static OptVec optparse(const std::string& s) { OptVec v(NAXES, 0); for (int i = 0; i < NAXES && i < (int)s.size(); ++i) v[i] = s[i] - '0'; return v; }

// all option vectors within <= maxdev deviations from the default over the given axes
static void deviations(const std::vector<int>& axes, int maxdev, std::vector<OptVec>& outv) {
    outv.push_back(OptVec(NAXES, 0));
    for (size_t i = 0; i < axes.size(); ++i) for (int a = 1; a < AXES[axes[i]].nvalues; ++a) {
        OptVec v(NAXES, 0); v[axes[i]] = a; outv.push_back(v);
        if (maxdev >= 2) for (size_t j = i + 1; j < axes.size(); ++j) for (int b = 1; b < AXES[axes[j]].nvalues; ++b) { OptVec w = v; w[axes[j]] = b; outv.push_back(w); }
    }
}

static std::string strip_ws(const std::string& t) {
    std::string o; bool in = false;
    for (size_t i = 0; i < t.size(); ++i) {
        char c = t[i];
        if (in) { o.push_back(c); if (c == '\\' && i + 1 < t.size()) { o.push_back(t[++i]); } else if (c == '"') in = false; continue; }
        if (c == '"') { in = true; o.push_back(c); continue; }
        if (c == ' ' || c == '\t' || c == '\n' || c == '\r') continue;
        o.push_back(c);
    }
    return o;
}

enum Mode { M_DUMP = 0, M_PRETTY, M_OSTREAM, M_OSTREAM_PRETTY, M_ENCODE, M_ENCODE_PRETTY, M_NMODES };
static const char* MODE_NAME[] = {"dump", "dump_pretty", "ostream", "ostream_pretty", "encode_json", "encode_json_pretty"};

template <class Json>
static std::string serialize(const Json& j, Mode m, const OptVec& ov) {
    jsoncons::json_options o; apply_opts(o, ov);
    std::string s;
    switch (m) {
        case M_DUMP: j.dump(s, o); break;
        case M_PRETTY: j.dump_pretty(s, o); break;
        case M_OSTREAM: { std::ostringstream os; os << jsoncons::print(j, o); s = os.str(); break; }
        case M_OSTREAM_PRETTY: { std::ostringstream os; os << jsoncons::pretty_print(j, o); s = os.str(); break; }
        case M_ENCODE: jsoncons::encode_json(j, s, o, jsoncons::indenting::no_indent); break;
        case M_ENCODE_PRETTY: jsoncons::encode_json(j, s, o, jsoncons::indenting::indent); break;
        default: break;
    }
    return s;
}

static long long g_eval = 0, g_nontrivial = 0;

template <class Json> struct TName { static const char* get() { return "json"; } };
template <> struct TName<ojson> { static const char* get() { return "ojson"; } };

// the full oracle for one (value, mode, options)
template <class Json>
static void check_value(const std::string& sigbase, const MV& m, unsigned modes, const OptVec& ov, bool sorted) {
    Json j = from_mv<Json>(m);
    MV orig = to_mv(j);       // (keys sorted for json)
    std::string compact_ref;
    for (int md = 0; md < M_NMODES; ++md) {
        if (!(modes & (1u << md))) continue;
        ++g_eval;
        std::string sig = sigbase + "|" + TName<Json>::get() + "|" + MODE_NAME[md] + "|" + optstr(ov);
        std::string what = std::string(TName<Json>::get()) + " " + MODE_NAME[md] + " opts=" + optstr(ov) + " value=" + mv_text(orig) + " :: ";
        std::string text;
        try { text = serialize(j, Mode(md), ov); }
        catch (const std::exception& e) { out().viol(sig, what + "serialization threw " + e.what()); continue; }
        // (iv) the independent reference accepts the text and yields the same value
        RefResult rr = ref_parse(text);
        MVCmp c; c.order_insensitive = sorted; c.num_by_value = true; c.zero_sign = false;   // (the sign of zero is judged by C04) int64 vs uint64 storage of the same integer is not a distinction the statement makes
        if (!rr.ok) { out().viol(sig, what + "output is not RFC 8259 text: " + text); continue; }
        if (!rr.value_unspecified && !mv_eq(rr.v, orig, c)) { out().viol(sig, what + "text denotes " + mv_text(rr.v) + " per RFC 8259; text=" + text); continue; }
        // (i) parse back
        Json back;
        try { back = Json::parse(text); } catch (const std::exception& e) { out().viol(sig, what + "own parser rejects the output (" + e.what() + "): " + text); continue; }
        MV mb = to_mv(back);
        MVCmp strict; strict.num_by_value = true; strict.zero_sign = false;
        if (!mv_eq(mb, orig, strict)) { out().viol(sig, what + "parsed back as " + mv_text(mb) + "; text=" + text); continue; }
        // (ii) canonical: serializing the re-parsed value reproduces the text
        std::string again = serialize(back, Mode(md), ov);
        if (again != text) { out().viol(sig, what + "re-serialization differs: first=" + text + " second=" + again); continue; }
        // (iii) pretty printing only adds whitespace between tokens
        std::string st = strip_ws(text);
        if (compact_ref.empty()) { compact_ref = strip_ws(serialize(j, M_DUMP, ov)); }
        if (st != compact_ref) { out().viol(sig, what + "differs from the compact form by more than inter-token whitespace: " + text + " vs compact " + compact_ref); continue; }
    }
}

// --- part 1: the escaper over Unicode ---------------------------------------------------------
static std::string expected_escape(uint32_t cp, bool nonascii, bool solidus) {
    static const char* H = "0123456789ABCDEF";
    auto u4 = [&](uint32_t x) { std::string s = "\\u"; s.push_back(H[(x >> 12) & 15]); s.push_back(H[(x >> 8) & 15]); s.push_back(H[(x >> 4) & 15]); s.push_back(H[x & 15]); return s; };
    switch (cp) {
        case '"': return "\\\""; case '\\': return "\\\\"; case '\b': return "\\b"; case '\f': return "\\f"; case '\n': return "\\n"; case '\r': return "\\r"; case '\t': return "\\t";
        default: break;
    }
    if (cp == '/' && solidus) return "\\/";
    if (cp <= 0x1f || cp == 0x7f) return u4(cp);
    if (cp >= 0x80 && nonascii) {
        if (cp > 0xffff) { uint32_t x = cp - 0x10000; return u4(0xD800 + (x >> 10)) + u4(0xDC00 + (x & 0x3ff)); }
        return u4(cp);
    }
    std::string s; put_utf8(s, cp); return s;
}
static void check_codepoint(uint32_t cp) {
    std::string ch; put_utf8(ch, cp);
    for (int na = 0; na < 2; ++na) for (int so = 0; so < 2; ++so) {
        OptVec ov(NAXES, 0); ov[7] = na; ov[8] = so;
        std::string esc = expected_escape(cp, na, so);
        char sb[16]; snprintf(sb, sizeof sb, "U+%04X", cp);
        // as a value
        { json j(ch); std::string t; ++g_eval; jsoncons::json_options o; apply_opts(o, ov); j.dump(t, o);
          if (t != "\"" + esc + "\"") out().viol(std::string("E|v|") + sb + "|" + optstr(ov), std::string(sb) + " as string value: got " + t + " expected \"" + esc + "\"");
          else { MV m = MV::str(ch); check_value<json>(std::string("E|") + sb, m, 1u << M_PRETTY, ov, true); } }
        // as a member name
        { json j; j.try_emplace(ch, 1); std::string t; ++g_eval; jsoncons::json_options o; apply_opts(o, ov); j.dump(t, o);
          if (t != "{\"" + esc + "\":1}") out().viol(std::string("E|k|") + sb + "|" + optstr(ov), std::string(sb) + " as member name: got " + t + " expected {\"" + esc + "\":1}");
          else { MV m = MV::obj(); m.o.emplace_back(ch, MV::int64(1)); RefResult rr = ref_parse(t); if (!rr.ok || rr.v.o.size() != 1 || rr.v.o[0].first != ch) out().viol(std::string("E|kr|") + sb + "|" + optstr(ov), std::string(sb) + " member name does not read back per RFC 8259: " + t); } }
        // wchar_t
        if (na == 0 && so == 0) { std::wstring w(1, wchar_t(cp)); wjson j(w); std::wstring t; j.dump(t); wjson b = wjson::parse(t); ++g_eval;
          if (to_utf8(b.as_string_view()) != ch) out().viol(std::string("E|w|") + sb, std::string(sb) + " wjson round trip changed the character"); }
    }
    ++g_nontrivial;
}

// --- value sets ---------------------------------------------------------------------------------
static std::vector<MV> string_values() {
    std::vector<std::string> sym = {"a", "\"", "\\", "/", "\b", "\f", "\n", "\r", "\t", "\x01", "\x1f", "\x7f", "\xc3\xa9", "\xe2\x82\xac", "\xf0\x9f\x98\x80", "\xe2\x80\xa8"};
    std::vector<MV> v;
    v.push_back(MV::str(""));
    for (auto& a : sym) { v.push_back(MV::str(a)); for (auto& b : sym) { v.push_back(MV::str(a + b)); } }
    for (auto& a : sym) for (auto& b : sym) for (auto& c : sym) v.push_back(MV::str(a + b + c));
    size_t n = v.size();
    for (size_t i = 0; i < n; i += 7) v.push_back(MV::str(std::string("0123456789abcdefghij") + v[i].s));   // heap storage
    return v;
}
static std::vector<MV> number_values() {
    std::vector<MV> v;
    for (int64_t x : {INT64_MIN, INT64_MIN + 1, int64_t(-4294967297LL), int64_t(-1), int64_t(0), int64_t(1), int64_t(9007199254740993LL), INT64_MAX}) v.push_back(MV::int64(x));
    for (uint64_t x : {uint64_t(0), uint64_t(1), uint64_t(9223372036854775807ULL), uint64_t(9223372036854775808ULL), UINT64_MAX}) v.push_back(MV::uint64(x));
    for (double d : {0.0, -0.0, 1.0, -1.0, 0.1, 1.5, 1e21, 1e-7, 123456789012345680.0, DBL_MAX, -DBL_MAX, DBL_MIN, 4.9406564584124654e-324, 2.2250738585072009e-308, 1e22, 1e23, 5e-324, 0.3, 2.0/3.0, 1e15, 1e16, 1e17, 123456.789, 100.0, 1e100})
        { v.push_back(MV::dbl(d)); if (d > 0) v.push_back(MV::dbl(-d)); }
    // doubles on which the shortest-digits fast path gives up (the fallback formats them) and every power of two
    // (the one place where the rounding interval is asymmetric), both signs
    for (double d : {7.2905070478438485e+34, 70299877727020456.0, 9.5e-305, 1.2345678901234567e+300, 8.41e21, 5.0e-310})
        { v.push_back(MV::dbl(d)); v.push_back(MV::dbl(-d)); }
    for (int e = -1074; e <= 1023; ++e) { double d = std::ldexp(1.0, e); v.push_back(MV::dbl(d)); v.push_back(MV::dbl(-d)); }
    int BI = int(jsoncons::semantic_tag::bigint), BD = int(jsoncons::semantic_tag::bigdec);
    v.push_back(MV::str("18446744073709551616", BI)); v.push_back(MV::str("-9223372036854775809", BI)); v.push_back(MV::str("123456789012345678901234567890123456789", BI));
    v.push_back(MV::str("1e400", BD)); v.push_back(MV::str("-1.5e-400", BD)); v.push_back(MV::str("1.5E+400", BD));
    return v;
}

template <class Json>
static void run_values(const std::vector<MV>& vals, const std::string& cat, const std::vector<OptVec>& opts, unsigned modes, int slice, int nslices, bool sorted) {
    for (size_t i = 0; i < vals.size(); ++i) {
        if ((int)(i % nslices) != slice) continue;
        for (auto& ov : opts) check_value<Json>(cat + "|" + std::to_string(i), vals[i], modes, ov, sorted);
        ++g_nontrivial;
        if (i % 997 == 0) out().sample(cat + " #" + std::to_string(i) + " " + mv_text(vals[i]));
    }
}

static TreeEnum make_trees(bool ordered) {
    TreeEnum te; te.ordered_objects = ordered;
    te.leaves = {MV::null(), MV::uint64(1), MV::str("s"), MV::str("a string of thirty characters..")};
    te.keys = {"a", "b"};
    return te;
}
// wrap values in a container so that strings/numbers are exercised inside arrays and objects too
static std::vector<MV> wrap(const std::vector<MV>& v) {
    std::vector<MV> o;
    for (auto& m : v) { o.push_back(m); MV a = MV::arr(); a.a.push_back(m); a.a.push_back(MV::null()); o.push_back(a); MV ob = MV::obj(); ob.o.emplace_back("k", m); o.push_back(ob); }
    return o;
}

static std::vector<OptVec> layout_opts() {
    // (a) all 3^5 line-split combinations x line_length_limit
    std::vector<OptVec> v;
    for (int a = 0; a < 3; ++a) for (int b = 0; b < 3; ++b) for (int c = 0; c < 3; ++c) for (int d = 0; d < 3; ++d) for (int e = 0; e < 3; ++e) for (int l = 0; l < 3; ++l) {
        OptVec o(NAXES, 0); o[9] = a; o[10] = b; o[11] = c; o[12] = d; o[13] = e; o[14] = l; v.push_back(o);
    }
    return v;
}

static void replay(const std::string& sig);

int main(int argc, char** argv) {
    Args a(argc, argv);
    if (a.replay) { replay(a.sig); out().flush(); return 0; }
    std::string mode = a.a.empty() ? "" : a.a[0];
    bool thorough = a.get("tier", "quick") == "thorough";
    const unsigned ALLM = (1u << M_NMODES) - 1;
    if (mode == "escape") {
        // every scalar value (thorough) / the BMP and every plane boundary +-2 (quick)
        uint32_t idx = 0;
        for (uint32_t cp = 0; cp <= 0x10FFFF; ++cp) {
            if (cp >= 0xD800 && cp <= 0xDFFF) continue;
            if (!thorough && cp > 0xFFFF) { uint32_t low = cp & 0xFFFF; if (!(low <= 2 || low >= 0xFFFD)) continue; }
            if ((int)(idx++ % (uint32_t)a.nslices) != a.slice) continue;
            check_codepoint(cp);
        }
    } else if (mode == "strings") {
        std::vector<int> axes = {7, 8};
        std::vector<OptVec> opts; deviations(axes, 2, opts);
        auto vals = wrap(string_values());
        run_values<json>(vals, "S", opts, ALLM, a.slice, a.nslices, true);
        run_values<ojson>(vals, "S", opts, (1u << M_DUMP) | (1u << M_PRETTY), a.slice, a.nslices, false);
    } else if (mode == "numbers") {
        std::vector<OptVec> opts; opts.push_back(OptVec(NAXES, 0));
        auto vals = wrap(number_values());
        run_values<json>(vals, "N", opts, ALLM, a.slice, a.nslices, true);
        run_values<ojson>(vals, "N", opts, ALLM, a.slice, a.nslices, false);
    } else if (mode == "layout") {
        int N = (int)a.geti("N", 5);
        auto opts = layout_opts();
        { TreeEnum te = make_trees(false); auto vals = te.upto(N); run_values<json>(vals, "L" + std::to_string(N), opts, (1u << M_PRETTY) | (1u << M_OSTREAM_PRETTY), a.slice, a.nslices, true); if (a.slice == 0) out().gauge("trees_json", (long long)vals.size()); }
        { TreeEnum te = make_trees(true); auto vals = te.upto(N - 1); run_values<ojson>(vals, "LO" + std::to_string(N - 1), opts, (1u << M_PRETTY), a.slice, a.nslices, false); if (a.slice == 0) out().gauge("trees_ojson", (long long)vals.size()); }
    } else if (mode == "options") {
        int N = (int)a.geti("N", 4);
        std::vector<int> axes = {0, 1, 2, 3, 4, 5, 6, 7, 8};
        std::vector<OptVec> opts; deviations(axes, 2, opts);
        { TreeEnum te = make_trees(false); auto vals = te.upto(N); run_values<json>(vals, "O" + std::to_string(N), opts, (1u << M_DUMP) | (1u << M_PRETTY) | (1u << M_ENCODE_PRETTY), a.slice, a.nslices, true); }
        { TreeEnum te = make_trees(true); auto vals = te.upto(N - 1); run_values<ojson>(vals, "OO" + std::to_string(N - 1), opts, (1u << M_PRETTY), a.slice, a.nslices, false); }
        if (a.slice == 0) out().gauge("option_sets", (long long)opts.size());
    }
    out().count("evaluations", g_eval);
    out().count("nontrivial", g_nontrivial);
    out().cls(mode);
    out().flush();
    return 0;
}

static void replay(const std::string& sig) {
    auto p = split(sig, '|');
    if (p[0] == "E") {   // E|..|U+XXXX|...
        for (auto& f : p) if (f.compare(0, 2, "U+") == 0) { check_codepoint((uint32_t)strtoul(f.c_str() + 2, nullptr, 16)); return; }
        return;
    }
    if (p.size() < 5) return;
    // <cat>|<index>|<type>|<mode>|<opts>
    std::string cat = p[0]; size_t idx = atoll(p[1].c_str()); std::string type = p[2], mname = p[3]; OptVec ov = optparse(p[4]);
    int md = -1; for (int i = 0; i < M_NMODES; ++i) if (mname == MODE_NAME[i]) md = i;
    if (md < 0) return;
    std::vector<MV> vals;
    if (cat == "S") vals = wrap(string_values());
    else if (cat == "N") vals = wrap(number_values());
    else if (cat[0] == 'L' || cat[0] == 'O') {
        bool ordered = cat.size() > 1 && cat[1] == 'O';
        int N = atoi(cat.c_str() + (ordered ? 2 : 1));
        TreeEnum te = make_trees(ordered); vals = te.upto(N);
    }
    if (idx >= vals.size()) return;
    if (type == "json") check_value<json>(cat + "|" + p[1], vals[idx], 1u << md, ov, true);
    else check_value<ojson>(cat + "|" + p[1], vals[idx], 1u << md, ov, false);
}
