// C02 — the JSON parser accepts exactly RFC 8259 and yields the specified value.
// (A) bounded-exhaustive texts over a character alphabet and a token alphabet,
//     through several entry points and option sets, against the reference parser.
// (B) product search: real json_parser fed one character per update() in lock
//     step with the reference pushdown automaton, BFS de-duplicated on the pair.
#include "rfc8259_ref.hpp"
#include <jsoncons/json.hpp>
#include <deque>
#include <unordered_map>
#include <unordered_set>

using namespace vf;
using jsoncons::json; using jsoncons::ojson; using jsoncons::wjson;

static const std::vector<std::string> SIGMA_C = {
    "{", "}", "[", "]", ",", ":", "\"", "\\", "/", "*", "0", "1", "-", "+", ".", "e", "E", " ", "\n", "\t",
    "t", "r", "u", "f", "a", "l", "s", "n", "x", "\x01"};
static const std::vector<std::string> SIGMA_T = {
    "{", "}", "[", "]", ",", ":", "\"a\"", "\"b\"", "\"\"", "\"\\n\"", "\"\xc3\xa9\"", "\"\\ud83d\\ude00\"", "\"\\/\"",
    "0", "-1", "1.5", "1e2", "1E+2", "true", "false", "null", " ", "/*c*/", "//c\n"};

// comment sub-automaton alphabet (slash, slash_slash, slash_star, slash_star_star states)
static const std::vector<std::string> SIGMA_K = {"/", "*", "\n", "\r", "c", "1", "[", "]", " ", ","};

enum { O_COMMENTS = 1, O_TRAILING = 2, O_DEPTH2 = 4, O_LOSSLESS_NUM = 8, O_NO_LOSSLESS_BIG = 16 };

static jsoncons::json_options mkopts(int bits) {
    jsoncons::json_options o;
    o.allow_comments((bits & O_COMMENTS) != 0);
    o.allow_trailing_comma((bits & O_TRAILING) != 0);
    o.max_nesting_depth((bits & O_DEPTH2) ? 2 : 1024);
    o.lossless_number((bits & O_LOSSLESS_NUM) != 0);
    o.lossless_bignum((bits & O_NO_LOSSLESS_BIG) == 0);
    return o;
}
static jsoncons::wjson_options mkwopts(int bits) {
    jsoncons::wjson_options o;
    o.allow_comments((bits & O_COMMENTS) != 0);
    o.allow_trailing_comma((bits & O_TRAILING) != 0);
    o.max_nesting_depth((bits & O_DEPTH2) ? 2 : 1024);
    o.lossless_number((bits & O_LOSSLESS_NUM) != 0);
    o.lossless_bignum((bits & O_NO_LOSSLESS_BIG) == 0);
    return o;
}
static RefOpts mkref(int bits) {
    RefOpts r;
    r.comments = bits & O_COMMENTS; r.trailing_comma = bits & O_TRAILING; r.max_depth = (bits & O_DEPTH2) ? 2 : 1024;
    r.lossless_number = bits & O_LOSSLESS_NUM; r.lossless_bignum = !(bits & O_NO_LOSSLESS_BIG);
    return r;
}

struct Outcome { bool ok = false; MV v; std::string err; };

enum Entry { E_PARSER = 0, E_PARSE, E_READER, E_OPARSE, E_WPARSE, E_ISTREAM, E_NENTRIES };
static const char* ENTRY_NAME[] = {"parser", "parse", "reader", "oparse", "wparse", "istream"};

// a reusable parser per option set (reinitialize() between texts, as a reader does between documents)
struct ParserSlot { std::unique_ptr<jsoncons::json_parser> p; };
static ParserSlot g_parsers[32];

static Outcome run_entry(Entry e, const std::string& text, int bits) {
    Outcome o;
    try {
        switch (e) {
            case E_PARSER: {
                auto& slot = g_parsers[bits];
                if (!slot.p) slot.p.reset(new jsoncons::json_parser(mkopts(bits)));
                jsoncons::json_parser& p = *slot.p;
                p.reinitialize();
                jsoncons::json_decoder<json> dec;
                std::error_code ec;
                p.update(text.data(), text.size());
                p.parse_some(dec, ec);
                if (!ec) p.finish_parse(dec, ec);
                if (!ec) p.check_done(ec);
                if (ec) { o.err = ec.message(); return o; }
                if (!dec.is_valid()) { o.err = "decoder-not-valid"; return o; }
                o.ok = true; o.v = to_mv(dec.get_result());
                return o;
            }
            case E_PARSE: { json j = json::parse(jsoncons::string_view(text.data(), text.size()), mkopts(bits)); o.ok = true; o.v = to_mv(j); return o; }
            case E_OPARSE: { ojson j = ojson::parse(jsoncons::string_view(text.data(), text.size()), mkopts(bits)); o.ok = true; o.v = to_mv(j); return o; }
            case E_READER: {
                jsoncons::json_decoder<json> dec;
                jsoncons::json_string_reader rd(text, dec, mkopts(bits));
                rd.read();
                if (!dec.is_valid()) { o.err = "decoder-not-valid"; return o; }
                o.ok = true; o.v = to_mv(dec.get_result()); return o;
            }
            case E_ISTREAM: {
                std::istringstream is(text);
                json j = json::parse(is, mkopts(bits)); o.ok = true; o.v = to_mv(j); return o;
            }
            case E_WPARSE: {
                std::wstring w;
                for (size_t i = 0; i < text.size();) {  // decode UTF-8 (inputs are valid UTF-8 by construction)
                    unsigned char c = text[i]; uint32_t cp; int n;
                    if (c < 0x80) { cp = c; n = 1; } else if (c < 0xE0) { cp = c & 0x1F; n = 2; } else if (c < 0xF0) { cp = c & 0x0F; n = 3; } else { cp = c & 7; n = 4; }
                    for (int k = 1; k < n; ++k) cp = (cp << 6) | (text[i + k] & 0x3F);
                    w.push_back(wchar_t(cp)); i += n;
                }
                wjson j = wjson::parse(jsoncons::wstring_view(w.data(), w.size()), mkwopts(bits)); o.ok = true; o.v = to_mv(j); return o;
            }
            default: break;
        }
    } catch (const jsoncons::ser_error& ex) { o.err = ex.code().message(); }
    catch (const std::exception& ex) { o.err = std::string("foreign:") + ex.what(); }
    return o;
}

static long long g_eval = 0, g_accept = 0, g_unspec = 0;

static void check_text(const std::string& text, int bits, unsigned entries) {
    RefResult ref = ref_parse(text, mkref(bits));
    if (ref.unspecified) { ++g_unspec; return; }
    for (int e = 0; e < E_NENTRIES; ++e) {
        if (!(entries & (1u << e))) continue;
        ++g_eval;
        Outcome o = run_entry(Entry(e), text, bits);
        std::string why;
        if (o.ok != ref.ok) why = o.ok ? "accepted a text RFC 8259 rejects" : ("rejected a conforming text: " + o.err);
        else if (o.ok && !ref.value_unspecified) {
            MVCmp c; c.order_insensitive = (e != E_OPARSE);
            if (!mv_eq(o.v, ref.v, c)) why = "value differs: impl=" + mv_text(o.v) + " ref=" + mv_text(ref.v);
        }
        if (!why.empty()) out().viol("A|" + std::to_string(bits) + "|" + ENTRY_NAME[e] + "|" + hex(text), "text=" + text + " opts=" + std::to_string(bits) + " entry=" + ENTRY_NAME[e] + " :: " + why);
    }
    if (ref.ok) { ++g_accept; if (g_accept % 50021 == 1) out().sample("A text=" + text + " opts=" + std::to_string(bits) + " -> " + mv_text(ref.v)); }
    out().cls(std::string(ref.ok ? "accept" : (ref.depth_exceeded ? "reject-depth" : "reject")) + (ref.used_comment ? "+comment" : "") + (ref.used_trailing_comma ? "+tcomma" : ""));
}

// enumerate all sequences over `sigma` of length exactly len whose index (as a base-|sigma| number) falls in this slice
static void enum_len(const std::vector<std::string>& sigma, int len, int slice, int nslices, const std::vector<int>& optsets, unsigned entries) {
    if (len == 0) { if (slice == 0) for (int b : optsets) check_text("", b, entries); return; }
    size_t n = sigma.size();
    // slice on the first min(len,2) symbols
    int pre = len >= 2 ? 2 : 1;
    size_t npre = pre == 2 ? n * n : n;
    std::vector<int> idx(len, 0);
    std::string text;
    for (size_t pi = 0; pi < npre; ++pi) {
        if ((int)(pi % nslices) != slice) continue;
        if (pre == 2) { idx[0] = pi / n; idx[1] = pi % n; } else idx[0] = pi;
        for (int k = pre; k < len; ++k) idx[k] = 0;
        for (;;) {
            text.clear();
            for (int k = 0; k < len; ++k) text += sigma[idx[k]];
            for (int b : optsets) check_text(text, b, entries);
            int k = len - 1;
            while (k >= pre && ++idx[k] == (int)n) { idx[k] = 0; --k; }
            if (k < pre) break;
        }
    }
}

// (U) raw bytes inside strings: every byte sequence of length len over `sigma` (all 256 byte values, or class representatives of
// the UTF-8 lead/continuation ranges), as a string value, a member name, an array element and between ASCII characters
static void enum_utf8(const std::vector<std::string>& sigma, int len, int slice, int nslices, const std::vector<int>& optsets, unsigned entries) {
    static const std::pair<std::string, std::string> ctx[] = {{"\"", "\""}, {"{\"", "\":0}"}, {"[\"a", "a\"]"}};
    size_t n = sigma.size();
    std::vector<int> idx(len, 0);
    std::string body;
    for (size_t first = 0; first < n; ++first) {
        if ((int)(first % nslices) != slice) continue;
        idx[0] = (int)first; for (int k = 1; k < len; ++k) idx[k] = 0;
        for (;;) {
            body.clear();
            for (int k = 0; k < len; ++k) body += sigma[idx[k]];
            for (auto& c : ctx) for (int b : optsets) check_text(c.first + body + c.second, b, entries);
            int k = len - 1;
            while (k >= 1 && ++idx[k] == (int)n) { idx[k] = 0; --k; }
            if (k < 1) break;
        }
    }
}

// ---------------------------------------------------------------------------
// (B) product search
struct Impl {
    jsoncons::json_parser p;
    jsoncons::json_decoder<json> dec;   // a real consumer, so events are actually delivered
    bool err = false;
    Impl(int depth) : p([&] { jsoncons::json_options o; o.allow_comments(false); o.allow_trailing_comma(false); o.max_nesting_depth(depth); return o; }()) {}
    void feed(char c) {
        if (err) return;
        std::error_code ec;
        char buf[1] = {c};
        p.update(buf, 1);
        if (!p.stopped()) {
            p.parse_some(dec, ec);
            if (ec) { err = true; return; }
        }
        if (!p.source_exhausted()) {   // parser finished the document before consuming c: reader hands the rest to check_done
            p.check_done(ec);
            if (ec) { err = true; return; }
        }
    }
    bool eof_accepts() {
        if (err) return false;
        std::error_code ec;
        char dummy = 0; p.update(&dummy, 0);   // no more input
        if (!p.stopped()) { p.parse_some(dec, ec); if (ec) return false; }
        if (!p.finished() ) { p.finish_parse(dec, ec); if (ec) return false; }
        p.check_done(ec);
        if (ec) return false;
        return p.accept() && dec.is_valid();
    }
    std::string key() const {
        if (err) return "ERR";
        std::string k;
        k += char('a' + int(p.state_)); k += char('a' + int(p.string_state_)); k += char('a' + int(p.number_state_));
        k += p.more_ ? 'M' : 'm'; k += p.done_ ? 'D' : 'd';
        k += char('0' + p.level_);
        k += '/';
        for (auto s : p.state_stack_) k += char('a' + int(s));
        return k;
    }
};

static void run_B(int depth) {
    std::vector<std::string> sigma = SIGMA_C;
    struct Node { std::string path; };
    std::unordered_map<std::string, int> seen;
    std::deque<std::string> frontier;
    auto build = [&](const std::string& path, Impl& im, RefPDA& pda) {
        pda.max_depth = depth;
        for (char c : path) { im.feed(c); pda.step((unsigned char)c); }
    };
    {
        Impl im(depth); RefPDA pda; pda.max_depth = depth;
        seen[im.key() + "#" + pda.keystr()] = 0;
        frontier.push_back("");
    }
    long long transitions = 0, eofs = 0, states_dead_ref = 0;
    size_t maxlen = 0;
    std::set<std::string> implstates, refstates;
    while (!frontier.empty()) {
        std::string path = frontier.front(); frontier.pop_front();
        maxlen = std::max(maxlen, path.size());
        // replay and assert that the canonical key is reproducible
        std::string k1, k2;
        { Impl im(depth); RefPDA pda; build(path, im, pda); k1 = im.key() + "#" + pda.keystr();
          implstates.insert(im.key()); refstates.insert(pda.keystr());
          if (pda.dead()) ++states_dead_ref;
          // end-of-input transition
          bool ia = im.eof_accepts(); bool ra = pda.accepting(); ++eofs;
          if (ia != ra) out().viol("B|" + hex(path) + "|EOF", "prefix=" + path + " at end of input: impl " + (ia ? "accepts" : "rejects") + ", RFC 8259 " + (ra ? "accepts" : "rejects") + " (one character per update)");
        }
        { Impl im(depth); RefPDA pda; build(path, im, pda); k2 = im.key() + "#" + pda.keystr(); }
        if (k1 != k2) { out().error("B: canonical key not reproducible for path " + path); return; }
        for (auto& sym : sigma) {
            Impl im(depth); RefPDA pda; build(path, im, pda);
            if (im.err) break;  // absorbing
            im.feed(sym[0]); pda.step((unsigned char)sym[0]);
            ++transitions;
            std::string np = path + sym;
            if (im.err && !pda.dead())
                out().viol("B|" + hex(path) + "|" + hex(sym), "prefix=" + np + " is a viable RFC 8259 prefix but the parser reports an error (one character per update)");
            std::string k = im.key() + "#" + pda.keystr();
            if (!seen.count(k)) { seen[k] = (int)np.size(); if (!im.err) frontier.push_back(np); }
        }
        if (seen.size() > 2000000) { out().error("B: state space exceeded 2e6 states"); return; }
    }
    out().count("states", (long long)seen.size());
    out().count("transitions", transitions + eofs);
    out().count("traces_validated", transitions + eofs);
    out().count("B_eof_transitions", eofs);
    out().count("B_states_with_dead_reference", states_dead_ref);
    out().gauge("B_impl_states", (long long)implstates.size());
    out().gauge("B_ref_states", (long long)refstates.size());
    out().gauge("B_longest_shortest_path", (long long)maxlen);
    out().sample("B: product BFS depth=" + std::to_string(depth) + " states=" + std::to_string(seen.size()));
}

static bool replay(const std::string& sig) {
    auto parts = split(sig, '|');
    if (parts[0] == "A" && parts.size() == 4) {
        int bits = atoi(parts[1].c_str());
        int e = -1; for (int i = 0; i < E_NENTRIES; ++i) if (parts[2] == ENTRY_NAME[i]) e = i;
        if (e < 0) return false;
        check_text(unhex(parts[3]), bits, 1u << e);
        return true;
    }
    if (parts[0] == "B" && parts.size() == 3) {
        std::string path = unhex(parts[1]);
        int depth = 3;
        Impl im(depth); RefPDA pda; pda.max_depth = depth;
        for (char c : path) { im.feed(c); pda.step((unsigned char)c); }
        if (parts[2] == "EOF") {
            bool ia = im.eof_accepts(), ra = pda.accepting();
            if (ia != ra) out().viol(sig, "prefix=" + path + " at end of input: impl " + (ia ? "accepts" : "rejects") + ", RFC 8259 " + (ra ? "accepts" : "rejects") + " (one character per update)");
        } else {
            std::string sym = unhex(parts[2]);
            im.feed(sym[0]); pda.step((unsigned char)sym[0]);
            if (im.err && !pda.dead()) out().viol(sig, "prefix=" + path + sym + " is a viable RFC 8259 prefix but the parser reports an error (one character per update)");
        }
        return true;
    }
    return false;
}

int main(int argc, char** argv) {
    Args a(argc, argv);
    if (a.replay) { replay(a.sig); out().flush(); return 0; }
    std::string mode = a.a.empty() ? "" : a.a[0];
    if (mode == "chars" || mode == "tokens" || mode == "comments") {
        const auto& sigma = mode == "chars" ? SIGMA_C : (mode == "tokens" ? SIGMA_T : SIGMA_K);
        int L = (int)a.geti("L", 4);
        int from = (int)a.geti("from", 0);
        std::vector<int> optsets;
        for (auto& s : split(a.get("opts", "0"), ',')) optsets.push_back(atoi(s.c_str()));
        unsigned entries = (unsigned)a.geti("entries", 1);
        for (int len = from; len <= L; ++len) enum_len(sigma, len, a.slice, a.nslices, optsets, entries);
        out().count("evaluations", g_eval);
        out().count("nontrivial", g_accept);
        out().count("unspecified_abstained", g_unspec);
    } else if (mode == "utf8") {
        std::vector<std::string> all, reps;
        for (int b = 0; b < 256; ++b) all.push_back(std::string(1, char(b)));
        for (int b : {0x22, 0x5c, 0x61, 0x7f, 0x80, 0x8f, 0x90, 0x9f, 0xa0, 0xbf, 0xc0, 0xc1, 0xc2, 0xdf, 0xe0, 0xe1, 0xec, 0xed, 0xee, 0xef, 0xf0, 0xf1, 0xf3, 0xf4, 0xf5, 0xf7, 0xf8, 0xff}) reps.push_back(std::string(1, char(b)));
        int L = (int)a.geti("L", 2), R = (int)a.geti("R", 4);
        std::vector<int> optsets;
        for (auto& s : split(a.get("opts", "0"), ',')) optsets.push_back(atoi(s.c_str()));
        unsigned entries = (unsigned)a.geti("entries", 47);
        for (int len = 1; len <= L; ++len) enum_utf8(all, len, a.slice, a.nslices, optsets, entries);
        for (int len = L + 1; len <= R; ++len) enum_utf8(reps, len, a.slice, a.nslices, optsets, entries);
        out().count("evaluations", g_eval);
        out().count("nontrivial", g_accept);
        out().count("unspecified_abstained", g_unspec);
    } else if (mode == "cgaps") {
        // every token sequence of <= L tokens over a structural alphabet, with one comment of each form inserted at every gap, under
        // "comments on" with and without "trailing comma": a comment relaxes nothing but itself (in particular it does not hide a trailing comma)
        static const std::vector<std::string> toks = {"{", "}", "[", "]", ",", ":", "\"a\"", "1"};
        static const std::vector<std::string> comments = {"/*c*/", "//c\n", "/**/"};
        int L = (int)a.geti("L", 6);
        std::vector<int> optsets; for (auto& s : split(a.get("opts", "1,3"), ',')) optsets.push_back(atoi(s.c_str()));
        unsigned entries = (unsigned)a.geti("entries", 1);
        long long idx = 0;
        for (int len = 1; len <= L; ++len) {
            std::vector<int> d(len, 0);
            for (;;) {
                if ((int)(idx++ % a.nslices) == a.slice) {
                    for (int gap = 0; gap <= len; ++gap) for (auto& c : comments) {
                        std::string t; for (int k = 0; k < len; ++k) { if (k == gap) t += c; t += toks[d[k]]; } if (gap == len) t += c;
                        for (int b : optsets) check_text(t, b, entries);
                    }
                }
                int k = len - 1; while (k >= 0 && ++d[k] == (int)toks.size()) { d[k] = 0; --k; }
                if (k < 0) break;
            }
        }
        out().count("evaluations", g_eval);
        out().count("nontrivial", g_accept);
        out().count("unspecified_abstained", g_unspec);
    } else if (mode == "wide") {
        // objects of n members with duplicate names at positions i < j (< k): the first occurrence wins whatever the size of the
        // object and the arrangement of the names (the sorted-object builder sorts, then drops duplicates)
        int N = (int)a.geti("N", 40);
        unsigned entries = (unsigned)a.geti("entries", 63);
        long long idx = 0;
        for (int n = 2; n <= N; ++n) for (int order = 0; order < 4; ++order) {
            std::vector<int> perm(n);
            for (int i = 0; i < n; ++i) perm[i] = order == 0 ? i : (order == 1 ? n - 1 - i : (order == 2 ? (i % 2 ? n - 1 - i / 2 : i / 2) : (int)((i * 7LL + 3) % n)));
            if (order == 3 && n % 7 == 0) continue;
            auto emit = [&](const std::vector<int>& names) {
                if ((int)(idx++ % a.nslices) != a.slice) return;
                std::string t = "{";
                for (int i = 0; i < n; ++i) { char b[48]; snprintf(b, sizeof b, "%s\"k%02d\":%d", i ? "," : "", names[i], i); t += b; }
                t += "}";
                check_text(t, 0, entries);
            };
            for (int i = 0; i < n; ++i) for (int j = i + 1; j < n; ++j) {
                std::vector<int> names(perm); names[j] = names[i]; emit(names);
                if (j + 1 < n) { int k = n - 1; std::vector<int> n3(names); n3[k] = names[i]; emit(n3); }
            }
            { std::vector<int> names(n, 5); emit(names); }
            { std::vector<int> names(perm); for (int i = n / 2; i < n; ++i) names[i] = perm[i - n / 2]; emit(names); }   // second half repeats the first
        }
        out().count("evaluations", g_eval);
        out().count("nontrivial", g_accept);
    } else if (mode == "B") {
        if (a.slice == 0) run_B((int)a.geti("depth", 3));
    } else { fprintf(stderr, "usage\n"); return 2; }
    out().flush();
    return 0;
}
