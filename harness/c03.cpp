// C03 — decoding does not depend on how the input is delivered.
// Every input (valid, invalid, truncated) is delivered in every composition into
// chunks (or every <=2-cut chunking for longer inputs) to: the incremental parser,
// json_reader and json_cursor over a scripted source (eager and lazy eof), stream
// sources of every buffer size, iterator sources; and read through several access
// modes (visitor, decoder, cursor next, read_to at every event, filter view, staj
// iterators).  Oracle: identical events and identical error code.
#include "record_visitor.hpp"
#include "rfc8259_ref.hpp"
#include <jsoncons/json.hpp>
#include <jsoncons/json_cursor.hpp>
#include <jsoncons/staj_iterator.hpp>
#include <sstream>

using namespace vf;
using jsoncons::json;

static const std::vector<std::string> SIGMA_C = {
    "{", "}", "[", "]", ",", ":", "\"", "\\", "/", "*", "0", "1", "-", "+", ".", "e", "E", " ", "\n", "\t",
    "t", "r", "u", "f", "a", "l", "s", "n", "x", "\x01", "\r"};
static const std::vector<std::string> SIGMA_T = {
    "{", "}", "[", "]", ",", ":", "\"a\"", "\"b\\n\"", "\"\"", "\"\xc3\xa9\"", "\"\\ud83d\\ude00\"", "\"\xf0\x9f\x98\x80\"",
    "0", "-1", "-12.5e+10", "1E2", "true", "false", "null", " ", "\r\n", "/*c\r\n*/", "//c\r\n", "123456789012345678901", "1e400"};

// ---------------------------------------------------------------------------
// a source that hands out exactly the chunks it is told to; every chunk lives in its own
// heap block that is freed when the next chunk is requested (stale pointers become ASan reports)
struct ScriptedSource {
    using value_type = char;
    std::string text;
    std::vector<size_t> sizes;   // chunk sizes, summing to text.size()
    size_t idx = 0, pos = 0;
    bool lazy_eof = false;       // eof only known after an empty read
    bool saw_empty = false;
    std::unique_ptr<char[]> cur;
    ScriptedSource() = default;
    ScriptedSource(const std::string& t, const std::vector<size_t>& s, bool lazy) : text(t), sizes(s), lazy_eof(lazy) {}
    ScriptedSource(ScriptedSource&&) = default;
    ScriptedSource& operator=(ScriptedSource&&) = default;
    bool eof() const { return pos >= text.size() && (!lazy_eof || saw_empty); }
    bool is_error() const { return false; }
    jsoncons::span<const char> read_chunk() {
        if (pos >= text.size()) { saw_empty = true; return jsoncons::span<const char>(); }
        size_t n = idx < sizes.size() ? sizes[idx++] : text.size() - pos;
        if (n > text.size() - pos) n = text.size() - pos;
        cur.reset(new char[n ? n : 1]);
        memcpy(cur.get(), text.data() + pos, n);
        pos += n;
        return jsoncons::span<const char>(cur.get(), n);
    }
};

struct Outcome {
    std::string ev;      // events delivered
    std::string err;     // error_code message, "" on success
    // on success the event sequence must be identical; on failure the property demands the same error kind only
    // (how many events of the failing document were already delivered is not part of the statement)
    bool operator==(const Outcome& o) const { if (!err.empty() || !o.err.empty()) return err == o.err; return ev == o.ev; }
    bool operator!=(const Outcome& o) const { return !(*this == o); }
    std::string str() const { return "[" + ev + "] err=" + (err.empty() ? "none" : err); }
};

static jsoncons::json_options g_opts;
static std::set<std::string> g_suspended;   // (state, number_state, string_state) triples seen at chunk boundaries
static long long g_eval = 0;

static std::string errs(const std::error_code& ec) { return ec ? ec.message() : std::string(); }

// (0) reference: the whole text in one buffer, the way basic_json::parse drives the parser
static Outcome one_buffer(const std::string& t) {
    Outcome o; Rec rec; std::error_code ec;
    jsoncons::json_parser p(g_opts);
    p.update(t.data(), t.size());
    p.parse_some(rec, ec);
    if (!ec) p.finish_parse(rec, ec);
    if (!ec) p.check_done(ec);
    o.ev = rec.ev; o.err = errs(ec);
    return o;
}

// (1) incremental parser, one update() per chunk, driven the way json_reader drives it
static Outcome parser_chunks(const std::string& t, const std::vector<size_t>& sizes, bool record_states) {
    Outcome o; Rec rec; std::error_code ec;
    jsoncons::json_parser p(g_opts);
    size_t pos = 0, k = 0;
    std::unique_ptr<char[]> cur;
    bool finished_doc = false;
    while (pos < t.size()) {
        size_t n = k < sizes.size() ? sizes[k++] : t.size() - pos;
        cur.reset(new char[n ? n : 1]);
        memcpy(cur.get(), t.data() + pos, n); pos += n;
        p.update(cur.get(), n);
        if (!p.stopped()) { p.parse_some(rec, ec); if (ec) break; }
        if (p.stopped() && !p.source_exhausted()) { p.check_done(ec); if (ec) break; }
        if (record_states && !p.stopped() && pos < t.size()) {
            g_suspended.insert(std::to_string(int(p.state_)) + "/" + (p.state_ == jsoncons::parse_state::number ? std::to_string(int(p.number_state_)) : "-") + "/" + (p.state_ == jsoncons::parse_state::string ? std::to_string(int(p.string_state_)) : "-"));
        }
    }
    (void)finished_doc;
    if (!ec) { char d = 0; p.update(&d, 0); p.finish_parse(rec, ec); }
    if (!ec) p.check_done(ec);
    o.ev = rec.ev; o.err = errs(ec);
    return o;
}

// (2) json_reader over a scripted source
static Outcome reader_scripted(const std::string& t, const std::vector<size_t>& sizes, bool lazy) {
    Outcome o; Rec rec; std::error_code ec;
    jsoncons::basic_json_reader<char, ScriptedSource> rd(ScriptedSource(t, sizes, lazy), rec, g_opts);
    rd.read(ec);
    o.ev = rec.ev; o.err = errs(ec);
    return o;
}

// (3) json_cursor over a scripted source: next() loop; optionally read_to at event index `rt`;
// read_to is exercised on value and begin events (on an end event there is nothing to read; a key on its own is not a value:
// the binary cursors' generic data model has no key event to forward)
static bool is_end(jsoncons::staj_events t) { return t == jsoncons::staj_events::end_array || t == jsoncons::staj_events::end_object || t == jsoncons::staj_events::key; }
template <class Cursor>
static Outcome drain_cursor(Cursor& c, std::error_code ec, int rt) {
    Outcome o;
    int i = 0;
    while (!ec && !c.done()) {
        if (i == rt && !is_end(c.current().event_type())) {
            Rec rec; c.read_to(rec, ec);
            if (!rec.ev.empty()) { if (!o.ev.empty()) o.ev += ' '; o.ev += rec.ev; }
            if (ec) break;
        } else record_staj(o.ev, c.current());
        ++i;
        c.next(ec);
    }
    if (!ec) c.check_done(ec);
    o.err = errs(ec);
    return o;
}
static Outcome cursor_scripted(const std::string& t, const std::vector<size_t>& sizes, bool lazy, int rt) {
    std::error_code ec;
    jsoncons::basic_json_cursor<char, ScriptedSource> c(ScriptedSource(t, sizes, lazy), g_opts, ec);
    return drain_cursor(c, ec, rt);
}
static Outcome cursor_string(const std::string& t, int rt) {
    std::error_code ec;
    jsoncons::json_string_cursor c(t, g_opts, ec);
    return drain_cursor(c, ec, rt);
}
// (4) stream sources with buffer size k
static Outcome reader_stream(const std::string& t, size_t k) {
    Outcome o; Rec rec; std::error_code ec;
    std::istringstream is(t);
    jsoncons::json_stream_reader rd(jsoncons::stream_source<char>(is, k), rec, g_opts);
    rd.read(ec);
    o.ev = rec.ev; o.err = errs(ec);
    return o;
}
static Outcome cursor_stream(const std::string& t, size_t k, int rt) {
    std::error_code ec;
    std::istringstream is(t);
    jsoncons::json_stream_cursor c(jsoncons::stream_source<char>(is, k), g_opts, ec);
    return drain_cursor(c, ec, rt);
}
// a streambuf that underflows one byte at a time
struct OneByteBuf : std::streambuf {
    std::string data; size_t pos = 0; char ch;
    OneByteBuf(const std::string& d) : data(d) {}
    int_type underflow() override { if (pos >= data.size()) return traits_type::eof(); ch = data[pos++]; setg(&ch, &ch, &ch + 1); return traits_type::to_int_type(ch); }
};
static Outcome reader_onebyte(const std::string& t) {
    Outcome o; Rec rec; std::error_code ec;
    OneByteBuf sb(t); std::istream is(&sb);
    jsoncons::json_stream_reader rd(is, rec, g_opts);
    rd.read(ec);
    o.ev = rec.ev; o.err = errs(ec);
    return o;
}
static Outcome reader_iter(const std::string& t, size_t k) {
    Outcome o; Rec rec; std::error_code ec;
    using It = std::string::const_iterator;
    jsoncons::basic_json_reader<char, jsoncons::iterator_source<It>> rd(jsoncons::iterator_source<It>(t.begin(), t.end(), k), rec, g_opts);
    rd.read(ec);
    o.ev = rec.ev; o.err = errs(ec);
    return o;
}

// the cursor constructors turn unexpected_eof before the first event into a silently done cursor (by design,
// in all eight constructors): normalise "no events, no error" to what the other modes report for such inputs
static Outcome norm_cursor(const Outcome& c, const Outcome& ref) {
    if (c.ev.empty() && c.err.empty() && ref.ev.empty() && ref.err == "Unexpected end of file") return ref;
    return c;
}

static void report(const std::string& mode, const std::string& t, const std::vector<size_t>& sizes, const Outcome& got, const Outcome& want, const std::string& what) {
    std::string cs; for (size_t s : sizes) { if (!cs.empty()) cs += ","; cs += std::to_string(s); }
    out().viol("D|" + mode + "|" + hex(t) + "|" + cs, "text=" + t + " chunks=" + cs + " mode=" + mode + " :: " + what + " got " + got.str() + " want " + want.str());
}

static int count_events(const std::string& ev) { if (ev.empty()) return 0; int n = 1; for (char c : ev) if (c == ' ') ++n; return n; }

// all checks for one text under one chunking
static void check_delivery(const std::string& t, const std::vector<size_t>& sizes, const Outcome& ref, const Outcome& cref, unsigned modes) {
    if (modes & 1) { ++g_eval; Outcome o = parser_chunks(t, sizes, true); if (o != ref) report("parser", t, sizes, o, ref, "incremental parser differs from one-buffer parse:"); }
    for (int lazy = 0; lazy < 2; ++lazy) {
        if (modes & 2) { ++g_eval; Outcome o = reader_scripted(t, sizes, lazy); if (o != ref) report(lazy ? "reader-lazy" : "reader", t, sizes, o, ref, "json_reader over chunked source differs from one-buffer parse:"); }
        if (modes & 4) { ++g_eval; Outcome o = cursor_scripted(t, sizes, lazy, -1); if (o != cref) report(lazy ? "cursor-lazy" : "cursor", t, sizes, o, cref, "json_cursor over chunked source differs from string cursor:"); }
    }
    if (modes & 8) {
        int nev = count_events(cref.ev);
        for (int rt = 0; rt < nev && rt < 8; ++rt) {
            ++g_eval;
            Outcome want = cursor_string(t, rt);
            Outcome o = cursor_scripted(t, sizes, false, rt);
            if (o != want) report("cursor-readto" + std::to_string(rt), t, sizes, o, want, "read_to over chunked source differs from read_to over one buffer:");
        }
    }
}

// every access mode on one text in its canonical delivery
static void check_modes(const std::string& t, const Outcome& ref, Outcome& cref_out) {
    std::vector<size_t> none;
    ++g_eval;
    Outcome cref = cursor_string(t, -1);
    cref_out = cref;
    Outcome cn = norm_cursor(cref, ref);
    if (cn != ref) report("cursor-vs-parser", t, none, cref, ref, "cursor events/error differ from push parser:");
    // read_to at every event index must reproduce the same event sequence
    int nev = count_events(cref.ev);
    for (int rt = 0; rt < nev && rt < 12; ++rt) {
        ++g_eval;
        Outcome o = cursor_string(t, rt);
        if (o != cref) report("readto" + std::to_string(rt), t, none, o, cref, "read_to at event index changes the event sequence:");
    }
    // stream sources of every buffer size, iterator source, one-byte streambuf
    for (size_t k = 1; k <= t.size() + 1; ++k) {
        ++g_eval; Outcome o = reader_stream(t, k); if (o != ref) report("stream-reader" + std::to_string(k), t, none, o, ref, "json_stream_reader differs:");
        ++g_eval; Outcome c = cursor_stream(t, k, -1); if (c != cref) report("stream-cursor" + std::to_string(k), t, none, c, cref, "json_stream_cursor differs from string cursor:");
        ++g_eval; Outcome it = reader_iter(t, k); if (it != ref) report("iter-reader" + std::to_string(k), t, none, it, ref, "reader over iterator_source differs:");
    }
    { ++g_eval; Outcome o = reader_onebyte(t); if (o != ref) report("onebyte-reader", t, none, o, ref, "reader over a one-byte streambuf differs:"); }
    // decoder result vs events (push parser with decoder) and json::parse on all source kinds
    {
        ++g_eval;
        std::string dv, de;
        try { json j = json::parse(t, g_opts); dv = mv_text(to_mv(j)); } catch (const jsoncons::ser_error& e) { de = e.code().message(); }
        std::string sv, se;
        try { std::istringstream is(t); json j = json::parse(is, g_opts); sv = mv_text(to_mv(j)); } catch (const jsoncons::ser_error& e) { se = e.code().message(); }
        std::string iv, ie;
        try { json j = json::parse(t.begin(), t.end(), g_opts); iv = mv_text(to_mv(j)); } catch (const jsoncons::ser_error& e) { ie = e.code().message(); }
        if (de != ref.err) report("parse-string", t, none, Outcome{dv, de}, ref, "json::parse(string) error differs from parser:");
        if (sv != dv || se != de) report("parse-istream", t, none, Outcome{sv, se}, Outcome{dv, de}, "json::parse(istream) differs from json::parse(string):");
        if (iv != dv || ie != de) report("parse-iter", t, none, Outcome{iv, ie}, Outcome{dv, de}, "json::parse(first,last) differs from json::parse(string):");
        // cursor + decode via staj iterators for array / object roots
        if (de.empty() && !dv.empty()) {
            json whole = json::parse(t, g_opts);
            if (whole.is_array()) {
                std::error_code ec; jsoncons::json_string_cursor c(t, g_opts, ec);
                std::string got = "[";
                if (!ec) { auto it = jsoncons::staj_array_iterator<json>(c, ec); bool first = true; for (; !ec && it != jsoncons::staj_array_iterator<json>(); it.increment(ec)) { if (!first) got += ","; first = false; got += mv_text(to_mv(*it)); } }
                got += "]";
                if (ec || got != dv) report("staj-array", t, none, Outcome{got, errs(ec)}, Outcome{dv, ""}, "staj_array_iterator elements differ from decoded value:");
            } else if (whole.is_object() ) {
                std::error_code ec; jsoncons::json_string_cursor c(t, g_opts, ec);
                jsoncons::ojson got(jsoncons::json_object_arg);
                json sorted(jsoncons::json_object_arg);
                if (!ec) { auto it = jsoncons::staj_object_iterator<std::string, json>(c, ec); for (; !ec && it != jsoncons::staj_object_iterator<std::string, json>(); it.increment(ec)) { sorted.try_emplace(it->first, it->second); } }
                std::string g = mv_text(to_mv(sorted));
                if (ec || g != dv) report("staj-object", t, none, Outcome{g, errs(ec)}, Outcome{dv, ""}, "staj_object_iterator members differ from decoded value (first duplicate wins):");
            }
            // the same iterators over a stream cursor with every buffer size (keys and values then live in buffers that are refilled
            // and in the parser's token buffer, not in one stable string)
            for (size_t k = 1; k <= t.size() + 1; ++k) {
                ++g_eval;
                std::error_code ec; std::istringstream is(t);
                jsoncons::json_stream_cursor c(jsoncons::stream_source<char>(is, k), g_opts, ec);
                if (whole.is_array()) {
                    std::string got = "[";
                    if (!ec) { auto it = jsoncons::staj_array_iterator<json>(c, ec); bool first = true; for (; !ec && it != jsoncons::staj_array_iterator<json>(); it.increment(ec)) { if (!first) got += ","; first = false; got += mv_text(to_mv(*it)); } }
                    got += "]";
                    if (ec || got != dv) { report("staj-array-stream" + std::to_string(k), t, none, Outcome{got, errs(ec)}, Outcome{dv, ""}, "staj_array_iterator over a stream cursor differs from the decoded value:"); break; }
                } else if (whole.is_object()) {
                    json sorted(jsoncons::json_object_arg);
                    if (!ec) { auto it = jsoncons::staj_object_iterator<std::string, json>(c, ec); for (; !ec && it != jsoncons::staj_object_iterator<std::string, json>(); it.increment(ec)) { sorted.try_emplace(it->first, it->second); } }
                    std::string g = mv_text(to_mv(sorted));
                    if (ec || g != dv) { report("staj-object-stream" + std::to_string(k), t, none, Outcome{g, errs(ec)}, Outcome{dv, ""}, "staj_object_iterator over a stream cursor differs from the decoded value:"); break; }
                } else break;
            }
            // filtered view: drop nothing -> same events; drop keys -> events minus keys
            {
                std::error_code ec; jsoncons::json_string_cursor c(t, g_opts, ec);
                auto view = c | [](const jsoncons::staj_event& e, const jsoncons::ser_context&) { return e.event_type() != jsoncons::staj_events::key; };
                std::string got;
                while (!ec && !view.done()) { record_staj(got, view.current()); view.next(ec); }
                std::string want; { std::string cur; for (auto& w : split(cref.ev, ' ')) { if (w.compare(0, 2, "k:") == 0) continue; if (!want.empty()) want += ' '; want += w; } }
                if (ec || got != want) report("filter-view", t, none, Outcome{got, errs(ec)}, Outcome{want, ""}, "filtered cursor view differs from filtered event sequence:");
            }
        }
    }
}

// enumerate compositions of n: bitmask over n-1 cut positions
static void sizes_from_mask(size_t n, unsigned mask, std::vector<size_t>& sizes) {
    sizes.clear(); size_t run = 1;
    for (size_t i = 0; i + 1 < n; ++i) { if (mask & (1u << i)) { sizes.push_back(run); run = 1; } else ++run; }
    sizes.push_back(run);
}

static long long g_nontrivial = 0;

static void check_text(const std::string& t, int maxcuts /* -1: all compositions */, unsigned modes, bool all_modes) {
    Outcome ref = one_buffer(t);
    ++g_eval;
    Outcome cref;
    if (all_modes) check_modes(t, ref, cref); else cref = cursor_string(t, -1);
    size_t n = t.size();
    std::vector<size_t> sizes;
    if (n >= 2) {
        if (maxcuts < 0 && n <= 12) {
            for (unsigned m = 1; m < (1u << (n - 1)); ++m) { sizes_from_mask(n, m, sizes); check_delivery(t, sizes, ref, cref, modes); }
        } else {
            int mc = maxcuts < 0 ? 2 : maxcuts;
            for (size_t a = 1; a < n; ++a) {
                sizes = {a, n - a}; check_delivery(t, sizes, ref, cref, modes);
                if (mc >= 2) for (size_t b = a + 1; b < n; ++b) { sizes = {a, b - a, n - b}; check_delivery(t, sizes, ref, cref, modes); }
            }
            for (size_t k = 1; k < n; ++k) { sizes.clear(); for (size_t p = 0; p < n; p += k) sizes.push_back(std::min(k, n - p)); check_delivery(t, sizes, ref, cref, modes); }
        }
    }
    if (ref.err.empty()) ++g_nontrivial;
    out().cls(ref.err.empty() ? "ok" : ("err:" + ref.err));
    if (ref.err.empty() && (g_nontrivial % 9973) == 1) out().sample("text=" + t + " events=" + ref.ev);
}

static void enum_seqs(const std::vector<std::string>& sigma, int len, int slice, int nslices, int maxcuts, unsigned modes, bool all_modes) {
    size_t n = sigma.size();
    if (len == 0) { if (slice == 0) check_text("", maxcuts, modes, all_modes); return; }
    int pre = len >= 2 ? 2 : 1;
    size_t npre = pre == 2 ? n * n : n;
    std::vector<int> idx(len, 0);
    std::string text;
    for (size_t pi = 0; pi < npre; ++pi) {
        if ((int)(pi % nslices) != slice) continue;
        if (pre == 2) { idx[0] = pi / n; idx[1] = pi % n; } else idx[0] = pi;
        for (int k = pre; k < len; ++k) idx[k] = 0;
        for (;;) {
            text.clear();
            for (int k = 0; k < len; ++k) text += sigma[idx[k]];
            check_text(text, maxcuts, modes, all_modes);
            int k = len - 1;
            while (k >= pre && ++idx[k] == (int)n) { idx[k] = 0; --k; }
            if (k < pre) break;
        }
    }
}

static void replay(const std::string& sig) {
    auto p = split(sig, '|');
    if (p.size() < 4 || p[0] != "D") return;
    std::string t = unhex(p[2]);
    // re-run everything for this text; the violation for (mode, chunks) reappears with the same signature
    std::vector<size_t> sizes; if (!p[3].empty()) for (auto& s : split(p[3], ',')) sizes.push_back(atoll(s.c_str()));
    Outcome ref = one_buffer(t); Outcome cref;
    if (sizes.empty()) check_modes(t, ref, cref);
    else { cref = cursor_string(t, -1); check_delivery(t, sizes, ref, cref, 15); }
}

int main(int argc, char** argv) {
    Args a(argc, argv);
    g_opts.allow_comments(true);
    if (a.replay) {
        // option set is part of the signature's mode suffix? no: replay under both option sets
        for (int oc = 0; oc < 2; ++oc) { g_opts.allow_comments(oc == 0); replay(a.sig); }
        out().flush(); return 0;
    }
    std::string mode = a.a.empty() ? "" : a.a[0];
    g_opts.allow_comments(a.geti("comments", 1) != 0);
    g_opts.allow_trailing_comma(a.geti("tcomma", 0) != 0);
    int L = (int)a.geti("L", 3), from = (int)a.geti("from", 0);
    int maxcuts = (int)a.geti("cuts", -1);
    unsigned modes = (unsigned)a.geti("modes", 7);
    bool all_modes = a.geti("allmodes", 0) != 0;
    if (mode == "pairs") {
        // every ordered pair of items in every position two values can follow each other: what a suspended first item leaves behind
        // (escape state, number state, buffered text) must not reach the second.  All 1- and 2-cut deliveries and all regular chunk sizes.
        static const std::vector<std::string> strs = {"\"a\"", "\"b\\n\"", "\"\\\\\"", "\"\\u00e9x\"", "\"\\ud83d\\ude00\"", "\"\xc3\xa9\"", "\"\"", "\"q\\\"\""};
        static const std::vector<std::string> others = {"0", "-1", "1.5", "-12.5e+10", "1E2", "123456789012345678901", "true", "false", "null", "[]", "{}"};
        std::vector<std::string> items(strs); items.insert(items.end(), others.begin(), others.end());
        long long idx = 0;
        for (auto& x : items) for (auto& y : items) {
            std::vector<std::string> docs = {"[" + x + "," + y + "]", "{\"k\":" + x + ",\"j\":" + y + "}", "[" + x + " ,\n" + y + " ]"};
            if (x[0] == '"') { docs.push_back("{" + x + ":" + y + "}"); docs.push_back("[{" + x + ":1}," + y + "]"); }
            for (auto& d : docs) { if ((int)(idx++ % a.nslices) != a.slice) continue; check_text(d, 2, modes, all_modes); }
        }
    } else {
    const auto& sigma = mode == "tokens" ? SIGMA_T : SIGMA_C;
    for (int len = from; len <= L; ++len) enum_seqs(sigma, len, a.slice, a.nslices, maxcuts, modes, all_modes);
    }
    out().count("evaluations", g_eval);
    out().count("nontrivial", g_nontrivial);
    for (auto& s : g_suspended) out().cls("suspended:" + s);
    out().flush();
    return 0;
}
