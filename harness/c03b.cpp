// C03 (binary formats and CSV): the same bytes through bytes_source, stream_source(k) for
// every buffer size k, iterator_source(k), istream / iterator decode entry points, reader
// and cursor (next loop, read_to at every event index) must give the same events / value
// on success and the same error code on failure.
#include "record_visitor.hpp"
#include <jsoncons/json.hpp>
#include <jsoncons_ext/cbor/cbor.hpp>
#include <jsoncons_ext/msgpack/msgpack.hpp>
#include <jsoncons_ext/ubjson/ubjson.hpp>
#include <jsoncons_ext/bson/bson.hpp>
#include <jsoncons_ext/csv/csv.hpp>
#include <sstream>

using namespace vf;
using jsoncons::json;
using Bytes = std::vector<uint8_t>;

struct Outcome {
    std::string ev, err;
    bool operator==(const Outcome& o) const { if (!err.empty() || !o.err.empty()) return err == o.err; return ev == o.ev; }
    bool operator!=(const Outcome& o) const { return !(*this == o); }
    std::string str() const { return "[" + ev + "] err=" + (err.empty() ? "none" : err); }
};
static std::string errs(const std::error_code& ec) { return ec ? ec.message() : std::string(); }
static long long g_eval = 0, g_nontrivial = 0;

// an exception escaping an error_code API is an outcome of its own here (judged by C05); C03 only demands it be the same for every delivery
#define SAFE(OUTVAR, ...) try { __VA_ARGS__ } catch (const std::exception& e_) { OUTVAR.ev.clear(); OUTVAR.err = std::string("EXC:") + e_.what(); }
static int count_events(const std::string& ev) { if (ev.empty()) return 0; int n = 1; for (char c : ev) if (c == ' ') ++n; return n; }

static void report(const std::string& fmt, const std::string& mode, const Bytes& b, const Outcome& got, const Outcome& want) {
    out().viol("B|" + fmt + "|" + mode + "|" + hex(b), fmt + " input=" + hex(b) + " mode=" + mode + " :: got " + got.str() + " want " + want.str());
}

// read_to is exercised on value and begin events (on an end event there is nothing to read; a key on its own is not a value:
// the binary cursors' generic data model has no key event to forward)
static bool is_end(jsoncons::staj_events t) { return t == jsoncons::staj_events::end_array || t == jsoncons::staj_events::end_object || t == jsoncons::staj_events::key; }
template <class Cursor>
static Outcome drain(Cursor& c, std::error_code ec, int rt) {
    Outcome o; int i = 0;
    while (!ec && !c.done()) {
        if (i == rt && !is_end(c.current().event_type())) { Rec rec; c.read_to(rec, ec); if (!rec.ev.empty()) { if (!o.ev.empty()) o.ev += ' '; o.ev += rec.ev; } if (ec) break; }
        else record_staj(o.ev, c.current());
        ++i; c.next(ec);
    }
    o.err = errs(ec);
    return o;
}

struct ByteBuf : std::streambuf {   // plain in-memory streambuf over bytes
    ByteBuf(const Bytes& b) { char* p = (char*)b.data(); setg(p, p, p + b.size()); }
};

template <class F> static Outcome safe(F f) {
    try { return f(); } catch (const std::exception& e) { return Outcome{"", std::string("EXC:") + e.what()}; }
}

#define DEFINE_FORMAT(NS, NAME, DECODE)                                                                         \
    static void check_##NAME(const Bytes& b, bool deep) {                                                       \
        using namespace jsoncons::NS;                                                                           \
        using It = Bytes::const_iterator;                                                                       \
        Outcome ref = safe([&] { Rec rec; std::error_code ec; basic_##NAME##_reader<jsoncons::bytes_source> rd(b, rec); rd.read(ec); return Outcome{rec.ev, errs(ec)}; }); ++g_eval; \
        Outcome cref = safe([&] { std::error_code ec; basic_##NAME##_cursor<jsoncons::bytes_source> c(b, ec); return drain(c, ec, -1); }); ++g_eval; \
        /* maps with non-text keys (cursor 'id' events / keys that are containers) are outside the statement: abstain */ \
        if (cref.ev.find('?') != std::string::npos) { out().count("abstained_nontext_keys"); return; }          \
        if (cref != ref) report(#NAME, "cursor-vs-reader", b, cref, ref);                                       \
        int nev = count_events(cref.ev);                                                                        \
        if (cref.err.empty()) for (int rt = 0; rt < nev && rt < 10; ++rt) {                                     \
            Outcome o = safe([&] { std::error_code ec; basic_##NAME##_cursor<jsoncons::bytes_source> c(b, ec); return drain(c, ec, rt); }); ++g_eval; \
            if (o != cref) report(#NAME, "readto" + std::to_string(rt), b, o, cref);                            \
        }                                                                                                       \
        size_t kmax = deep ? b.size() + 1 : std::min<size_t>(b.size() + 1, 4);                                  \
        for (size_t k = 1; k <= kmax; ++k) {                                                                    \
            { Outcome o = safe([&] { ByteBuf sb(b); std::istream is(&sb); Rec rec; std::error_code ec;          \
                basic_##NAME##_reader<jsoncons::binary_stream_source> rd(jsoncons::binary_stream_source(is, k), rec); rd.read(ec); return Outcome{rec.ev, errs(ec)}; }); \
              ++g_eval; if (o != ref) report(#NAME, "stream-reader" + std::to_string(k), b, o, ref); }          \
            { Outcome o = safe([&] { ByteBuf sb(b); std::istream is(&sb); std::error_code ec;                   \
                basic_##NAME##_cursor<jsoncons::binary_stream_source> c(jsoncons::binary_stream_source(is, k), ec); return drain(c, ec, -1); }); \
              ++g_eval; if (o != cref) report(#NAME, "stream-cursor" + std::to_string(k), b, o, cref); }        \
            { Outcome o = safe([&] { Rec rec; std::error_code ec;                                               \
                basic_##NAME##_reader<jsoncons::iterator_source<It>> rd(jsoncons::iterator_source<It>(b.begin(), b.end(), k), rec); rd.read(ec); return Outcome{rec.ev, errs(ec)}; }); \
              ++g_eval; if (o != ref) report(#NAME, "iter-reader" + std::to_string(k), b, o, ref); }            \
            if (deep && cref.err.empty() && nev > 1) { int rt = int(k % nev);                                   \
              Outcome o = safe([&] { ByteBuf sb(b); std::istream is(&sb); std::error_code ec;                   \
                basic_##NAME##_cursor<jsoncons::binary_stream_source> c(jsoncons::binary_stream_source(is, k), ec); return drain(c, ec, rt); }); \
              ++g_eval; if (o != cref) report(#NAME, "stream-cursor-readto" + std::to_string(k), b, o, cref); } \
        }                                                                                                       \
        /* decode entry points: value or error must agree across bytes / istream / iterators */                 \
        { Outcome o1 = safe([&] { auto r = try_##DECODE<json>(b); return Outcome{r ? mv_text(to_mv(*r)) : "", r ? "" : r.error().code().message()}; }); ++g_eval; \
          Outcome o2 = safe([&] { ByteBuf sb(b); std::istream is(&sb); auto r = try_##DECODE<json>(is); return Outcome{r ? mv_text(to_mv(*r)) : "", r ? "" : r.error().code().message()}; }); \
          Outcome o3 = safe([&] { auto r = try_##DECODE<json>(b.begin(), b.end()); return Outcome{r ? mv_text(to_mv(*r)) : "", r ? "" : r.error().code().message()}; }); \
          if (o2 != o1) report(#NAME, "decode-istream", b, o2, o1);                                             \
          if (o3 != o1) report(#NAME, "decode-iter", b, o3, o1);                                                \
          if (o1.err.empty()) { ++g_nontrivial; if (g_nontrivial % 4001 == 1) out().sample(std::string(#NAME) + " " + hex(b) + " -> " + o1.ev); } \
          out().cls(std::string(#NAME) + (o1.err.empty() ? ":ok" : ":err:" + o1.err)); }                        \
    }

DEFINE_FORMAT(cbor, cbor, decode_cbor)
DEFINE_FORMAT(msgpack, msgpack, decode_msgpack)
DEFINE_FORMAT(ubjson, ubjson, decode_ubjson)
DEFINE_FORMAT(bson, bson, decode_bson)

// ---------------------------------------------------------------------------
static std::vector<json> sample_values() {
    std::vector<json> v;
    const char* texts[] = {
        "null", "true", "0", "-1", "23", "24", "255", "256", "65535", "65536", "4294967296", "-25", "-257", "-65537", "1.5", "1e300",
        "\"\"", "\"a\"", "\"hello world, this is a string longer than 31 bytes!\"", "\"\xc3\xa9\xf0\x9f\x98\x80\"",
        "[]", "[1,2,3]", "[[],[[]],{}]", "{}", "{\"a\":1}", "{\"a\":[1,{\"b\":null}],\"c\":\"x\"}",
        "[1.5,2.5,-0.0]", "[\"a\",\"a\",\"aaaa\",\"aaaa\"]", "{\"k\":{\"k\":{\"k\":[true,false]}}}",
        "[18446744073709551615,-9223372036854775808]"};
    for (auto t : texts) v.push_back(json::parse(t));
    v.push_back(json(jsoncons::byte_string_arg, Bytes{1, 2, 3}));
    v.push_back(json(jsoncons::byte_string_arg, Bytes{}, jsoncons::semantic_tag::base64));
    v.push_back(json("12345678901234567890123", jsoncons::semantic_tag::bigint));
    v.push_back(json("-1.5e-10", jsoncons::semantic_tag::bigdec));
    v.push_back(json("2020-01-01T00:00:00Z", jsoncons::semantic_tag::datetime));
    v.push_back(json(uint64_t(1600000000), jsoncons::semantic_tag::epoch_second));
    { json a(jsoncons::json_array_arg); a.push_back(json(jsoncons::half_arg, 0x3c00)); a.push_back(json(jsoncons::byte_string_arg, Bytes{9, 8}, 7)); v.push_back(a); }
    { json a(jsoncons::json_array_arg); for (int i = 0; i < 30; ++i) a.push_back(i * 1000); v.push_back(a); }
    return v;
}
static Bytes H(const char* h) { std::string s = unhex(h); return Bytes(s.begin(), s.end()); }

static void add_with_prefixes(std::vector<Bytes>& corpus, const Bytes& b) {
    corpus.push_back(b);
    for (size_t n = 0; n < b.size(); ++n) corpus.emplace_back(b.begin(), b.begin() + n);
    if (b.size() <= 12) for (size_t i = 0; i < b.size(); ++i) for (int d : {1, 0x80, 0xff}) { Bytes m = b; m[i] ^= uint8_t(d); corpus.push_back(m); }
}

static std::vector<Bytes> corpus_for(const std::string& fmt, bool thorough) {
    std::vector<Bytes> c;
    for (auto& j : sample_values()) {
        Bytes b;
        try {
            if (fmt == "cbor") { jsoncons::cbor::encode_cbor(j, b); add_with_prefixes(c, b); Bytes p; jsoncons::cbor::cbor_options o; o.pack_strings(true); jsoncons::cbor::encode_cbor(j, p, o); if (p != b) add_with_prefixes(c, p); }
            else if (fmt == "msgpack") { jsoncons::msgpack::encode_msgpack(j, b); add_with_prefixes(c, b); }
            else if (fmt == "ubjson") { jsoncons::ubjson::encode_ubjson(j, b); add_with_prefixes(c, b); }
            else if (fmt == "bson") { if (j.is_object() || j.is_array()) { jsoncons::bson::encode_bson(j, b); add_with_prefixes(c, b); } }
        } catch (const std::exception&) {}
    }
    if (fmt == "cbor") for (auto h : {"9f0102ff", "bf6161019f02ffff", "7f61616162ff", "5f4201024103ff", "c249010000000000000000", "c482210119", "c5822003",
                                      "d84043010203", "d8458400010002", "d85582fb3ff8000000000000fb4000000000000000", "d9010082d81901d81900", "d90100836161d81900d81900",
                                      "d8288202038401020304", "f93c00", "fa3fc00000", "fb3ff8000000000000", "f6", "f7", "e0", "f820", "c074323032302d30312d30315430303a30303a30305a", "c11a5f5e1000",
                                      "d82076687474703a2f2f6578616d706c652e636f6d", "a201020304", "9f9f9fffffff", "bf61619fffff", "818181818101"})
            add_with_prefixes(c, H(h));
    if (fmt == "msgpack") for (auto h : {"c0", "c2", "c3", "cc80", "cd0100", "ce00010000", "cf0000000100000000", "d080", "d1ff00", "d2ffff0000", "d3ffffffff00000000",
                                         "ca3fc00000", "cb3ff8000000000000", "a161", "d90161", "da000161", "db0000000161", "c40101", "c5000101", "c60000000101",
                                         "9101", "dc000101", "dd0000000101", "81a16101", "de0001a16101", "df00000001a16101", "d40501", "d5050102", "d60501020304", "d7050102030405060708",
                                         "c7020501ff", "c800020501ff", "c9000000020501ff", "d6ff5f5e1000", "d7ff0000000100000000", "c70cff000000010000000000000002", "92c0c0", "82a16101a16202"})
            add_with_prefixes(c, H(h));
    if (fmt == "ubjson") for (auto h : {"5a", "54", "46", "6901", "5580", "490100", "6c00010000", "4c0000000100000000", "643fc00000", "443ff8000000000000", "4361", "53550161",
                                        "5b5d", "5b69015d", "5b236903690169026903", "5b24692369020102", "5b24552355020102", "5b245a236903", "7b7d", "7b55016169017d", "7b23690155016154",
                                        "7b246923690155016101", "7b245a236902550161550162", "48550131", "485503313233", "5b5b5b5d5d5d", "5b4e69015d", "5b24642369013fc00000", "5b2455234900020102"})
            add_with_prefixes(c, H(h));
    if (fmt == "bson") for (auto h : {"0500000000", "0c0000001061000100000000", "10000000126100010000000000000000", "100000000161000000000000f83f00", "0e00000002610002000000610000",
                                      "0d000000046100050000000000", "0d000000036100050000000000", "0900000008610001" "00", "080000000a610000", "1000000009610000e1f50500000000" "00", "0f0000000561000200000000" "0102" "00",
                                      "0f0000000561000200000080" "0102" "00", "14000000076100" "0102030405060708090a0b0c" "00", "180000001361000100000000000000000000000000403000", "0e0000000b61006162630069" "0000",
                                      "0e0000000d6100020000006100" "00", "1000000011610001000000020000" "0000", "08000000ff610000", "080000007f610000", "1b00000004610013000000103000010000001031000200000000" "00"})
            add_with_prefixes(c, H(h));
    // every byte string of length <= 2 (thorough: selected 3-byte strings)
    c.push_back(Bytes{});
    for (int a = 0; a < 256; ++a) { c.push_back(Bytes{uint8_t(a)}); for (int b = 0; b < 256; ++b) c.push_back(Bytes{uint8_t(a), uint8_t(b)}); }
    if (thorough) for (int a = 0; a < 256; ++a) for (int b : {0x00, 0x01, 0x17, 0x18, 0x41, 0x61, 0x7f, 0x80, 0x9f, 0xbf, 0xc2, 0xd8, 0xf9, 0xff}) for (int d = 0; d < 256; ++d) c.push_back(Bytes{uint8_t(a), uint8_t(b), uint8_t(d)});
    return c;
}

// ---------------------------------------------------------------------------
// CSV
static std::vector<jsoncons::csv::csv_options> csv_option_sets() {
    std::vector<jsoncons::csv::csv_options> v;
    for (int h = 0; h < 2; ++h) for (auto m : {jsoncons::csv::csv_mapping_kind::n_rows, jsoncons::csv::csv_mapping_kind::n_objects, jsoncons::csv::csv_mapping_kind::m_columns}) {
        if (m == jsoncons::csv::csv_mapping_kind::n_objects && !h) continue;
        jsoncons::csv::csv_options o; o.assume_header(h != 0); o.mapping_kind(m); v.push_back(o);
    }
    { jsoncons::csv::csv_options o; o.assume_header(false); o.mapping_kind(jsoncons::csv::csv_mapping_kind::n_rows); o.trim(true); o.ignore_empty_lines(false); o.comment_starter('#'); v.push_back(o); }
    // fields split into subfields (nested arrays inside a record)
    { jsoncons::csv::csv_options o; o.assume_header(false); o.mapping_kind(jsoncons::csv::csv_mapping_kind::n_rows); o.subfield_delimiter(';'); v.push_back(o); }
    { jsoncons::csv::csv_options o; o.assume_header(true); o.mapping_kind(jsoncons::csv::csv_mapping_kind::n_objects); o.subfield_delimiter(';'); v.push_back(o); }
    return v;
}
static void check_csv(const std::string& t, int oi, const jsoncons::csv::csv_options& opt) {
    using namespace jsoncons::csv;
    Outcome ref = safe([&] { Rec rec; std::error_code ec; csv_string_reader rd(t, rec, opt); rd.read(ec); return Outcome{rec.ev, errs(ec)}; }); ++g_eval;
    Bytes b(t.begin(), t.end());
    std::string fmt = "csv" + std::to_string(oi);
    Outcome cref = safe([&] { std::error_code ec; csv_string_cursor c(t, opt, ec); return drain(c, ec, -1); }); ++g_eval;
    if (cref != ref) report(fmt, "cursor-vs-reader", b, cref, ref);
    // read_to at every event index reproduces the event sequence of plain stepping
    // (texts with quote characters are left out here: the parser's end-of-input handling of open quoted fields is the recorded finding F70)
    if (t.find('"') == std::string::npos)
    { int nev = 0; for (char ch : cref.ev) if (ch == ' ') ++nev; if (!cref.ev.empty()) ++nev;
      for (int rt = 0; rt < nev && rt < 10; ++rt) { Outcome o = safe([&] { std::error_code ec; csv_string_cursor c(t, opt, ec); return drain(c, ec, rt); }); ++g_eval; if (o != cref) { report(fmt, "readto" + std::to_string(rt), b, o, cref); break; } } }
    for (size_t k = 1; k <= t.size() + 1; ++k) {
        { Outcome o = safe([&] { std::istringstream is(t); Rec rec; std::error_code ec; csv_stream_reader rd(jsoncons::stream_source<char>(is, k), rec, opt); rd.read(ec); return Outcome{rec.ev, errs(ec)}; }); ++g_eval; if (o != ref) report(fmt, "stream-reader" + std::to_string(k), b, o, ref); }
        { Outcome o = safe([&] { std::istringstream is(t); std::error_code ec; csv_stream_cursor c(jsoncons::stream_source<char>(is, k), opt, ec); return drain(c, ec, -1); }); ++g_eval; if (o != cref) report(fmt, "stream-cursor" + std::to_string(k), b, o, cref); }
    }
    if (ref.err.empty() && !ref.ev.empty()) { ++g_nontrivial; if (g_nontrivial % 4001 == 1) out().sample("csv opts#" + std::to_string(oi) + " " + t + " -> " + ref.ev); }
    out().cls(ref.err.empty() ? "csv:ok" : "csv:err:" + ref.err);
}
static const std::vector<std::string> SIGMA_CSV = {"a", "1", ",", "\"", "\n", "\r", " ", "#", ";"};

static void run_csv(int L, int slice, int nslices) {
    auto opts = csv_option_sets();
    size_t n = SIGMA_CSV.size();
    long long total = 1; std::vector<long long> pw(L + 2, 1);
    long long idx = 0;
    for (int len = 0; len <= L; ++len) {
        long long cnt = 1; for (int i = 0; i < len; ++i) cnt *= n;
        for (long long x = 0; x < cnt; ++x, ++idx) {
            if ((int)(idx % nslices) != slice) continue;
            std::string t; long long y = x;
            for (int i = 0; i < len; ++i) { t += SIGMA_CSV[y % n]; y /= n; }
            for (size_t oi = 0; oi < opts.size(); ++oi) check_csv(t, (int)oi, opts[oi]);
        }
    }
    (void)total;
}

static void dispatch(const std::string& fmt, const Bytes& b, bool deep) {
    if (getenv("VF_TRACE")) fprintf(stderr, "%s %s\n", fmt.c_str(), hex(b).c_str());
    Watchdog::arm("B|" + fmt + "|hang|" + hex(b), fmt + " input=" + hex(b) + " some delivery/access mode", 20);
    struct D { ~D() { Watchdog::disarm(); } } d_;
    if (fmt == "cbor") check_cbor(b, deep); else if (fmt == "msgpack") check_msgpack(b, deep);
    else if (fmt == "ubjson") check_ubjson(b, deep); else if (fmt == "bson") check_bson(b, deep);
}

int main(int argc, char** argv) {
    Args a(argc, argv);
    if (a.replay) {
        auto p = split(a.sig, '|');
        if (p.size() == 4 && p[0] == "B") {
            std::string s = unhex(p[3]); Bytes b(s.begin(), s.end());
            if (p[1].compare(0, 3, "csv") == 0) { int oi = atoi(p[1].c_str() + 3); auto o = csv_option_sets(); if (oi < (int)o.size()) check_csv(s, oi, o[oi]); }
            else dispatch(p[1], b, true);
        }
        out().flush(); return 0;
    }
    bool thorough = a.get("tier", "quick") == "thorough";
    for (std::string fmt : {"cbor", "msgpack", "ubjson", "bson"}) {
        auto c = corpus_for(fmt, thorough);
        for (size_t i = 0; i < c.size(); ++i) if ((int)(i % a.nslices) == a.slice) dispatch(fmt, c[i], c[i].size() <= 40);
        if (a.slice == 0) out().count("b_corpus_" + fmt, (long long)c.size());
    }
    run_csv(thorough ? 6 : 5, a.slice, a.nslices);
    out().count("evaluations", g_eval);
    out().count("nontrivial", g_nontrivial);
    out().flush();
    return 0;
}
