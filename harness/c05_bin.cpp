// C05 unit: binary decoders (CBOR, MessagePack, UBJSON, BSON) on every short byte string, through every entry point.
#include "c05_common.hpp"
#include <jsoncons_ext/cbor/cbor.hpp>
#include <jsoncons_ext/msgpack/msgpack.hpp>
#include <jsoncons_ext/ubjson/ubjson.hpp>
#include <jsoncons_ext/bson/bson.hpp>
#include <sstream>
VF_DEFINE_OPERATOR_NEW
using namespace c05;
using jsoncons::json; using jsoncons::ojson;
typedef std::vector<uint8_t> Bytes;

template <class Cursor> static void drain(Cursor& c, std::error_code& ec) { int guard_n = 0; while (!ec && !c.done() && ++guard_n < 100000) { (void)c.current().event_type(); c.next(ec); } }

#define FORMAT_ENTRIES(NS, NAME, DECODE) \
    static void add_##NAME(Case& c, const Bytes& b) { \
        using namespace jsoncons::NS; \
        c.entries.push_back([b] { auto r = try_##DECODE<json>(b); (void)r; }); \
        c.entries.push_back([b] { json j = DECODE<json>(b); std::string s; j.dump(s); }); \
        c.entries.push_back([b] { std::string t(b.begin(), b.end()); std::istringstream is(t); auto r = try_##DECODE<ojson>(is); (void)r; }); \
        c.entries.push_back([b] { auto r = try_##DECODE<json>(b.begin(), b.end()); (void)r; }); \
        c.entries.push_back([b] { std::error_code ec; basic_##NAME##_cursor<jsoncons::bytes_source> cur(b, ec); drain(cur, ec); }); \
        c.entries.push_back([b] { std::string t(b.begin(), b.end()); std::istringstream is(t); std::error_code ec; basic_##NAME##_cursor<jsoncons::binary_stream_source> cur(jsoncons::binary_stream_source(is, 2), ec); drain(cur, ec); }); \
        c.entries.push_back([b] { jsoncons::json_decoder<json> d; std::error_code ec; basic_##NAME##_reader<jsoncons::bytes_source> rd(b, d); rd.read(ec); }); \
        c.entries.push_back([b] { auto r = try_##DECODE<std::vector<double>>(b); (void)r; }); \
        c.entries.push_back([b] { auto r = try_##DECODE<std::map<std::string, std::string>>(b); (void)r; }); \
    }
FORMAT_ENTRIES(cbor, cbor, decode_cbor)
FORMAT_ENTRIES(msgpack, msgpack, decode_msgpack)
FORMAT_ENTRIES(ubjson, ubjson, decode_ubjson)
FORMAT_ENTRIES(bson, bson, decode_bson)

static const char* FMT[4] = {"cbor", "msgpack", "ubjson", "bson"};

// Structured inputs: every head byte followed by a 1/2/4/8-byte length or count field holding a boundary value, with 0, 1 or 5
// bytes of content behind it (the <= 3 byte strings cannot reach the wide length fields), bare and inside a container; BSON: every
// element type x every value of its int32 length field x document size exact / off by one / degenerate.
static const std::vector<uint64_t>& lens() { static const std::vector<uint64_t> v = {0, 1, 2, 4, 5, 6, 0x7f, 0x80, 0xff, 0x100, 0x7fff, 0x8000, 0xffff, 0x10000, 0x7fffffffULL, 0x80000000ULL, 0xfffffffeULL, 0xffffffffULL, 0x100000000ULL, 0x7fffffffffffffffULL, 0x8000000000000000ULL, 0xffffffffffffffffULL}; return v; }
static void be_n(Bytes& b, uint64_t n, int w) { for (int i = w - 1; i >= 0; --i) b.push_back(uint8_t(n >> (8 * i))); }
static void le_n(Bytes& b, uint64_t n, int w) { for (int i = 0; i < w; ++i) b.push_back(uint8_t(n >> (8 * i))); }
static std::vector<Bytes> structured(int f) {
    std::vector<Bytes> v;
    static const Bytes tails[] = {{}, {0x00}, {0x61, 0x62, 0x63, 0x00, 0x01}};
    auto with_tails = [&](const Bytes& head) { for (auto& t : tails) { Bytes b(head); b.insert(b.end(), t.begin(), t.end()); v.push_back(b); } };
    if (f == 0) {          // cbor: major type x additional information 24..27 x value; bare, in an array, as a map key, as an indefinite-string chunk, under typed-array / bignum tags
        for (int mt = 0; mt < 8; ++mt) for (int ai = 24; ai <= 27; ++ai) for (uint64_t n : lens()) {
            int w = 1 << (ai - 24); if (w < 8 && (n >> (8 * w))) continue;
            Bytes h = {uint8_t(mt << 5 | ai)}; be_n(h, n, w);
            for (const Bytes& pre : {Bytes{}, Bytes{0x81}, Bytes{0xa1}, Bytes{0x9f}, Bytes{0x5f}, Bytes{0x7f}, Bytes{0xc2}, Bytes{0xd8, 0x45}, Bytes{0xd8, 0x56}, Bytes{0xc4, 0x82, 0x00}, Bytes{0xd9, 0x01, 0x00, 0x82, 0x63, 0x61, 0x61, 0x61}}) { Bytes b(pre); b.insert(b.end(), h.begin(), h.end()); with_tails(b); }
        }
        // multi-dimensional arrays (tags 40 and 1040): every typed-array tag as storage x extents x storage shorter / exact / longer than the extents announce
        for (int md = 0; md < 2; ++md) for (int tt = 0x40; tt <= 0x57; ++tt) {
            int f_ = (tt >> 4) & 1, ll = tt & 3, esz = 1 << (f_ + ll); if (tt == 0x4c || tt == 0x48) esz = 1; if (esz > 16) esz = 16;
            for (auto dims : std::vector<std::pair<uint64_t, uint64_t>>{{2, 3}, {1, 1}, {0, 5}, {3, 0}, {1, 0x100000000ULL}, {0xffffffffULL, 0xffffffffULL}}) {
                uint64_t want = dims.first * dims.second;
                for (long long n : {0LL, (long long)esz, (long long)(want <= 64 ? want * esz : 24) - esz, (long long)(want <= 64 ? want * esz : 24), (long long)(want <= 64 ? want * esz : 24) + esz}) {
                    if (n < 0 || n > 255) continue;
                    Bytes b; if (md == 0) b = {0xd8, 0x28}; else b = {0xd9, 0x04, 0x10};
                    b.push_back(0x82); b.push_back(0x82);
                    for (uint64_t d : {dims.first, dims.second}) { if (d < 24) b.push_back(uint8_t(d)); else { b.push_back(0x1b); be_n(b, d, 8); } }
                    b.push_back(0xd8); b.push_back(uint8_t(tt)); b.push_back(0x58); b.push_back(uint8_t(n)); for (long long i = 0; i < n; ++i) b.push_back(uint8_t(0x3c + i));
                    v.push_back(b);
                }
            }
        }
    } else if (f == 1) {   // msgpack: every head that carries a length/count field
        struct H { int code, w; }; static const H hs[] = {{0xc4, 1}, {0xc5, 2}, {0xc6, 4}, {0xc7, 1}, {0xc8, 2}, {0xc9, 4}, {0xd9, 1}, {0xda, 2}, {0xdb, 4}, {0xdc, 2}, {0xdd, 4}, {0xde, 2}, {0xdf, 4}};
        for (auto& h : hs) for (uint64_t n : lens()) {
            if (n >> (8 * h.w)) continue;
            Bytes hb = {uint8_t(h.code)}; be_n(hb, n, h.w);
            for (const Bytes& pre : {Bytes{}, Bytes{0x91}, Bytes{0x81}, Bytes{0x81, 0xa1, 0x61}}) { Bytes b(pre); b.insert(b.end(), hb.begin(), hb.end()); with_tails(b); if (h.code >= 0xc7 && h.code <= 0xc9) { Bytes t(b); t.push_back(0xff); with_tails(t); } }
        }
    } else if (f == 2) {   // ubjson: every place a length/count stands x every integer type it can be written in
        struct T { char code; int w; }; static const T ts[] = {{'i', 1}, {'U', 1}, {'I', 2}, {'l', 4}, {'L', 8}};
        for (const Bytes& pre : {Bytes{'S'}, Bytes{'H'}, Bytes{'[', '#'}, Bytes{'{', '#'}, Bytes{'[', '$', 'i', '#'}, Bytes{'[', '$', 'U', '#'}, Bytes{'[', '$', 'D', '#'}, Bytes{'[', '$', 'S', '#'}, Bytes{'[', '$', 'Z', '#'}, Bytes{'{', '$', 'i', '#'}, Bytes{'{'}, Bytes{'[', 'S'}, Bytes{'{', 'i', 1, 'a', 'S'}, Bytes{'[', '[', '#'}})
            for (auto& t : ts) for (uint64_t n : lens()) {
                if (t.w < 8 && (n >> (8 * t.w))) continue;
                Bytes b(pre); b.push_back(uint8_t(t.code)); be_n(b, n, t.w); with_tails(b);
            }
    } else {               // bson
        static const std::vector<uint64_t> l32 = {0, 1, 2, 3, 4, 5, 6, 12, 0x7f, 0xff, 0x100, 0xffff, 0x7fffffffULL, 0x80000000ULL, 0xfffffffeULL, 0xffffffffULL};
        for (int t = 0; t < 256; ++t) for (uint64_t n : l32) for (int k : {0, 1, 5, 13}) {
            Bytes el = {uint8_t(t), 'a', 0}; le_n(el, n, 4); for (int i = 0; i < k; ++i) el.push_back(i + 1 == k ? 0 : uint8_t(0x61 + i));
            for (int delta : {0, -1, 1, 100}) for (int term : {0, 1}) {
                Bytes d; uint64_t total = 4 + el.size() + 1; if (delta == 100) total = 5; else total += delta;
                le_n(d, total, 4); d.insert(d.end(), el.begin(), el.end()); d.push_back(uint8_t(term ? 0x01 : 0x00)); v.push_back(d);
                if (term) break;
            }
        }
        for (uint64_t n : l32) { Bytes d; le_n(d, n, 4); v.push_back(d); d.push_back(0); v.push_back(d); }
        // nested document / array / code-with-scope sizes
        for (int t : {0x03, 0x04, 0x0f}) for (uint64_t n : l32) for (uint64_t m : {uint64_t(5), n}) { Bytes el = {uint8_t(t), 'a', 0}; le_n(el, n, 4); le_n(el, m, 4); el.push_back(0); el.push_back(0); Bytes d; le_n(d, 4 + el.size() + 1, 4); d.insert(d.end(), el.begin(), el.end()); d.push_back(0); v.push_back(d); }
    }
    return v;
}

int main(int argc, char** argv) {
    Args a(argc, argv);
    bool thorough = a.get("tier", "quick") == "thorough";
    // byte strings: all of length <= 2, and 3-byte strings whose middle byte is one of a few representatives (thorough: all 3-byte strings)
    std::vector<int> mids = {0x00, 0x01, 0x17, 0x18, 0x19, 0x1b, 0x1f, 0x41, 0x5f, 0x61, 0x7f, 0x80, 0x9f, 0xa1, 0xbf, 0xc2, 0xd8, 0xf9, 0xff};
    long long n12 = 1 + 256 + 65536;
    long long n3 = thorough ? 256LL * 256 * 256 : 256LL * (long long)mids.size() * 256;
    std::vector<Bytes> extra[4]; for (int f = 0; f < 4; ++f) extra[f] = structured(f);
    long long nshort = 4 * (n12 + n3);
    long long ex_off[5] = {0, 0, 0, 0, 0}; for (int f = 0; f < 4; ++f) ex_off[f + 1] = ex_off[f] + (long long)extra[f].size();
    long long per_fmt = n12 + n3;
    auto bytes_at = [&](long long i) { Bytes b; if (i == 0) return b; if (i < 257) { b.push_back(uint8_t(i - 1)); return b; } if (i < n12) { long long x = i - 257; b.push_back(uint8_t(x >> 8)); b.push_back(uint8_t(x)); return b; }
        long long x = i - n12; if (thorough) { b.push_back(uint8_t(x >> 16)); b.push_back(uint8_t(x >> 8)); b.push_back(uint8_t(x)); } else { long long f = x / ((long long)mids.size() * 256), r = x % ((long long)mids.size() * 256); b.push_back(uint8_t(f)); b.push_back(uint8_t(mids[r / 256])); b.push_back(uint8_t(r % 256)); } return b; };
    auto gen = [&](long long i, Case& c) {
        int f; Bytes b;
        if (i < nshort) { f = int(i / per_fmt); b = bytes_at(i % per_fmt); }
        else { long long x = i - nshort; f = 0; while (x >= ex_off[f + 1]) ++f; b = extra[f][x - ex_off[f]]; }
        c.sig = std::string("BIN|") + FMT[f] + "|" + hex(b); c.what = std::string(FMT[f]) + " decoders on bytes " + hex(b);
        if (f == 0) add_cbor(c, b); else if (f == 1) add_msgpack(c, b); else if (f == 2) add_ubjson(c, b); else add_bson(c, b);
    };
    if (a.replay) {
        auto p = split(a.sig, '|'); Case c; std::string s = unhex(p[2]); Bytes b(s.begin(), s.end()); int f = 0; for (int k = 0; k < 4; ++k) if (p[1] == FMT[k]) f = k;
        run_cases(1, 0, 1, [&](long long, Case& cc) { cc.sig = std::string("BIN|") + FMT[f] + "|" + hex(b); cc.what = std::string(FMT[f]) + " decoders on bytes " + hex(b); if (f == 0) add_cbor(cc, b); else if (f == 1) add_msgpack(cc, b); else if (f == 2) add_ubjson(cc, b); else add_bson(cc, b); });
        out().flush(); return 0;
    }
    run_cases(nshort + ex_off[4], a.slice, a.nslices, gen);
    if (a.slice == 0) out().count("structured_inputs", ex_off[4]);
    out().cls("bin"); if (a.slice == 0) out().sample("every byte string of length <= 2, selected 3-byte strings and structured inputs (every wide length/count field x boundary values), 9 entry points, 4 formats, e.g. cbor 9f01ff, bson 0d000000026100000000000000");
    out().flush();
    return 0;
}
