// C05 unit: binary decoders (CBOR, MessagePack, UBJSON, BSON) on every short byte string, through every entry point.
#include "c05_common.hpp"
#include <jsoncons_ext/cbor/cbor.hpp>
#include <jsoncons_ext/msgpack/msgpack.hpp>
#include <jsoncons_ext/ubjson/ubjson.hpp>
#include <jsoncons_ext/bson/bson.hpp>
#include <sstream>
VF_DEFINE_OPERATOR_NEW
using namespace c05;
using jsoncons::json; using jsoncons::ojson;
typedef std::vector<uint8_t> Bytes;

template <class Cursor> static void drain(Cursor& c, std::error_code& ec) { int guard_n = 0; while (!ec && !c.done() && ++guard_n < 100000) { (void)c.current().event_type(); c.next(ec); } }

#define FORMAT_ENTRIES(NS, NAME, DECODE) \
    static void add_##NAME(Case& c, const Bytes& b) { \
        using namespace jsoncons::NS; \
        c.entries.push_back([b] { auto r = try_##DECODE<json>(b); (void)r; }); \
        c.entries.push_back([b] { json j = DECODE<json>(b); std::string s; j.dump(s); }); \
        c.entries.push_back([b] { std::string t(b.begin(), b.end()); std::istringstream is(t); auto r = try_##DECODE<ojson>(is); (void)r; }); \
        c.entries.push_back([b] { auto r = try_##DECODE<json>(b.begin(), b.end()); (void)r; }); \
        c.entries.push_back([b] { std::error_code ec; basic_##NAME##_cursor<jsoncons::bytes_source> cur(b, ec); drain(cur, ec); }); \
        c.entries.push_back([b] { std::string t(b.begin(), b.end()); std::istringstream is(t); std::error_code ec; basic_##NAME##_cursor<jsoncons::binary_stream_source> cur(jsoncons::binary_stream_source(is, 2), ec); drain(cur, ec); }); \
        c.entries.push_back([b] { jsoncons::json_decoder<json> d; std::error_code ec; basic_##NAME##_reader<jsoncons::bytes_source> rd(b, d); rd.read(ec); }); \
        c.entries.push_back([b] { auto r = try_##DECODE<std::vector<double>>(b); (void)r; }); \
        c.entries.push_back([b] { auto r = try_##DECODE<std::map<std::string, std::string>>(b); (void)r; }); \
    }
FORMAT_ENTRIES(cbor, cbor, decode_cbor)
FORMAT_ENTRIES(msgpack, msgpack, decode_msgpack)
FORMAT_ENTRIES(ubjson, ubjson, decode_ubjson)
FORMAT_ENTRIES(bson, bson, decode_bson)

static const char* FMT[4] = {"cbor", "msgpack", "ubjson", "bson"};

int main(int argc, char** argv) {
    Args a(argc, argv);
    bool thorough = a.get("tier", "quick") == "thorough";
    // byte strings: all of length <= 2, and 3-byte strings whose middle byte is one of a few representatives (thorough: all 3-byte strings)
    std::vector<int> mids = {0x00, 0x01, 0x17, 0x18, 0x19, 0x1b, 0x1f, 0x41, 0x5f, 0x61, 0x7f, 0x80, 0x9f, 0xa1, 0xbf, 0xc2, 0xd8, 0xf9, 0xff};
    long long n12 = 1 + 256 + 65536;
    long long n3 = thorough ? 256LL * 256 * 256 : 256LL * (long long)mids.size() * 256;
    long long per_fmt = n12 + n3;
    auto bytes_at = [&](long long i) { Bytes b; if (i == 0) return b; if (i < 257) { b.push_back(uint8_t(i - 1)); return b; } if (i < n12) { long long x = i - 257; b.push_back(uint8_t(x >> 8)); b.push_back(uint8_t(x)); return b; }
        long long x = i - n12; if (thorough) { b.push_back(uint8_t(x >> 16)); b.push_back(uint8_t(x >> 8)); b.push_back(uint8_t(x)); } else { long long f = x / ((long long)mids.size() * 256), r = x % ((long long)mids.size() * 256); b.push_back(uint8_t(f)); b.push_back(uint8_t(mids[r / 256])); b.push_back(uint8_t(r % 256)); } return b; };
    auto gen = [&](long long i, Case& c) {
        int f = int(i / per_fmt); Bytes b = bytes_at(i % per_fmt);
        c.sig = std::string("BIN|") + FMT[f] + "|" + hex(b); c.what = std::string(FMT[f]) + " decoders on bytes " + hex(b);
        if (f == 0) add_cbor(c, b); else if (f == 1) add_msgpack(c, b); else if (f == 2) add_ubjson(c, b); else add_bson(c, b);
    };
    if (a.replay) {
        auto p = split(a.sig, '|'); Case c; std::string s = unhex(p[2]); Bytes b(s.begin(), s.end()); int f = 0; for (int k = 0; k < 4; ++k) if (p[1] == FMT[k]) f = k;
        run_cases(1, 0, 1, [&](long long, Case& cc) { cc.sig = std::string("BIN|") + FMT[f] + "|" + hex(b); cc.what = std::string(FMT[f]) + " decoders on bytes " + hex(b); if (f == 0) add_cbor(cc, b); else if (f == 1) add_msgpack(cc, b); else if (f == 2) add_ubjson(cc, b); else add_bson(cc, b); });
        out().flush(); return 0;
    }
    run_cases(4 * per_fmt, a.slice, a.nslices, gen);
    out().cls("bin"); if (a.slice == 0) out().sample("every byte string of length <= 2 and selected 3-byte strings, 9 entry points, 4 formats, e.g. cbor 9f01ff");
    out().flush();
    return 0;
}
