// C05 — no input or option can make a decoder, compiler or encoder misbehave.
// Shared framework: cases are enumerated by index; a forked child executes a contiguous range and publishes the index it
// is working on in shared memory.  If the child dies (sanitizer abort, signal) or exceeds the per-case time limit, the case
// at that index is reported as a violation and the enumeration resumes behind it.  Inside the child every entry point is
// wrapped: only exceptions of the library's json_exception family (and std::bad_alloc) are acceptable; assertion_error is
// a tripped internal assertion; anything else is a foreign exception.  Sanitizer reports (recover mode) are captured per case.
#pragma once
#include "common.hpp"
#include "allocfail.hpp"
#include <jsoncons/json.hpp>
#include <sys/mman.h>
#include <sys/wait.h>
#include <functional>

namespace c05 {
using namespace vf;

struct Shared { volatile long long idx; volatile long long done; volatile long long evals; volatile long long ok; };

inline std::string classify(const std::exception& e) {
    if (dynamic_cast<const jsoncons::assertion_error*>(&e)) return std::string("internal assertion tripped: ") + e.what();
    if (dynamic_cast<const std::bad_alloc*>(&e)) return "";
    if (dynamic_cast<const jsoncons::json_exception*>(&e)) return "";
    return std::string("foreign exception escaped: ") + e.what();
}

// a short class of a complaint, used in signatures so that recorded findings can be told from new kinds of failure
inline std::string complaint_class(const std::string& c) {
    std::string k;
    if (c.compare(0, 27, "internal assertion tripped:") == 0) { size_t a = c.find('\''), b = c.find('\'', a + 1); k = "assert:" + (a != std::string::npos && b != std::string::npos ? c.substr(a + 1, std::min<size_t>(b - a - 1, 48)) : std::string("?")); }
    else if (c.compare(0, 17, "sanitizer report:") == 0) {
        size_t as = c.find("AddressSanitizer: ");
        if (c.find("AddressSanitizer failed to allocate") != std::string::npos) k = "asan:failed-to-allocate";
        else if (as != std::string::npos) { size_t e = c.find(' ', as + 18); k = "asan:" + c.substr(as + 18, e == std::string::npos ? 30 : e - as - 18); }
        else { size_t a = c.find("/include/"); size_t b = c.find(": runtime error"); k = "ubsan:" + (a != std::string::npos && b != std::string::npos && b > a ? c.substr(a + 9, b - a - 9) : c.substr(18, 40)); size_t col = k.rfind(':'); if (col != std::string::npos && col > 6) k = k.substr(0, col); }
    }
    else if (c.compare(0, 5, "leak:") == 0) k = "leak";
    else if (c.compare(0, 7, "foreign") == 0) k = "foreign:" + c.substr(27, 40);
    else k = "other";
    for (auto& ch : k) if (ch == '|' || ch == '\t' || ch == ' ') ch = '_';
    return k;
}

// runs one entry point; returns "" or a complaint
template <class F> std::string guard(F f) {
    try { f(); }
    catch (const std::exception& e) { return classify(e); }
    catch (...) { return "a non-standard exception escaped"; }
    return "";
}

struct Case { std::string sig, what; std::vector<std::function<void()>> entries; };

// gen(i) fills the i-th case (0 <= i < total); cases of this slice: i % nslices == slice
inline void run_cases(long long total, int slice, int nslices, const std::function<void(long long, Case&)>& gen, unsigned seconds_per_case = 10) {
    Shared* sh = (Shared*)mmap(nullptr, sizeof(Shared), PROT_READ | PROT_WRITE, MAP_SHARED | MAP_ANONYMOUS, -1, 0);
    sh->idx = -1; sh->done = 0; sh->evals = 0; sh->ok = 0;
    long long start = slice;
    while (start < total) {
        fflush(stdout);
        pid_t pid = fork();
        if (pid == 0) {
            san().init();
            out().sum.clear(); out().mx.clear(); out().classes.clear(); out().nviol = 0;
            for (long long i = start; i < total; i += nslices) {
                sh->idx = i;
                Case c; gen(i, c);
                alarm(seconds_per_case);
                bool bad = false;
                for (size_t e = 0; e < c.entries.size(); ++e) {
                    ++sh->evals;
                    long long live0 = ast().live_count;
                    std::string complaint = guard(c.entries[e]);
                    std::string santext; if (san().dirty(santext) && complaint.empty()) complaint = "sanitizer report: " + santext;
                    if (complaint.empty() && ast().live_count != live0) {
                        // one-time initialisation (static locals, locale) allocates once: a leak must reproduce on an immediate re-run
                        long long live1 = ast().live_count; std::string c2 = guard(c.entries[e]); (void)c2;
                        if (ast().live_count != live1) complaint = "leak: " + std::to_string(ast().live_count - live1) + " allocation(s) not released by the call";
                    }
                    if (!complaint.empty()) {
                        // a few reports per (area, class): a recorded finding cannot crowd out a new kind of failure
                        static std::map<std::string, int> per_class;
                        std::string area = c.sig.substr(0, c.sig.find('|', c.sig.find('|') + 1));
                        if (++per_class[area + complaint_class(complaint)] > 12) { out().count("violations_beyond_class_cap"); bad = true; break; }
                    }
                    if (!complaint.empty()) { out().viol(c.sig + "|" + std::to_string(e) + "|" + complaint_class(complaint), c.what + " (entry " + std::to_string(e) + ") :: " + complaint); bad = true; break; }
                }
                alarm(0);
                if (!bad) ++sh->ok;
            }
            sh->done = 1;
            out().flush();
            _exit(0);     // LeakSanitizer is not run at exit here: leaks are checked by C19's allocation balance
        }
        int st = 0; waitpid(pid, &st, 0);
        if (sh->done) break;
        long long i = sh->idx;
        Case c; if (i >= 0) gen(i, c);
        std::string how = WIFSIGNALED(st) ? (WTERMSIG(st) == SIGALRM ? "did not terminate within " + std::to_string(seconds_per_case) + " s" : "process died with signal " + std::to_string(WTERMSIG(st))) : "process exited " + std::to_string(WEXITSTATUS(st)) + " (fatal sanitizer report)";
        if (i < 0) { out().error("child died before the first case"); break; }
        out().viol(c.sig + "|fatal", c.what + " :: " + how);
        ++sh->evals;
        start = i + nslices;
    }
    out().count("evaluations", sh->evals);
    out().count("nontrivial", sh->ok);
    munmap(sh, sizeof(Shared));
}

inline std::vector<int> odometer(long long x, int base, int len) { std::vector<int> v(len); for (int k = len - 1; k >= 0; --k) { v[k] = int(x % base); x /= base; } return v; }
inline long long ipow(long long b, int e) { long long r = 1; while (e-- > 0) r *= b; return r; }

// all sequences over sigma of length 0..L, indexed 0..count-1
struct SeqSpace {
    std::vector<std::string> sigma; int L;
    long long count() const { long long c = 0; for (int l = 0; l <= L; ++l) c += ipow((long long)sigma.size(), l); return c; }
    std::string at(long long i) const { for (int l = 0; l <= L; ++l) { long long n = ipow((long long)sigma.size(), l); if (i < n) { std::string s; for (int d : odometer(i, (int)sigma.size(), l)) s += sigma[d]; return s; } i -= n; } return ""; }
};
} // namespace c05
