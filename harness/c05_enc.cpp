// C05 unit: encoders on every small value over every storage kind and semantic tag, under their option sets.
#include "c05_common.hpp"
#include "mv.hpp"
#include <jsoncons_ext/cbor/cbor.hpp>
#include <jsoncons_ext/msgpack/msgpack.hpp>
#include <jsoncons_ext/ubjson/ubjson.hpp>
#include <jsoncons_ext/bson/bson.hpp>
#include <jsoncons_ext/csv/csv.hpp>
#include <jsoncons_ext/toon/toon.hpp>
#include <cfloat>
#include <cmath>
VF_DEFINE_OPERATOR_NEW
using namespace c05;
using jsoncons::json; using jsoncons::semantic_tag;
typedef std::vector<uint8_t> Bytes;

static std::vector<json> leaves() {
    std::vector<json> v;
    std::vector<semantic_tag> tags; for (int t = 0; t <= 21; ++t) tags.push_back(semantic_tag(t));
    for (auto t : tags) {
        v.push_back(json(jsoncons::null_type(), t)); v.push_back(json(true, t)); v.push_back(json(int64_t(-1), t)); v.push_back(json(INT64_MIN, t)); v.push_back(json(uint64_t(1600000000), t)); v.push_back(json(UINT64_MAX, t));
        v.push_back(json(1.5, t)); v.push_back(json(jsoncons::half_arg, uint16_t(0x3c00), t));
        for (auto s : {"", "1", "-12345678901234567890123", "1.5e-400", "0x1p+3", "abc", "2020-01-01T00:00:00Z", "\xff\xfe", "a long string that needs the heap ................", "1e", "-", "0x", "18446744073709551616e18446744073709551616",
                       // integers at the edges of what a timestamp's seconds / milliseconds / nanoseconds fields hold
                       "9223372036854775807", "-9223372036854775808", "9223372036854775808", "-9223372036854775809", "9223372036854775807999", "-9223372036854775808001", "-9223372036854775808000",
                       "9223372036854775807999999999", "-9223372036854775808000000001", "-9223372036854775808000000000", "18446744073709551615", "4294967296", "17179869184"}) v.push_back(json(s, t));
        v.push_back(json(jsoncons::byte_string_arg, Bytes{}, t)); v.push_back(json(jsoncons::byte_string_arg, Bytes{0, 255, 16}, t));
        v.push_back(json(jsoncons::json_array_arg, t)); v.push_back(json(jsoncons::json_object_arg, t));
    }
    for (double d : {0.0, -0.0, double(NAN), double(INFINITY), -double(INFINITY), DBL_MAX, -DBL_MAX, DBL_MIN, 5e-324, 1e21, 1e-7, 123456789.123456789, 0.1, 1e300}) v.push_back(json(d));
    v.push_back(json(jsoncons::byte_string_arg, Bytes{1, 2}, uint64_t(0))); v.push_back(json(jsoncons::byte_string_arg, Bytes{1, 2}, UINT64_MAX)); v.push_back(json(jsoncons::byte_string_arg, Bytes(300, 7), uint64_t(255)));
    return v;
}
static std::vector<json> g_leaves;
static json shape(int sh, const json& x, const json& y) {
    switch (sh) {
        case 0: return x;
        case 1: { json a(jsoncons::json_array_arg); a.push_back(x); a.push_back(y); return a; }
        case 2: { json o(jsoncons::json_object_arg); o.try_emplace("a", x); o.try_emplace("", y); return o; }
        case 3: { json a(jsoncons::json_array_arg, semantic_tag::multi_dim_row_major); json dims(jsoncons::json_array_arg); dims.push_back(1); dims.push_back(2); a.push_back(dims); json data(jsoncons::json_array_arg); data.push_back(x); data.push_back(y); a.push_back(data); return a; }
        default: { json o(jsoncons::json_object_arg); json in(jsoncons::json_array_arg); in.push_back(x); o.try_emplace("k", in); json a(jsoncons::json_array_arg); a.push_back(o); a.push_back(y); return a; }
    }
}
static const int NFAM = 9;
static const char* FAM[NFAM] = {"json-float", "json-bignum", "cbor", "msgpack", "ubjson", "bson", "csv", "toon", "conv"};
static void add_encoders(Case& c, const json& v, int fam) {
    switch (fam) {
        case 0:   // JSON encoder: float formats x precisions
            for (int ff = 0; ff < 4; ++ff) for (int prec : {0, 1, 17, 40, 127}) c.entries.push_back([v, ff, prec] { jsoncons::json_options o; o.float_format(jsoncons::float_chars_format(ff)).precision(int8_t(prec)); std::string s; v.dump(s, o); std::string t; v.dump_pretty(t, o); });
            break;
        case 1:   // bignum formats, byte string formats, NaN/Inf substitutions
            for (int bf = 0; bf < 4; ++bf) c.entries.push_back([v, bf] { jsoncons::json_options o; o.bignum_format(jsoncons::bignum_format_kind(bf)).byte_string_format(jsoncons::byte_string_chars_format(bf % 4)); o.nan_to_str("NaN").inf_to_num("1e9999").neginf_to_str("-Inf").escape_all_non_ascii(true); std::string s; v.dump(s, o); });
            c.entries.push_back([v] { std::string s; v.dump(s); std::string t; v.dump_pretty(t); });
            break;
        case 2: c.entries.push_back([v] { Bytes b; jsoncons::cbor::encode_cbor(v, b); }); c.entries.push_back([v] { Bytes p; jsoncons::cbor::cbor_options o; o.pack_strings(true).use_typed_arrays(true); jsoncons::cbor::encode_cbor(v, p, o); }); break;
        case 3: c.entries.push_back([v] { Bytes b; jsoncons::msgpack::encode_msgpack(v, b); }); break;
        case 4: c.entries.push_back([v] { Bytes b; jsoncons::ubjson::encode_ubjson(v, b); }); break;
        case 5: c.entries.push_back([v] { Bytes b; jsoncons::bson::encode_bson(v, b); }); break;
        case 6: c.entries.push_back([v] { std::string s; jsoncons::csv::csv_options o; o.quote_style(jsoncons::csv::quote_style_kind::minimal); jsoncons::csv::encode_csv(v, s, o); });
                c.entries.push_back([v] { std::string s; jsoncons::csv::csv_options o; o.mapping_kind(jsoncons::csv::csv_mapping_kind::m_columns); jsoncons::csv::encode_csv(v, s, o); }); break;
        case 7: c.entries.push_back([v] { std::string s; jsoncons::toon::encode_toon(v, s); }); break;
        default:  // conversions on the value itself
            c.entries.push_back([v] { (void)v.is_number(); try { (void)v.as<double>(); } catch (const std::exception& e) { if (!dynamic_cast<const jsoncons::json_exception*>(&e)) throw; } try { (void)v.as<int64_t>(); } catch (const std::exception& e) { if (!dynamic_cast<const jsoncons::json_exception*>(&e)) throw; } try { (void)v.as<std::string>(); } catch (const std::exception& e) { if (!dynamic_cast<const jsoncons::json_exception*>(&e)) throw; } try { (void)v.as<std::vector<uint8_t>>(); } catch (const std::exception& e) { if (!dynamic_cast<const jsoncons::json_exception*>(&e)) throw; } });
            break;
    }
}
// Stream sinks: output that fills the sink's internal buffer (16384 bytes) exactly at every kind of write (single byte head,
// multi-byte append), for every alignment of the content against the buffer end, in every format.
static const int STREAM_LO = 16384 - 56, STREAM_HI = 16384 + 24, NSTREAMFMT = 7, NSTREAMSHAPE = 3;
static const char* STREAMFMT[NSTREAMFMT] = {"cbor", "msgpack", "ubjson", "bson", "json", "json-pretty", "csv"};
static json stream_value(int shape, int n, bool object_root) {
    json v;
    if (shape == 0) { v = json(jsoncons::json_array_arg); v.push_back(json(jsoncons::byte_string_arg, std::vector<uint8_t>(size_t(n), 0x61))); v.push_back("hello world"); v.push_back(1); v.push_back(-1.5); }
    else if (shape == 1) { v = json(jsoncons::json_array_arg); v.push_back(std::string(size_t(n), 'a')); v.push_back(7); v.push_back(json(jsoncons::json_array_arg)); v.push_back(true); v.push_back("tail"); }
    else { v = json(jsoncons::json_object_arg); v.try_emplace("k", std::string(size_t(n), 'a')); json z(jsoncons::json_array_arg); z.push_back(1); z.push_back(2); v.try_emplace("z", z); v.try_emplace("zz", "end"); }
    if (object_root && !v.is_object()) { json o(jsoncons::json_object_arg); o.try_emplace("r", v); return o; }
    return v;
}
static void add_stream(Case& c, int fmt, int shape, int n) {
    json v = stream_value(shape, n, fmt == 3);
    c.entries.push_back([v, fmt] {
        std::ostringstream os;
        switch (fmt) {
            case 0: jsoncons::cbor::encode_cbor(v, os); break;
            case 1: jsoncons::msgpack::encode_msgpack(v, os); break;
            case 2: jsoncons::ubjson::encode_ubjson(v, os); break;
            case 3: jsoncons::bson::encode_bson(v, os); break;
            case 4: v.dump(os); break;
            case 5: v.dump_pretty(os); break;
            default: { json rows(jsoncons::json_array_arg); rows.push_back(v.is_array() ? v : json(jsoncons::json_array_arg)); if (rows[0].empty()) { rows[0].push_back(v.is_object() ? v["k"] : v); } jsoncons::csv::csv_options o; o.assume_header(false); jsoncons::csv::encode_csv(rows, os, o); break; }
        }
        std::string s = os.str(); (void)s;
    });
}

// Readers piped straight into encoders: every source format x every target encoder x documents of every root kind and container
// form (an encoder may refuse what it cannot write, e.g. a container of unknown length; whatever happens must be an error code
// or a json_exception-family exception)
static const int NPIPESRC = 6, NPIPEDST = 7, NPIPEDOC = 5;
static const char* PIPESRC[NPIPESRC] = {"json", "csv", "cbor", "msgpack", "ubjson", "bson"};
static const char* PIPEDST[NPIPEDST] = {"json", "json-pretty", "cbor", "msgpack", "ubjson", "bson", "csv"};
static json pipe_doc(int d) {
    switch (d) { case 0: return json::parse(R"({"a":1,"b":[1,{"c":[]},"s"],"d":{"e":null}})"); case 1: return json::parse(R"([1,[2,[3]],{"a":{}},"x",2.5,true])");
        case 2: return json(7); case 3: return json::parse(R"([{"a":1,"b":"x"},{"a":2,"b":"y"}])"); default: return json::parse(R"({"m":[[1,2],[3,4]],"n":[]})"); }
}
template <class Enc, class Sink> static void pipe_into(int src, const json& v, Sink& sink) {
    Enc enc(sink); std::error_code ec;
    switch (src) {
        case 0: { std::string t; v.dump(t); jsoncons::json_string_reader rd(t, enc); rd.read(ec); break; }
        case 1: { std::string t = "a,b\n1,x\n2,\"y,z\"\n"; jsoncons::csv::csv_options o; o.assume_header(true); if (v.is_array()) o.mapping_kind(jsoncons::csv::csv_mapping_kind::n_rows); else if (v.is_object()) o.mapping_kind(jsoncons::csv::csv_mapping_kind::m_columns); jsoncons::csv::csv_string_reader rd(t, enc, o); rd.read(ec); break; }
        case 2: { std::vector<uint8_t> b; jsoncons::cbor::encode_cbor(v, b); jsoncons::cbor::cbor_bytes_reader rd(b, enc); rd.read(ec); std::vector<uint8_t> ind = {0x9f, 0x01, 0xbf, 0x61, 0x61, 0x9f, 0xff, 0xff, 0x7f, 0x61, 0x78, 0xff, 0xff}; Enc enc2(sink); jsoncons::cbor::cbor_bytes_reader rd2(ind, enc2); std::error_code ec2; rd2.read(ec2); break; }
        case 3: { std::vector<uint8_t> b; jsoncons::msgpack::encode_msgpack(v, b); jsoncons::msgpack::msgpack_bytes_reader rd(b, enc); rd.read(ec); break; }
        case 4: { std::vector<uint8_t> b; jsoncons::ubjson::encode_ubjson(v, b); jsoncons::ubjson::ubjson_bytes_reader rd(b, enc); rd.read(ec); std::vector<uint8_t> ind = {'[', 'i', 1, '{', 'i', 1, 'a', '[', ']', '}', 'S', 'i', 1, 'x', ']'}; Enc enc2(sink); jsoncons::ubjson::ubjson_bytes_reader rd2(ind, enc2); std::error_code ec2; rd2.read(ec2); break; }
        default: { json o = v.is_object() ? v : json(jsoncons::json_object_arg); if (!v.is_object()) o.try_emplace("r", v); std::vector<uint8_t> b; jsoncons::bson::encode_bson(o, b); jsoncons::bson::bson_bytes_reader rd(b, enc); rd.read(ec); break; }
    }
}
static void add_pipe(Case& c, int src, int dst, int doc) {
    json v = pipe_doc(doc);
    c.entries.push_back([v, src, dst] {
        std::string text; std::vector<uint8_t> bytes;
        switch (dst) {
            case 0: pipe_into<jsoncons::compact_json_string_encoder>(src, v, text); break;
            case 1: pipe_into<jsoncons::json_string_encoder>(src, v, text); break;
            case 2: pipe_into<jsoncons::cbor::cbor_bytes_encoder>(src, v, bytes); break;
            case 3: pipe_into<jsoncons::msgpack::msgpack_bytes_encoder>(src, v, bytes); break;
            case 4: pipe_into<jsoncons::ubjson::ubjson_bytes_encoder>(src, v, bytes); break;
            case 5: pipe_into<jsoncons::bson::bson_bytes_encoder>(src, v, bytes); break;
            default: pipe_into<jsoncons::csv::csv_string_encoder>(src, v, text); break;
        }
    });
}

int main(int argc, char** argv) {
    Args a(argc, argv);
    bool thorough = a.get("tier", "quick") == "thorough";
    g_leaves = leaves();
    long long nl = (long long)g_leaves.size();
    // shape 0: every leaf alone; shapes 1..4: every leaf paired with a few partner leaves (thorough: with every 7th leaf)
    std::vector<size_t> partners = {0, 2, 8, 12, 20};
    if (thorough) { partners.clear(); for (size_t i = 0; i < (size_t)nl; i += 7) partners.push_back(i); }
    long long nvalues = nl + 4 * nl * (long long)partners.size();
    long long total = nvalues * NFAM;
    long long nstream = (long long)(STREAM_HI - STREAM_LO + 1) * NSTREAMFMT * NSTREAMSHAPE;
    long long npipe = (long long)NPIPESRC * NPIPEDST * NPIPEDOC;
    auto gen = [&](long long idx, Case& c) {
        if (idx >= total + nstream) {
            long long x = idx - total - nstream; int doc = int(x % NPIPEDOC); x /= NPIPEDOC; int dst = int(x % NPIPEDST); int src = int(x / NPIPEDST);
            c.sig = std::string("ENC|pipe-") + PIPESRC[src] + "-" + PIPEDST[dst] + "|" + std::to_string(doc) + "/0";
            c.what = std::string(PIPESRC[src]) + " reader piped into the " + PIPEDST[dst] + " encoder, document " + std::to_string(doc);
            add_pipe(c, src, dst, doc); return;
        }
        if (idx >= total) {
            long long x = idx - total; int fmt = int(x % NSTREAMFMT); x /= NSTREAMFMT; int sh = int(x % NSTREAMSHAPE); int n = STREAM_LO + int(x / NSTREAMSHAPE);
            c.sig = std::string("ENC|stream-") + STREAMFMT[fmt] + "|" + std::to_string(sh) + "/" + std::to_string(n);
            c.what = std::string(STREAMFMT[fmt]) + " encoder into a std::ostream, value shape " + std::to_string(sh) + " with a " + std::to_string(n) + "-byte string";
            add_stream(c, fmt, sh, n); return;
        }
        int fam = int(idx % NFAM); long long i = idx / NFAM;
        json v; std::string d;
        if (i < nl) { v = g_leaves[i]; d = "0/" + std::to_string(i); }
        else { long long x = i - nl; int sh = 1 + int(x % 4); x /= 4; size_t pi = x % partners.size(); size_t li = x / partners.size(); v = shape(sh, g_leaves[li], g_leaves[partners[pi]]); d = std::to_string(sh) + "/" + std::to_string(li) + "/" + std::to_string(partners[pi]); }
        c.sig = std::string("ENC|") + FAM[fam] + "|" + d; c.what = std::string(FAM[fam]) + " encoder on value " + mv_text(to_mv(v)).substr(0, 200);
        add_encoders(c, v, fam);
    };
    if (a.replay && split(a.sig, '|')[1].compare(0, 5, "pipe-") == 0) {
        auto p = split(a.sig, '|'); auto q = split(p[1], '-'); int src = 0, dst = 0; std::string dn = q[2]; for (size_t k = 3; k < q.size(); ++k) dn += "-" + q[k];
        for (int k = 0; k < NPIPESRC; ++k) if (q[1] == PIPESRC[k]) src = k; for (int k = 0; k < NPIPEDST; ++k) if (dn == PIPEDST[k]) dst = k;
        int doc = atoi(p[2].c_str());
        run_cases(1, 0, 1, [&](long long, Case& c) { c.sig = p[0] + "|" + p[1] + "|" + p[2]; c.what = "piped transcoding"; add_pipe(c, src, dst, doc); });
        out().flush(); return 0;
    }
    if (a.replay && split(a.sig, '|')[1].compare(0, 7, "stream-") == 0) {
        auto p = split(a.sig, '|'); auto q = split(p[2], '/'); int fmt = 0; for (int k = 0; k < NSTREAMFMT; ++k) if (p[1].substr(7) == STREAMFMT[k]) fmt = k;
        run_cases(1, 0, 1, [&](long long, Case& c) { c.sig = p[0] + "|" + p[1] + "|" + p[2]; c.what = "stream encoder"; add_stream(c, fmt, atoi(q[0].c_str()), atoi(q[1].c_str())); });
        out().flush(); return 0;
    }
    if (a.replay) {
        auto p = split(a.sig, '|'); auto q = split(p[2], '/'); json v;
        if (q[0] == "0") v = g_leaves[atoi(q[1].c_str())]; else v = shape(atoi(q[0].c_str()), g_leaves[atoi(q[1].c_str())], g_leaves[atoi(q[2].c_str())]);
        std::string d = p[2]; int fam = 0; for (int k = 0; k < NFAM; ++k) if (p[1] == FAM[k]) fam = k;
        run_cases(1, 0, 1, [&](long long, Case& c) { c.sig = std::string("ENC|") + FAM[fam] + "|" + d; c.what = std::string(FAM[fam]) + " encoder on value " + mv_text(to_mv(v)).substr(0, 200); add_encoders(c, v, fam); });
        out().flush(); return 0;
    }
    run_cases(total + nstream + npipe, a.slice, a.nslices, gen);
    out().cls("encoders"); if (a.slice == 0) { out().gauge("leaf_values", nl); out().sample("every storage kind x every semantic tag (22) x ill- and well-typed contents, alone and in 4 container shapes, through 34 encoder entries"); }
    out().flush();
    return 0;
}
