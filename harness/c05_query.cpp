// C05 unit: JSONPath and JMESPath compilers/evaluators on every short token sequence.
#include "c05_common.hpp"
#include <jsoncons_ext/jsonpath/jsonpath.hpp>
#include <jsoncons_ext/jmespath/jmespath.hpp>
VF_DEFINE_OPERATOR_NEW
using namespace c05;
using jsoncons::json;
static json g_doc;

static void add_jsonpath(Case& c, const std::string& t) {
    c.entries.push_back([t] { std::error_code ec; auto e = jsoncons::jsonpath::make_expression<json>(t, ec); if (!ec) { json r = e.evaluate(g_doc); json p = e.evaluate(g_doc, jsoncons::jsonpath::result_options::path | jsoncons::jsonpath::result_options::nodups | jsoncons::jsonpath::result_options::sort); std::string s; r.dump(s); p.dump(s); } });
    c.entries.push_back([t] { json r = jsoncons::jsonpath::json_query(g_doc, t); (void)r; });
    c.entries.push_back([t] { json d = g_doc; jsoncons::jsonpath::json_replace(d, t, json("x")); std::string s; d.dump(s); });
}
static void add_jmespath(Case& c, const std::string& t) {
    c.entries.push_back([t] { std::error_code ec; auto e = jsoncons::jmespath::make_expression<json>(t, ec); if (!ec) { json r = e.evaluate(g_doc, ec); std::string s; r.dump(s); } });
    c.entries.push_back([t] { json r = jsoncons::jmespath::search(g_doc, t); (void)r; });
}
int main(int argc, char** argv) {
    Args a(argc, argv);
    bool thorough = a.get("tier", "quick") == "thorough";
    g_doc = json::parse(R"({"a":[{"k":"abc","n":1},{"k":"x","n":2.5},null,[1,[2]]],"b":"s","c":{"d":true},"":0})");
    struct Space { const char* name; SeqSpace sp; void (*add)(Case&, const std::string&); };
    std::vector<Space> spaces = {
        {"jsonpath", {{"$", "@", ".", "..", "*", "[", "]", "(", ")", "?", "'a'", "\"", "a", "0", "-1", ":", ",", "==", "<", "&&", "!", "^", "length", " ", "=~", "/a/", "+", "'", "/[/", "/(/i"}, thorough ? 5 : 4}, add_jsonpath},
        {"jmespath", {{"a", ".", "[", "]", "*", "?", "(", ")", "|", "||", "&&", "!", "@", "`1`", "'x'", "\"", "0", "-", ":", ",", "{", "}", "&", "==", "<", "length", "sort_by", " ", "`"}, thorough ? 5 : 4}, add_jmespath},
    };
    std::vector<long long> off; long long total = 0; for (auto& s : spaces) { off.push_back(total); total += s.sp.count(); }
    auto gen = [&](long long i, Case& c) { size_t k = spaces.size() - 1; while (i < off[k]) --k; std::string t = spaces[k].sp.at(i - off[k]); c.sig = std::string("QRY|") + spaces[k].name + "|" + hex(t); c.what = std::string(spaces[k].name) + " on expression '" + t + "'"; spaces[k].add(c, t); };
    if (a.replay) {
        auto p = split(a.sig, '|'); std::string t = unhex(p[2]);
        for (auto& s : spaces) if (p[1] == s.name) run_cases(1, 0, 1, [&](long long, Case& c) { c.sig = std::string("QRY|") + s.name + "|" + hex(t); c.what = std::string(s.name) + " on expression '" + t + "'"; s.add(c, t); });
        out().flush(); return 0;
    }
    run_cases(total, a.slice, a.nslices, gen);
    out().cls("query"); if (a.slice == 0) out().sample("every token sequence up to the length bound, e.g. jsonpath '$..[?(@' and jmespath 'a[?`1`|'");
    out().flush();
    return 0;
}
