// C05 unit: JSON Schema compiler: every keyword x every JSON value kind (right and wrong types) x 5 drafts, then validation of 6 instances.
#include "c05_common.hpp"
#include <jsoncons_ext/jsonschema/jsonschema.hpp>
VF_DEFINE_OPERATOR_NEW
using namespace c05;
using jsoncons::json;

int main(int argc, char** argv) {
    Args a(argc, argv);
    static const std::vector<std::string> drafts = {"http://json-schema.org/draft-04/schema#", "http://json-schema.org/draft-06/schema#", "http://json-schema.org/draft-07/schema#", "https://json-schema.org/draft/2019-09/schema", "https://json-schema.org/draft/2020-12/schema"};
    static const std::vector<std::string> keywords = {"type", "enum", "const", "multipleOf", "maximum", "exclusiveMaximum", "minimum", "exclusiveMinimum", "maxLength", "minLength", "pattern", "items", "additionalItems", "prefixItems",
        "maxItems", "minItems", "uniqueItems", "contains", "maxContains", "minContains", "maxProperties", "minProperties", "required", "properties", "patternProperties", "additionalProperties", "dependencies", "dependentRequired",
        "dependentSchemas", "propertyNames", "if", "then", "else", "allOf", "anyOf", "oneOf", "not", "format", "contentEncoding", "contentMediaType", "$ref", "$id", "id", "$anchor", "$defs", "definitions", "$recursiveRef", "$dynamicRef",
        "$dynamicAnchor", "$recursiveAnchor", "unevaluatedItems", "unevaluatedProperties", "default", "$vocabulary", "$comment", "title", "readOnly"};
    static const std::vector<std::string> values = {"null", "true", "false", "0", "-1", "1.5", "1e400", "\"\"", "\"a\"", "\"#\"", "\"#/a\"", "\"[\"", "\"string\"", "\"date\"", "[]", "[1]", "[\"a\"]", "[\"a\",\"a\"]", "[{}]", "[true,false]",
        "{}", "{\"a\":1}", "{\"a\":{}}", "{\"a\":[\"b\"]}", "{\"a\":true}", "{\"[\":{}}", "{\"type\":\"integer\"}", "{\"$ref\":\"#\"}", "[[1]]", "{\"a\":{\"$ref\":\"#/x\"}}"};
    static const std::vector<std::string> instances = {"null", "1", "\"a\"", "[1,\"a\"]", "{\"a\":1}", "{\"a\":{\"b\":[1]},\"c\":\"x\"}"};
    long long total = (long long)drafts.size() * keywords.size() * values.size() * 2;
    auto gen = [&](long long i, Case& c) {
        int pair = int(i % 2); i /= 2; size_t vi = i % values.size(); i /= values.size(); size_t ki = i % keywords.size(); i /= keywords.size(); size_t di = i;
        // pair==1: the keyword next to a second keyword that interacts with it
        std::string text = "{\"$schema\":\"" + drafts[di] + "\",\"" + keywords[ki] + "\":" + values[vi] + (pair ? ",\"type\":\"object\",\"properties\":{\"a\":{\"" + keywords[ki] + "\":" + values[vi] + "}},\"items\":{\"" + keywords[ki] + "\":" + values[vi] + "}" : "") + "}";
        c.sig = "SCH|schema|" + hex(text); c.what = "json schema " + text;
        c.entries.push_back([text] {
            json s = json::parse(text);
            auto compiled = jsoncons::jsonschema::make_json_schema(s);
            for (auto& it : instances) { json inst = json::parse(it); bool v = compiled.is_valid(inst); (void)v; size_t n = 0; compiled.validate(inst, [&](const jsoncons::jsonschema::validation_message&) { ++n; return jsoncons::jsonschema::walk_result::advance; }); json patch; try { compiled.validate(inst, patch); } catch (const jsoncons::jsonschema::validation_error&) {} }
        });
    };
    if (a.replay) {
        auto p = split(a.sig, '|'); std::string text = unhex(p[2]);
        run_cases(1, 0, 1, [&](long long, Case& c) { c.sig = "SCH|schema|" + hex(text); c.what = "json schema " + text; c.entries.push_back([text] { json s = json::parse(text); auto compiled = jsoncons::jsonschema::make_json_schema(s); for (auto& it : instances) { json inst = json::parse(it); (void)compiled.is_valid(inst); size_t n = 0; compiled.validate(inst, [&](const jsoncons::jsonschema::validation_message&) { ++n; return jsoncons::jsonschema::walk_result::advance; }); json patch; try { compiled.validate(inst, patch); } catch (const jsoncons::jsonschema::validation_error&) {} } }); });
        out().flush(); return 0;
    }
    run_cases(total, a.slice, a.nslices, gen);
    out().cls("schema"); if (a.slice == 0) out().sample("every keyword x 30 values x 5 drafts, alone and nested, compiled and run on 6 instances, e.g. {\"items\":\"[\"}");
    out().flush();
    return 0;
}
