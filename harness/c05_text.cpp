// C05 unit: text decoders (JSON, CSV, TOON), JSON Pointer and URI parsers on every short string over small alphabets.
#include "c05_common.hpp"
#include <jsoncons/json_cursor.hpp>
#include <jsoncons_ext/csv/csv.hpp>
#include <jsoncons_ext/toon/toon.hpp>
#include <jsoncons_ext/toon/decode_toon.hpp>
#include <jsoncons_ext/jsonpointer/jsonpointer.hpp>
#include <jsoncons/utility/uri.hpp>
#include <sstream>
VF_DEFINE_OPERATOR_NEW
using namespace c05;
using jsoncons::json; using jsoncons::ojson;

static json g_doc;

static void add_json(Case& c, const std::string& t) {
    for (int o = 0; o < 3; ++o) {
        c.entries.push_back([t, o] { jsoncons::json_options opt; if (o == 1) { opt.allow_comments(true).allow_trailing_comma(true); } if (o == 2) { opt.lossless_number(true).max_nesting_depth(2).allow_comments(false); }
            std::error_code ec; jsoncons::json_decoder<json> d; jsoncons::json_string_reader rd(t, d, opt); rd.read(ec); if (!ec && d.is_valid()) { json j = d.get_result(); std::string s; j.dump_pretty(s); } });
    }
    c.entries.push_back([t] { std::error_code ec; jsoncons::json_string_cursor cur(t, ec); int n = 0; while (!ec && !cur.done() && ++n < 10000) cur.next(ec); });
    c.entries.push_back([t] { std::istringstream is(t); std::error_code ec; jsoncons::json_stream_cursor cur(jsoncons::stream_source<char>(is, 1), ec); int n = 0; while (!ec && !cur.done() && ++n < 10000) cur.next(ec); });
    c.entries.push_back([t] { auto r = jsoncons::try_decode_json<std::vector<int>>(t); (void)r; });
    c.entries.push_back([t] { std::wstring w(t.begin(), t.end()); try { jsoncons::wjson j = jsoncons::wjson::parse(w); std::wstring s; j.dump(s); } catch (const jsoncons::ser_error&) {} });
}
static void add_csv(Case& c, const std::string& t) {
    for (int o = 0; o < 8; ++o) {
        c.entries.push_back([t, o] {
            jsoncons::csv::csv_options opt; opt.assume_header(o & 1); opt.mapping_kind(o & 2 ? jsoncons::csv::csv_mapping_kind::m_columns : (o & 4 ? jsoncons::csv::csv_mapping_kind::n_objects : jsoncons::csv::csv_mapping_kind::n_rows));
            if (o & 4) { opt.trim(true).comment_starter('#').quote_escape_char('\\').subfield_delimiter(';').unquoted_empty_value_is_null(true).ignore_empty_lines(false); opt.column_types("integer,string*"); }
            auto r = jsoncons::csv::try_decode_csv<ojson>(t, opt); if (r) { std::string s; r->dump(s); } });
    }
    // the column-caching mapping with every combination of the options that drop or split fields
    for (int o = 0; o < 8; ++o) c.entries.push_back([t, o] {
        jsoncons::csv::csv_options opt; opt.assume_header(true).mapping_kind(jsoncons::csv::csv_mapping_kind::m_columns);
        if (o & 1) opt.subfield_delimiter(';'); if (o & 2) opt.ignore_empty_values(true); if (o & 4) opt.ignore_empty_lines(false).unquoted_empty_value_is_null(true).infer_types(false);
        auto r = jsoncons::csv::try_decode_csv<ojson>(t, opt); if (r) { std::string s; r->dump(s); } });
    c.entries.push_back([t] { jsoncons::csv::csv_options opt; opt.assume_header(true); std::error_code ec; jsoncons::csv::csv_string_cursor cur(t, opt, ec); int n = 0; while (!ec && !cur.done() && ++n < 10000) cur.next(ec); });
}
static void add_toon(Case& c, const std::string& t) {
    c.entries.push_back([t] { auto r = jsoncons::toon::try_decode_toon<ojson>(t); if (r) { std::string s; r->dump(s); } });
    c.entries.push_back([t] { jsoncons::toon::toon_options o; o.indent(4); o.delimiter(jsoncons::toon::toon_delimiter_kind::pipe); auto r = jsoncons::toon::try_decode_toon<json>(t, o); (void)r; });
    c.entries.push_back([t] { std::istringstream is(t); auto r = jsoncons::toon::try_decode_toon<json>(is); (void)r; });
}
static void add_pointer(Case& c, const std::string& t) {
    c.entries.push_back([t] { std::error_code ec; auto p = jsoncons::jsonpointer::json_pointer::parse(t, ec); if (!ec) { std::string s = p.to_string(); (void)s; } });
    c.entries.push_back([t] { std::error_code ec; json d = g_doc; (void)jsoncons::jsonpointer::contains(d, t); jsoncons::jsonpointer::get(d, t, ec); ec.clear(); jsoncons::jsonpointer::add(d, t, json(1), ec); ec.clear(); jsoncons::jsonpointer::replace(d, t, json("x"), ec); ec.clear(); jsoncons::jsonpointer::remove(d, t, ec); ec.clear(); jsoncons::jsonpointer::add_if_absent(d, t, json(2), ec); std::string s; d.dump(s); });
}
static void add_uri(Case& c, const std::string& t) {
    c.entries.push_back([t] { std::error_code ec; jsoncons::uri u = jsoncons::uri::parse(t, ec); if (!ec) { std::string s = u.string(); (void)u.scheme(); (void)u.host(); (void)u.path(); (void)u.fragment(); (void)u.is_absolute(); jsoncons::uri b("http://a/b/c/d;p?q"); jsoncons::uri r = u.resolve(b); (void)r.string(); jsoncons::uri r2 = b.resolve(u); (void)r2.string(); } });
    // reference resolution in both directions against partners of every shape (absolute, relative path, dot segments that pop
    // more than there is, empty, query/fragment only, network-path)
    c.entries.push_back([t] { std::error_code ec; jsoncons::uri u = jsoncons::uri::parse(t, ec); if (ec) return;
        static const char* partners[] = {"../c", "../../g", "./x/../y", "a/b", "x/y/z", "", "?q", "#f", "//h/p/..", "/..", "..", ".", "a/..", "a/../..", "http://h", "http://h/..", "s:a/b", "s:"};
        for (const char* p : partners) { std::error_code e2; jsoncons::uri v = jsoncons::uri::parse(p, e2); if (e2) continue; jsoncons::uri r = u.resolve(v); (void)r.string(); jsoncons::uri r2 = v.resolve(u); (void)r2.string(); (void)r2.base(); } });
    c.entries.push_back([t] { try { jsoncons::uri u(t); (void)u.base(); (void)u.encoded_path(); } catch (const std::system_error&) {} });
}

int main(int argc, char** argv) {
    Args a(argc, argv);
    bool thorough = a.get("tier", "quick") == "thorough";
    g_doc = json::parse(R"({"a":[1,2,{"b":null}],"":{"~":1,"/":2},"0":"x"})");
    struct Space { const char* name; SeqSpace sp; void (*add)(Case&, const std::string&); };
    std::vector<Space> spaces = {
        {"json", {{"{", "}", "[", "]", ",", ":", "\"", "\\", "/", "*", "0", "1", "-", "+", ".", "e", " ", "\n", "t", "r", "u", "f", "a", "l", "s", "n", "\x01", "\xc3", "\xa9", "\xff"}, thorough ? 5 : 4}, add_json},
        {"csv", {{"a", "1", ",", ";", "\"", "'", "\n", "\r", " ", "#", "\\", "-", "."}, thorough ? 6 : 5}, add_csv},
        {"toon", {{"a", "1", ":", " ", "\n", "-", "[", "]", ",", "\"", "{", "}", "|", "\t", "#", "\\", "e", ".", "99999999999999999999999", "0"}, thorough ? 5 : 4}, add_toon},
        {"pointer", {{"/", "~", "0", "1", "a", "-", "2"}, thorough ? 7 : 6}, add_pointer},
        {"uri", {{"a", ":", "/", "?", "#", "@", "[", "]", "%", "4", ".", "g"}, thorough ? 6 : 5}, add_uri},
    };
    std::vector<long long> off; long long total = 0; for (auto& s : spaces) { off.push_back(total); total += s.sp.count(); }
    auto gen = [&](long long i, Case& c) { size_t k = spaces.size() - 1; while (i < off[k]) --k; std::string t = spaces[k].sp.at(i - off[k]); c.sig = std::string("TXT|") + spaces[k].name + "|" + hex(t); c.what = std::string(spaces[k].name) + " on input '" + t + "'"; spaces[k].add(c, t); };
    if (a.replay) {
        auto p = split(a.sig, '|'); std::string t = unhex(p[2]);
        for (auto& s : spaces) if (p[1] == s.name) run_cases(1, 0, 1, [&](long long, Case& c) { c.sig = std::string("TXT|") + s.name + "|" + hex(t); c.what = std::string(s.name) + " on input '" + t + "'"; s.add(c, t); });
        out().flush(); return 0;
    }
    run_cases(total, a.slice, a.nslices, gen);
    out().cls("text"); if (a.slice == 0) out().sample("every string up to the length bound over the json/csv/toon/pointer/uri alphabets, e.g. toon 'a[1]:\\n -'");
    out().flush();
    return 0;
}
