// C06 — binary formats round-trip the data model: DOM and streaming-encoder entry points (typed entry: c06_typed.cpp).
//
//   c06 <mode> [tier=quick|thorough] [ref=1] [N=<nodes>] <slice> <nslices>      mode in leaves|trees|counts|depth|strref|typed
//   c06 replay <sig>
//
// Every case id is self-describing (it names the value, not an index into a tier-dependent list), so a signature replays
// the same case whatever tier produced it.
#include "c06_common.hpp"
#include "trees.hpp"

using namespace c06;

// ------------------------------------------------------------------------------------------------------------------
// value set: leaves
static std::string text_of(size_t n, const std::string& tail = "") {
    std::string s;
    if (n < tail.size()) return tail;
    for (size_t i = 0; i + tail.size() < n; ++i) s.push_back(char('a' + (i * 7 + i / 26) % 26));
    return s + tail;
}
static std::string bytes_of(size_t n) { std::string s; for (size_t i = 0; i < n; ++i) s.push_back(char((i * 37 + 1) & 0xff)); return s; }

typedef std::pair<std::string, MV> Named;

static const std::vector<Named>& leaf_values() {
    static std::vector<Named> L;
    if (!L.empty()) return L;
    auto add = [&](const std::string& id, const MV& m) { L.emplace_back(id, m); };
    add("null", MV::null()); add("undefined", tagged(MV::null(), T_UNDEF)); add("true", MV::boolean(true)); add("false", MV::boolean(false));
    // integers on both sides of every width boundary, in both storage kinds where both exist
    const uint64_t P[] = {0, 1, 23, 24, 31, 32, 127, 128, 255, 256, 32767, 32768, 65535, 65536, 2147483647ULL, 2147483648ULL, 4294967295ULL, 4294967296ULL,
                          9007199254740993ULL, 9223372036854775807ULL, 9223372036854775808ULL, 18446744073709551615ULL};
    for (uint64_t p : P) { add("u:" + std::to_string(p), MV::uint64(p)); if (p <= uint64_t(INT64_MAX)) add("i:" + std::to_string(p), MV::int64(int64_t(p))); }
    const int64_t Ng[] = {-1, -23, -24, -25, -32, -33, -127, -128, -129, -255, -256, -257, -32768, -32769, -65535, -65536, -65537, -2147483647LL - 1, -2147483649LL,
                          -4294967295LL, -4294967296LL, -4294967297LL, -9007199254740993LL, INT64_MIN + 1, INT64_MIN};
    for (int64_t n : Ng) add("i:" + std::to_string(n), MV::int64(n));
    // epoch-tagged integers
    const int64_t ES[] = {0, 1, -1, 1363896240LL, 4294967295LL, 4294967296LL, 17179869183LL, 17179869184LL, -2147483648LL, 9223372036854775LL, 9223372036854776LL,
                          -9223372036854775LL, -9223372036854776LL, INT64_MAX, INT64_MIN};
    for (int64_t s : ES) add("esec:" + std::to_string(s), tagged(MV::int64(s), T_ESEC));
    add("esec:u0", tagged(MV::uint64(0), T_ESEC)); add("esec:u1363896240", tagged(MV::uint64(1363896240ULL), T_ESEC)); add("esec:umax", tagged(MV::uint64(UINT64_MAX), T_ESEC));
    const int64_t EM[] = {0, 1, -1, 999, 1000, 1500, -999, -1000, -1500, 1363896240500LL, INT64_MAX, INT64_MIN};
    for (int64_t s : EM) add("emilli:" + std::to_string(s), tagged(MV::int64(s), T_EMILLI));
    add("emilli:u1500", tagged(MV::uint64(1500), T_EMILLI)); add("emilli:umax", tagged(MV::uint64(UINT64_MAX), T_EMILLI)); add("emilli:u2^63", tagged(MV::uint64(9223372036854775808ULL), T_EMILLI));
    const int64_t EN[] = {0, 1, -1, 999999999LL, 1000000000LL, 1500000000LL, -999999999LL, -1000000000LL, -1500000000LL, 2000000LL, -3000000LL, 1363896240500000000LL, INT64_MAX, INT64_MIN};
    for (int64_t s : EN) add("enano:" + std::to_string(s), tagged(MV::int64(s), T_ENANO));
    add("enano:u1500000000", tagged(MV::uint64(1500000000ULL), T_ENANO)); add("enano:umax", tagged(MV::uint64(UINT64_MAX), T_ENANO)); add("esec:u2^63", tagged(MV::uint64(9223372036854775808ULL), T_ESEC));
    // doubles by bit pattern
    const uint64_t D[] = {
        0x0000000000000000ULL, 0x8000000000000000ULL, 0x3ff8000000000000ULL /*1.5*/, 0xbff8000000000000ULL, 0x3ff0000000000000ULL, 0x3fb999999999999aULL /*0.1*/,
        0x3fd5555555555555ULL /*1/3*/, 0x40effc0000000000ULL /*65504 half max*/, 0x40effc2000000000ULL /*65505*/, 0x3e70000000000000ULL /*2^-24 half min subnormal*/,
        0x3e60000000000000ULL /*2^-25*/, 0x3f10000000000000ULL /*2^-14 half min normal*/, 0x47efffffe0000000ULL /*float max*/, 0x47efffffe0000001ULL, 0x47f0000000000000ULL /*2^128*/,
        0x3810000000000000ULL /*2^-126 float min normal*/, 0x36a0000000000000ULL /*2^-149 float min subnormal*/, 0x3690000000000000ULL /*2^-150*/, 0x380fffffc0000000ULL /*float max subnormal*/,
        0x4170000010000000ULL /*16777217*/, 0x7fefffffffffffffULL /*DBL_MAX*/, 0xffefffffffffffffULL, 0x0010000000000000ULL /*DBL_MIN*/, 0x000fffffffffffffULL /*max subnormal*/,
        0x0000000000000001ULL /*5e-324*/, 0x8000000000000001ULL, 0x7ff0000000000000ULL /*inf*/, 0xfff0000000000000ULL, 0x7ff8000000000000ULL /*NaN*/, 0x7ff8000000000001ULL,
        0xfff8000000000000ULL, 0x7ff0000000000001ULL /*signalling*/, 0x7ff4000000000000ULL, 0x7fffffffffffffffULL, 0x7ff8000020000000ULL /*NaN, float-exact payload*/,
        0x7ff8040000000000ULL /*NaN, half-exact payload*/, 0x4340000000000000ULL /*2^53*/, 0x43e0000000000000ULL /*2^63*/, 0x43f0000000000000ULL /*2^64*/, 0xc3e0000000000000ULL};
    for (uint64_t b : D) { char id[40]; snprintf(id, sizeof id, "d:%016llx", (unsigned long long)b); add(id, MV::dblbits(b)); }
    add("d-esec:1363896240.5", tagged(MV::dbl(1363896240.5), T_ESEC)); add("d-esec:-0.5", tagged(MV::dbl(-0.5), T_ESEC)); add("d-esec:0", tagged(MV::dbl(0.0), T_ESEC));
    add("d-emilli:1500", tagged(MV::dbl(1500.0), T_EMILLI)); add("d-enano:1.5e9", tagged(MV::dbl(1.5e9), T_ENANO));
    const uint16_t H[] = {0x0000, 0x8000, 0x3c00, 0xbc00, 0x3e00, 0x0001, 0x03ff, 0x0400, 0x7bff, 0xfbff, 0x7c00, 0xfc00, 0x7e00, 0x7c01, 0xfe00, 0x3555};
    for (uint16_t h : H) { char id[20]; snprintf(id, sizeof id, "h:%04x", h); add(id, MV::half(h)); }
    // strings at every length-class boundary
    const size_t SL[] = {0, 1, 2, 3, 4, 15, 16, 23, 24, 25, 31, 32, 33, 127, 128, 255, 256, 257, 32767, 32768, 65535, 65536, 65537};
    for (size_t n : SL) add("s:" + std::to_string(n), MV::str(text_of(n)));
    const char* TAILS[] = {"\xc3\xa9", "\xe2\x82\xac", "\xf0\x90\x8d\x88"};
    for (size_t n : {2, 4, 23, 24, 31, 32, 33, 255, 256, 257, 65535, 65536}) for (int t = 0; t < 3; ++t) if (n >= strlen(TAILS[t])) add("s:" + std::to_string(n) + ":t" + std::to_string(t), MV::str(text_of(n, TAILS[t])));
    add("s:nul", MV::str(std::string("a\0b", 3))); add("s:del", MV::str("\x7f")); add("s:all-nonascii", MV::str("\xc3\xa9\xe2\x82\xac\xf0\x90\x8d\x88\xc2\x80\xef\xbf\xbf"));
    add("s:digits", MV::str("12345")); add("s:escapes", MV::str("\\/\n\t'\x01"));
    // semantic tags on strings
    add("datetime", MV::str("2013-03-21T20:04:00Z", T_DATETIME)); add("datetime:empty", MV::str("", T_DATETIME)); add("datetime:long", MV::str(text_of(300), T_DATETIME));
    add("uri", MV::str("http://www.example.com/a?b=c#d", T_URI)); add("uri:long", MV::str("http://a/" + text_of(256), T_URI));
    add("str-b64url", MV::str("YQ", T_B64URL)); add("str-b64", MV::str("YQ==", T_B64)); add("str-b64:long", MV::str(text_of(24), T_B64));
    // big integers: 1..40 digits, both signs, and the 64-bit edges
    {
        std::vector<std::string> bi = {"0", "1", "-1", "9", "-10", "255", "256", "-256", "-257", "65535", "65536", "4294967295", "4294967296", "9223372036854775807", "9223372036854775808",
                                       "-9223372036854775808", "-9223372036854775809", "18446744073709551615", "18446744073709551616", "18446744073709551617", "-18446744073709551616",
                                       "-18446744073709551617", "340282366920938463463374607431768211455", "340282366920938463463374607431768211456", "-340282366920938463463374607431768211457"};
        for (int k = 2; k <= 40; k += (k < 22 ? 1 : 3)) { std::string s(size_t(k), '9'); bi.push_back(s); bi.push_back("-" + s); std::string t = "1" + std::string(size_t(k - 1), '0'); bi.push_back(t); }
        bi.push_back("1" + std::string(300, '0')); bi.push_back("-" + std::string(700, '7'));
        std::set<std::string> seen;
        for (auto& s : bi) if (seen.insert(s).second) add("bigint:" + (s.size() > 45 ? s.substr(0, 8) + "_" + std::to_string(s.size()) : s), MV::str(s, T_BIGINT));
    }
    // decimal fractions: mantissa x exponent grid, int64 and bignum mantissas
    {
        const char* M[] = {"0", "1", "-1", "15", "-25", "27315", "9223372036854775807", "-9223372036854775808", "9223372036854775808", "-9223372036854775809", "18446744073709551615",
                           "18446744073709551616", "-18446744073709551617", "123456789012345678901234567890"};
        const int E[] = {0, 1, -1, 2, -2, 10, -10, 23, -24, 255, -256, 400, -400, 65536, -65537};
        for (auto m : M) for (int e : E) { std::string s = std::string(m) + "e" + std::to_string(e); add("bigdec:" + s, MV::str(s, T_BIGDEC)); }
        for (auto s : {"1.5", "-0.25", "0.1", "273.15", "-273.15", "1.23456789012345678901234567890", "18446744073709551616.5", "-18446744073709551616.25", "100", "1.50", "0.000001", "1.5e10", "1.5E-10", "+1.5", "1e+2", ".5", "5."})
            add(std::string("bigdec:") + s, MV::str(s, T_BIGDEC));
    }
    // big floats
    {
        const char* M[] = {"0x0", "0x1", "-0x1", "0x3", "-0x3", "0xff", "0x100", "0x7fffffffffffffff", "-0x8000000000000000", "0x8000000000000000", "0xffffffffffffffff", "0x10000000000000000",
                           "-0x10000000000000001", "0x123456789abcdef0123456789abcdef", "0xABCDEF"};
        const char* E[] = {"", "p0", "p1", "p-1", "p+1", "p9", "p-9", "p10", "p-10", "p100", "p-255"};
        for (auto m : M) for (auto e : E) { std::string s = std::string(m) + e; add("bigfloat:" + s, MV::str(s, T_BIGFLOAT)); }
        for (auto s : {"0x1.8p1", "-0x1.8p1", "0x1.8", "0x0.1p4", "0x1.0p0", "0X1P1"}) add(std::string("bigfloat:") + s, MV::str(s, T_BIGFLOAT));
    }
    // strings carrying tags that only some formats understand
    for (auto s : {"0", "1363896240", "-1", "4294967296", "17179869184", "-1500"}) { add(std::string("s-esec:") + s, MV::str(s, T_ESEC)); add(std::string("s-emilli:") + s, MV::str(s, T_EMILLI)); }
    for (auto s : {"0", "1500000000", "-1500000000", "999999999", "-1", "1363896240500000000", "9223372036854775808", "-9223372036854775809000000000"}) add(std::string("s-enano:") + s, MV::str(s, T_ENANO));
    for (auto s : {"0", "1", "-1", "1.5", "-0.25", "1E+3", "9999999999999999999999999999999999E+6111", "1E-6176", "1.000000000000000000000000000000001"}) add(std::string("f128:") + s, MV::str(s, T_F128));
    add("id", MV::str("0102030405060708090a0b0c", T_ID)); add("id:ff", MV::str("ffffffffffffffffffffffff", T_ID)); add("id:00", MV::str("000000000000000000000000", T_ID));
    add("regex", MV::str("/abc/i", T_REGEX)); add("regex:empty", MV::str("//", T_REGEX)); add("regex:slash", MV::str("/a\\/b/", T_REGEX));
    add("code", MV::str("function(){}", T_CODE)); add("code:empty", MV::str("", T_CODE)); add("code:long", MV::str(text_of(300), T_CODE));
    // byte strings
    const size_t BL[] = {0, 1, 2, 3, 4, 8, 15, 16, 17, 23, 24, 25, 31, 32, 255, 256, 257, 65535, 65536, 65537};
    for (size_t n : BL) add("b:" + std::to_string(n), MV::bytes(bytes_of(n)));
    for (size_t n : {0, 1, 3, 23, 24, 256}) { add("b16:" + std::to_string(n), MV::bytes(bytes_of(n), T_B16)); add("b64:" + std::to_string(n), MV::bytes(bytes_of(n), T_B64)); add("b64url:" + std::to_string(n), MV::bytes(bytes_of(n), T_B64URL)); }
    for (uint64_t e : {5ULL, 127ULL}) for (size_t n : {0, 1, 2, 3, 4, 5, 7, 8, 9, 12, 15, 16, 17, 23, 24, 255, 256, 65535, 65536}) add("ext" + std::to_string(e) + ":" + std::to_string(n), ext_bytes(bytes_of(n), e));
    for (uint64_t e : {0ULL, 1ULL, 7ULL, 100ULL, 128ULL, 200ULL, 254ULL, 255ULL, 256ULL, 274ULL, 1000ULL, 65535ULL, 65536ULL, 4294967296ULL + 5, 18446744073709551615ULL, 2ULL, 23ULL, 64ULL})
        for (size_t n : {1, 3, 4, 8, 12}) add("ext" + std::to_string(e) + ":" + std::to_string(n), ext_bytes(bytes_of(n), e));
    return L;
}

static const char* WRAPPERS[] = {"root", "arr", "obj", "objarr", "arr2", "key"};
static bool wrap(const std::string& w, const MV& v, MV& outv) {
    if (w == "root") { outv = v; return true; }
    if (w == "arr") { outv = MV::arr(); outv.a.push_back(v); return true; }
    if (w == "obj") { outv = MV::obj(); outv.o.emplace_back("k", v); return true; }
    if (w == "objarr") { MV a = MV::arr(); a.a.push_back(v); outv = MV::obj(); outv.o.emplace_back("k", a); return true; }
    if (w == "arr2") { outv = MV::arr(); outv.a.push_back(v); outv.a.push_back(v); outv.a.push_back(MV::uint64(1)); return true; }
    if (w == "key") { if (v.k != MV::Str || v.tag != 0) return false; outv = MV::obj(); outv.o.emplace_back(v.s, MV::uint64(1)); return true; }
    return false;
}

static void run_all_entries(const std::string& mode, int f, const std::string& caseid, const MV& v, bool all_cbor_opts, unsigned entries = 0xf) {
    for (const Opts& o : option_sets(f, all_cbor_opts))
        for (int e = 0; e < NENTRY; ++e) if (entries & (1u << e)) run_case(mode, f, e, o, caseid, v);
}

static void mode_leaves(const Args& a) {
    const auto& L = leaf_values();
    size_t idx = 0;
    for (size_t i = 0; i < L.size(); ++i) for (const char* w : WRAPPERS) {
        MV v; if (!wrap(w, L[i].second, v)) continue;
        if (int(idx++ % size_t(a.nslices)) != a.slice) continue;
        for (int f = 0; f < NFMT; ++f) run_all_entries("leaves", f, std::string(w) + ":" + L[i].first, v, true);
        if (idx % 211 == 1) out().sample("leaves " + std::string(w) + ":" + L[i].first + " = " + short_text(v).substr(0, 120));
    }
    if (a.slice == 0) out().gauge("leaf_values", (long long)L.size());
}
static bool find_leaf_case(const std::string& caseid, MV& v) {
    size_t c = caseid.find(':'); if (c == std::string::npos) return false;
    std::string w = caseid.substr(0, c), id = caseid.substr(c + 1);
    for (auto& nv : leaf_values()) if (nv.first == id) return wrap(w, nv.second, v);
    return false;
}

// ------------------------------------------------------------------------------------------------------------------
// trees
static TreeEnum make_trees() {
    TreeEnum te; te.ordered_objects = true;
    te.leaves = {MV::null(), MV::boolean(true), MV::uint64(1), MV::int64(-1), MV::dbl(1.5), MV::str("a"), MV::str("abc"), MV::bytes(std::string("\x01\x02\x03", 3))};
    te.keys = {"abc", "b"};
    return te;
}
static void tree_case(int n, size_t i, const MV& t, bool thorough_opts) {
    std::string id = "N" + std::to_string(n) + ":" + std::to_string(i);
    for (int f = 0; f < NFMT; ++f) {
        MV v = t;
        if (f == BSON && t.k != MV::Obj) { v = MV::obj(); v.o.emplace_back("r", t); }     // BSON: the root must be a document
        run_all_entries("trees", f, id, v, thorough_opts);
    }
}
// Trees of exactly n nodes in the order of TreeEnum::exact(n), without materialising them (n = 6: 830 000 trees): the children
// sequences are built from the memoised smaller sizes.  f(index, make) is called for every index; make() builds the tree.
template <class F> static void each_seq(TreeEnum& te, int total, int maxlen, std::vector<const MV*>& cur, F& f) {
    if (total == 0) { f(cur); return; }
    if ((int)cur.size() >= maxlen) return;
    for (int k = 1; k <= total; ++k) { const auto& ts = te.exact(k); for (const auto& t : ts) { cur.push_back(&t); each_seq(te, total - k, maxlen, cur, f); cur.pop_back(); } }
}
template <class F> static size_t each_exact(TreeEnum& te, int n, F f) {
    size_t idx = 0;
    if (n == 1) { for (const auto& t : te.exact(1)) { const MV* p = &t; f(idx++, [p] { return *p; }); } return idx; }
    std::vector<const MV*> cur;
    auto fa = [&](const std::vector<const MV*>& c) { f(idx++, [&c] { MV a = MV::arr(); for (auto p : c) a.a.push_back(*p); return a; }); };
    each_seq(te, n - 1, n - 1, cur, fa);
    auto fo = [&](const std::vector<const MV*>& c) {
        std::vector<std::vector<int>> kc; te.key_choices(c.size(), kc);
        for (auto& ks : kc) f(idx++, [&c, &ks, &te] { MV o = MV::obj(); for (size_t i = 0; i < c.size(); ++i) o.o.emplace_back(te.keys[ks[i]], *c[i]); return o; });
    };
    each_seq(te, n - 1, (int)te.keys.size(), cur, fo);
    return idx;
}
static void mode_trees(const Args& a) {
    int N = (int)a.geti("N", 4), refN = (int)a.geti("refN", N);
    TreeEnum te = make_trees();
    size_t idx = 0, total = 0;
    bool want_ref = ctx().emit_ref;
    if (a.slice == 0) {     // the streaming enumeration must number the trees as TreeEnum::exact does (replay rebuilds a case from that index)
        for (int n = 1; n <= 4 && n <= N; ++n) {
            const auto& ts = te.exact(n); bool same = true;
            size_t cnt = each_exact(te, n, [&](size_t i, auto&& make) { if (i >= ts.size() || mv_text(make()) != mv_text(ts[i])) same = false; });
            if (!same || cnt != ts.size()) out().error("tree enumeration order differs from TreeEnum::exact at n=" + std::to_string(n));
        }
    }
    for (int n = 1; n <= N; ++n) {
        ctx().emit_ref = want_ref && n <= refN;
        total += each_exact(te, n, [&](size_t i, auto&& make) {
            if (int(idx++ % size_t(a.nslices)) != a.slice) return;
            MV t = make();
            tree_case(n, i, t, n <= 3);
            if (idx % 40001 == 1) out().sample("tree N" + std::to_string(n) + ":" + std::to_string(i) + " = " + short_text(t));
        });
    }
    ctx().emit_ref = want_ref;
    if (a.slice == 0) out().gauge("trees", (long long)total);
}

// ------------------------------------------------------------------------------------------------------------------
// containers at count boundaries
static bool count_value(const std::string& id, MV& v) {   // id = arr:<n>:<leaf> | obj:<n>
    auto p = split(id, ':'); if (p.size() < 2) return false;
    size_t n = (size_t)atoll(p[1].c_str());
    if (p[0] == "arr") {
        if (p.size() < 3) return false;
        MV leaf = p[2] == "null" ? MV::null() : (p[2] == "u1" ? MV::uint64(1) : (p[2] == "a" ? MV::str("a") : MV::int64(-1)));
        v = MV::arr(); v.a.assign(n, leaf); return true;
    }
    if (p[0] == "obj" || p[0] == "objr") {
        v = MV::obj();
        for (size_t i = 0; i < n; ++i) { size_t k = p[0] == "objr" ? n - 1 - i : i; v.o.emplace_back("k" + std::to_string(k), MV::uint64(k % 24)); }
        return true;
    }
    if (p[0] == "nest") {      // an array of n one-element arrays
        v = MV::arr(); MV in = MV::arr(); in.a.push_back(MV::null()); v.a.assign(n, in); return true;
    }
    return false;
}
static std::vector<std::string> count_ids(bool thorough) {
    std::vector<std::string> ids;
    std::vector<size_t> ns = {0, 1, 2, 14, 15, 16, 17, 23, 24, 25, 31, 32, 255, 256, 257, 65535, 65536};
    if (thorough) { ns.push_back(65537); ns.push_back(32767); ns.push_back(32768); ns.push_back(127); ns.push_back(128); }
    for (size_t n : ns) {
        for (auto l : {"null", "u1", "a", "i-1"}) ids.push_back("arr:" + std::to_string(n) + ":" + l);
        ids.push_back("obj:" + std::to_string(n)); ids.push_back("objr:" + std::to_string(n));
        if (n <= 257 || thorough) ids.push_back("nest:" + std::to_string(n));
    }
    return ids;
}
static void mode_counts(const Args& a, bool thorough) {
    auto ids = count_ids(thorough);
    size_t idx = 0;
    for (auto& id : ids) for (int f = 0; f < NFMT; ++f) {
        if (int(idx++ % size_t(a.nslices)) != a.slice) continue;
        MV v; if (!count_value(id, v)) continue;
        if (f == BSON && v.k != MV::Obj) { MV w = MV::obj(); w.o.emplace_back("r", v); v = w; }
        run_all_entries("counts", f, id, v, false);
        if (idx % 37 == 1) out().sample("counts " + id);
    }
}

// ------------------------------------------------------------------------------------------------------------------
// deep nesting near the limit
static bool depth_value(const std::string& id, MV& v) {    // id = <shape>:<D>   shape in arr|obj|mix, or wide<outer><inner>:<n>
    auto p = split(id, ':'); if (p.size() < 2) return false;
    int D = atoi(p[1].c_str());
    if (p[0].compare(0, 4, "wide") == 0 && p[0].size() == 6) {
        // n sibling containers at depth 2: the depth bookkeeping must come back down after every one of them
        bool outer_arr = p[0][4] == 'a', inner_arr = p[0][5] == 'a';
        v = outer_arr ? MV::arr() : MV::obj();
        for (int i = 0; i < D; ++i) { MV in = inner_arr ? MV::arr() : MV::obj(); if (i % 2) { if (inner_arr) in.a.push_back(MV::uint64(1)); else in.o.emplace_back("k", MV::uint64(1)); }
            if (outer_arr) v.a.push_back(in); else v.o.emplace_back("m" + std::to_string(i), in); }
        return D > 0;
    }
    MV cur = p[0] == "arr" ? MV::arr() : MV::obj();      // innermost: an empty container (depth 1)
    if (D < 1) return false;
    for (int d = 2; d <= D; ++d) {
        bool as_arr = p[0] == "arr" || (p[0] == "mix" && d % 2 == 0);
        MV nx;
        if (as_arr) { nx = MV::arr(); nx.a.push_back(std::move(cur)); } else { nx = MV::obj(); nx.o.emplace_back("a", std::move(cur)); }
        cur = std::move(nx);
    }
    v = std::move(cur);
    return true;
}
static void mode_depth(const Args& a) {
    size_t idx = 0;
    for (int L : {0, 1, 2, 5}) for (int dd = -1; dd <= 1; ++dd) for (auto shape : {"arr", "obj", "mix"}) for (int f = 0; f < NFMT; ++f) {
        int lim = L ? L : 1024, D = lim + dd;
        if (D < 1) continue;
        if (int(idx++ % size_t(a.nslices)) != a.slice) continue;
        if (f == BSON && std::string(shape) == "arr") continue;     // root must be a document: covered by obj and mix (mix has an object outermost when D is odd)
        std::string id = std::string(shape) + ":" + std::to_string(D);
        MV v; if (!depth_value(id, v)) continue;
        if (f == BSON && v.k != MV::Obj) continue;
        Opts o; o.depth = L;
        for (int e = 0; e < NENTRY; ++e) run_case("depth", f, e, o, id, v);
        if (f == CBOR) { Opts p = o; p.pack = true; run_case("depth", f, E_JSON, p, id, v); }
        out().sample("depth " + id + " limit " + std::to_string(lim));
    }
    for (int L : {0, 2, 5}) for (auto shape : {"wideaa", "wideao", "wideoa", "wideoo"}) for (int f = 0; f < NFMT; ++f) {
        int lim = L ? L : 1024;
        if (int(idx++ % size_t(a.nslices)) != a.slice) continue;
        if (f == BSON && shape[4] == 'a') continue;
        std::string id = std::string(shape) + ":" + std::to_string(lim + 3);
        MV v; if (!depth_value(id, v)) continue;
        Opts o; o.depth = L;
        for (int e = 0; e < NENTRY; ++e) run_case("depth", f, e, o, id, v);
        if (f == CBOR) { Opts p = o; p.pack = true; run_case("depth", f, E_JSON, p, id, v); }
    }
}

// ------------------------------------------------------------------------------------------------------------------
// many repeated strings (CBOR stringref tables crossing 23/24, 255/256, 65535/65536 entries)
static std::string sr_string(size_t i, size_t len) {      // distinct for i < 64^len
    static const char* A = "ABCDEFGHIJKLMNOPQRSTUVWXYZabcdefghijklmnopqrstuvwxyz0123456789-_";
    std::string s(len, 'A');
    for (size_t k = 0; k < len && i; ++k) { s[len - 1 - k] = A[i & 63]; i >>= 6; }
    return s;
}
static bool strref_value(const std::string& id, MV& v) {
    auto p = split(id, ':');
    auto num = [&](size_t k) { return k < p.size() ? (size_t)atoll(p[k].c_str()) : size_t(0); };
    const std::string& fam = p[0];
    v = MV::arr();
    if (fam == "refs") {              // refs:<n>:<len>: n distinct strings of one length, then references to the first, second, middle and last two
        size_t n = num(1), len = num(2);
        if (len < 1 || (len < 4 && n > (size_t(1) << (6 * len)))) return false;
        for (size_t i = 0; i < n; ++i) v.a.push_back(MV::str(sr_string(i, len)));
        for (size_t i : {size_t(0), size_t(1), n / 2, n >= 2 ? n - 2 : 0, n - 1}) if (i < n) v.a.push_back(MV::str(sr_string(i, len)));
        return n > 0;
    }
    if (fam == "brefs") {             // the same with byte strings
        size_t n = num(1), len = num(2);
        if (len < 1 || (len < 4 && n > (size_t(1) << (6 * len)))) return false;
        for (size_t i = 0; i < n; ++i) v.a.push_back(MV::bytes(sr_string(i, len)));
        for (size_t i : {size_t(0), size_t(1), n / 2, n >= 2 ? n - 2 : 0, n - 1}) if (i < n) v.a.push_back(MV::bytes(sr_string(i, len)));
        return n > 0;
    }
    if (fam == "mixed") {             // mixed:<n>: lengths 2..8 in rotation, text and byte strings alternating; then the whole list again
        size_t n = num(1);
        for (int rep = 0; rep < 2; ++rep) for (size_t i = 0; i < n; ++i) { size_t len = 2 + i % 7; std::string s = len == 2 ? sr_string(i % 4096, 2) : sr_string(i, len); if (i % 3 == 2) v.a.push_back(MV::bytes(s)); else v.a.push_back(MV::str(s)); }
        return n > 0;
    }
    if (fam == "records") {           // records:<n>: n objects with the same member names and a few repeated values
        size_t n = num(1);
        for (size_t i = 0; i < n; ++i) {
            MV o = MV::obj();
            o.o.emplace_back("name", MV::str("nm" + std::to_string(i % 7)));
            o.o.emplace_back("value", MV::uint64(i));
            MV t = MV::arr(); t.a.push_back(MV::str("common")); t.a.push_back(MV::str(sr_string(i, 4))); t.a.push_back(MV::str("id"));
            o.o.emplace_back("tags", t);
            v.a.push_back(o);
        }
        return true;
    }
    if (fam == "kinds") {             // text and byte strings of equal content, hints, tags
        std::string abc = "abc", abcd = "abcd";
        v.a.push_back(MV::bytes(abc)); v.a.push_back(MV::str(abc)); v.a.push_back(MV::bytes(abc)); v.a.push_back(MV::str(abc));
        v.a.push_back(MV::bytes(abcd, T_B16)); v.a.push_back(MV::bytes(abcd, T_B64)); v.a.push_back(MV::bytes(abcd)); v.a.push_back(MV::bytes(abcd, T_B16));
        v.a.push_back(MV::str("2013-03-21T20:04:00Z", T_DATETIME)); v.a.push_back(MV::str("2013-03-21T20:04:00Z", T_DATETIME)); v.a.push_back(MV::str("2013-03-21T20:04:00Z"));
        v.a.push_back(MV::str("http://a.b/", T_URI)); v.a.push_back(MV::str("http://a.b/")); v.a.push_back(MV::str("http://a.b/", T_URI));
        return true;
    }
    if (fam == "ext") {               // byte strings with raw tags, repeated
        std::string x = "wxyz";
        v.a.push_back(ext_bytes(x, 274)); v.a.push_back(ext_bytes(x, 274)); v.a.push_back(ext_bytes(x, 1000)); v.a.push_back(MV::bytes(x)); v.a.push_back(ext_bytes(x, 274));
        v.a.push_back(MV::str("ccc")); v.a.push_back(ext_bytes(x, 274)); v.a.push_back(MV::bytes("pqrs", T_B16)); v.a.push_back(MV::str("ddd")); v.a.push_back(MV::bytes("pqrs", T_B16)); v.a.push_back(MV::str("ccc")); v.a.push_back(MV::str("ddd"));
        return true;
    }
    if (fam == "bignum") {            // a bignum / decimal fraction / bigfloat whose byte-string payload is long enough to be indexed, among repeated strings
        std::string kind = p.size() > 1 ? p[1] : "bigint";
        MV big = kind == "bigint" ? MV::str("18446744073709551616", T_BIGINT) : kind == "negbigint" ? MV::str("-18446744073709551617", T_BIGINT)
               : kind == "bigdec" ? MV::str("18446744073709551616e-3", T_BIGDEC) : kind == "bigfloat" ? MV::str("0x10000000000000000p-3", T_BIGFLOAT)
               : kind == "smallbigint" ? MV::str("65536", T_BIGINT) : MV::str("255", T_BIGINT);
        v.a.push_back(MV::str("aaa")); v.a.push_back(big); v.a.push_back(MV::str("bbb")); v.a.push_back(MV::str("aaa")); v.a.push_back(MV::str("bbb")); v.a.push_back(big); v.a.push_back(MV::str("bbb"));
        // strings first seen after the repeated bignum, and referenced after yet another repetition
        v.a.push_back(MV::str("ccc")); v.a.push_back(big); v.a.push_back(MV::str("ddd")); v.a.push_back(MV::str("ccc")); v.a.push_back(MV::str("ddd")); v.a.push_back(MV::str("aaa"));
        return true;
    }
    if (fam == "typed") {             // typed:<type>: a typed array (streaming entry) among repeated strings
        char ty = p.size() > 1 && !p[1].empty() ? p[1][0] : 'B';
        MV ta = MV::arr(); ta.fine = ty;
        for (int i = 0; i < 4; ++i) ta.a.push_back(ty == 'f' || ty == 'd' ? MV::dbl(1.5 * i) : ty == 'e' ? MV::half(uint16_t(0x3c00 + i)) : MV::uint64(uint64_t(i + 1)));
        v.a.push_back(MV::str("aaa")); v.a.push_back(ta); v.a.push_back(MV::str("bbb")); v.a.push_back(MV::str("aaa")); v.a.push_back(MV::str("bbb"));
        v.a.push_back(ta); v.a.push_back(MV::str("ccc")); v.a.push_back(ta); v.a.push_back(MV::str("ddd")); v.a.push_back(MV::str("ccc")); v.a.push_back(MV::str("ddd")); v.a.push_back(MV::str("aaa"));
        return true;
    }
    if (fam == "nested") {
        MV a1 = MV::arr(); a1.a.push_back(MV::str("aaa")); a1.a.push_back(MV::str("bbb"));
        MV a3 = MV::arr(); a3.a.push_back(MV::str("bbb")); a3.a.push_back(MV::str("ccc")); a3.a.push_back(MV::str("aaa"));
        MV a2 = MV::arr(); a2.a.push_back(MV::str("aaa")); a2.a.push_back(a3);
        MV o = MV::obj(); o.o.emplace_back("aaa", MV::str("bbb")); o.o.emplace_back("ccc", MV::str("ccc")); o.o.emplace_back("ddd", MV::str("aaa"));
        v.a.push_back(a1); v.a.push_back(a2); v.a.push_back(o); v.a.push_back(MV::str("ddd"));
        return true;
    }
    if (fam == "long") {              // long:<len>: one long string three times, and its prefix
        size_t len = num(1);
        std::string s = text_of(len);
        v.a.push_back(MV::str(s)); v.a.push_back(MV::str(s)); v.a.push_back(MV::str(s.substr(0, len ? len - 1 : 0))); v.a.push_back(MV::str(s)); v.a.push_back(MV::bytes(s)); v.a.push_back(MV::bytes(s));
        return true;
    }
    if (fam == "objroot") {           // an object at the root whose member names repeat as values
        v = MV::obj();
        size_t n = num(1);
        for (size_t i = 0; i < n; ++i) v.o.emplace_back(sr_string(i, 4), MV::str(sr_string((i * 7 + 1) % n, 4)));
        return true;
    }
    return false;
}
static std::vector<std::string> strref_ids(bool thorough) {
    std::vector<std::string> ids;
    std::vector<size_t> ns = {1, 2, 3, 22, 23, 24, 25, 26, 254, 255, 256, 257, 258};
    std::vector<size_t> big = thorough ? std::vector<size_t>{65534, 65535, 65536, 65537, 65538} : std::vector<size_t>{65535, 65536, 65537};
    for (size_t len : {2, 3, 4, 5, 6, 7, 8}) {
        for (size_t n : ns) { ids.push_back("refs:" + std::to_string(n) + ":" + std::to_string(len)); ids.push_back("brefs:" + std::to_string(n) + ":" + std::to_string(len)); }
        if (len >= 3 && (thorough || len == 3 || len == 4 || len == 5 || len == 7)) for (size_t n : big) { ids.push_back("refs:" + std::to_string(n) + ":" + std::to_string(len)); if (thorough || len == 5) ids.push_back("brefs:" + std::to_string(n) + ":" + std::to_string(len)); }
    }
    for (size_t n : {1, 7, 30, 100, 300, 1000}) ids.push_back("mixed:" + std::to_string(n));
    ids.push_back("mixed:70000"); if (thorough) ids.push_back("mixed:140000");
    for (size_t n : {1, 2, 3, 8, 24, 25, 85, 86, 256, 257}) ids.push_back("records:" + std::to_string(n));
    if (thorough) ids.push_back("records:22000");
    for (auto s : {"kinds", "ext", "nested", "bignum:bigint", "bignum:negbigint", "bignum:bigdec", "bignum:bigfloat", "bignum:smallbigint", "bignum:tinybigint"}) ids.push_back(s);
    for (auto t : {"B", "H", "W", "Q", "b", "h", "w", "q", "e", "f", "d"}) ids.push_back(std::string("typed:") + t);
    for (size_t len : {2, 3, 23, 24, 255, 256, 65535, 65536}) ids.push_back("long:" + std::to_string(len));
    for (size_t n : {1, 24, 25, 256, 257}) ids.push_back("objroot:" + std::to_string(n));
    return ids;
}
static void strref_case(const std::string& id, int f) {
    MV v; if (!strref_value(id, v)) return;
    if (f == BSON && v.k != MV::Obj) { MV w = MV::obj(); w.o.emplace_back("r", v); v = w; }
    bool has_typed = id.compare(0, 6, "typed:") == 0;
    bool heavy = v.k == MV::Arr && v.a.size() > 5000;
    unsigned entries = has_typed ? ((1u << E_SDEF) | (1u << E_SINDEF)) : (f == CBOR ? 0xfu : (heavy ? (1u << E_JSON) : ((1u << E_JSON) | (1u << E_SDEF))));
    run_all_entries("strref", f, id, v, has_typed || !heavy, entries);
}
static void mode_strref(const Args& a, bool thorough) {
    auto ids = strref_ids(thorough);
    size_t idx = 0;
    for (auto& id : ids) for (int f = 0; f < NFMT; ++f) {
        if (int(idx++ % size_t(a.nslices)) != a.slice) continue;
        strref_case(id, f);
        if (idx % 41 == 1) out().sample("strref " + id);
    }
}

// ------------------------------------------------------------------------------------------------------------------
// every half-precision value (thorough; quick: every 64th bit pattern and both neighbours of every exponent boundary)
static MV half_case(uint16_t h, int f) {
    MV v = MV::arr(); v.a.push_back(MV::half(h));
    if (f == BSON) { MV o = MV::obj(); o.o.emplace_back("k", v); return o; }
    return v;
}
static void mode_halves(const Args& a, bool thorough) {
    bool want_ref = ctx().emit_ref;
    size_t idx = 0;
    for (uint32_t h = 0; h <= 0xffff; ++h) {
        uint32_t low = h & 0x3ff;
        if (!thorough && !((h & 63) == 0 || low <= 1 || low >= 0x3fe)) continue;
        if (int(idx++ % size_t(a.nslices)) != a.slice) continue;
        char id[16]; snprintf(id, sizeof id, "h:%04x", h);
        for (int f = 0; f < NFMT; ++f) {
            MV v = half_case(uint16_t(h), f);
            ctx().emit_ref = want_ref && f == CBOR;
            run_case("halves", f, E_JSON, Opts(), id, v);
            ctx().emit_ref = false;
            run_case("halves", f, E_SDEF, Opts(), id, v);
        }
        if (idx % 1001 == 1) out().sample(std::string("halves ") + id);
    }
    ctx().emit_ref = want_ref;
}

// ------------------------------------------------------------------------------------------------------------------
static void replay(const std::string& sig) {
    auto p = split(sig, '|');      // <mode>|<fmt>|<entry>|<opts>|<caseid>|<class>
    if (p.size() < 5) return;
    const std::string& mode = p[0];
    if (mode == "typed") { replay_typed(p); return; }
    int f = fmt_of(p[1]), e = entry_of(p[2]);
    if (f < 0 || e < 0) return;
    Opts o = Opts::parse(p[3]);
    const std::string& id = p[4];
    MV v; bool ok = false;
    if (mode == "leaves") ok = find_leaf_case(id, v);
    else if (mode == "trees") {
        int n = atoi(id.c_str() + 1); size_t c = id.find(':'); size_t i = c == std::string::npos ? 0 : (size_t)atoll(id.c_str() + c + 1);
        TreeEnum te = make_trees(); const auto& ts = te.exact(n);
        if (i < ts.size()) { v = ts[i]; ok = true; if (f == BSON && v.k != MV::Obj) { MV w = MV::obj(); w.o.emplace_back("r", v); v = w; } }
    }
    else if (mode == "counts") { ok = count_value(id, v); if (ok && f == BSON && v.k != MV::Obj) { MV w = MV::obj(); w.o.emplace_back("r", v); v = w; } }
    else if (mode == "depth") ok = depth_value(id, v);
    else if (mode == "halves") { v = half_case(uint16_t(strtoul(id.c_str() + 2, nullptr, 16)), f); ok = id.size() == 6; }
    else if (mode == "strref") { ok = strref_value(id, v); if (ok && f == BSON && v.k != MV::Obj) { MV w = MV::obj(); w.o.emplace_back("r", v); v = w; } }
    if (!ok) { out().error("replay: cannot rebuild case " + sig); return; }
    run_case(mode, f, e, o, id, v);
}

int main(int argc, char** argv) {
    Args a(argc, argv);
    Crash::install();
    ctx().emit_ref = a.replay || a.get("ref", "0") == "1";
    if (a.replay) { ctx().class_cap = 1000000; ctx().thorough = true; replay(a.sig); out().flush(); return 0; }
    std::string mode = a.a.empty() ? "" : a.a[0];
    bool thorough = a.get("tier", "quick") == "thorough";
    ctx().thorough = thorough;
    if (mode == "leaves") mode_leaves(a);
    else if (mode == "trees") mode_trees(a);
    else if (mode == "counts") mode_counts(a, thorough);
    else if (mode == "depth") mode_depth(a);
    else if (mode == "strref") mode_strref(a, thorough);
    else if (mode == "halves") mode_halves(a, thorough);
    else if (mode == "typed") run_typed(a);
    else { out().error("unknown mode " + mode); out().flush(); return 0; }
    out().count("evaluations", ctx().eval);
    out().count("nontrivial", ctx().nontrivial);
    out().count("n_" + mode, ctx().eval);
    out().flush();
    return 0;
}
