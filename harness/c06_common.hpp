// C06 — binary formats round-trip the data model.  Shared by harness/c06.cpp and harness/c06_typed.cpp.
//
// One "case" = (value v as MV, format, entry point, options).  The harness encodes v with the real encoder, decodes the
// bytes with the real decoder and compares the decoded value d with what the format's documented domain mapping makes of v
// (judge()).  For every case that passes it also prints an R line (hex of the bytes + the decoded value) so that the Python
// driver can ask the independent reference decoders (lib/ref_*.py) what the bytes denote: an encoder bug and a decoder bug
// that cancel each other are caught there.
#pragma once
#include "mv.hpp"
#include <jsoncons/json.hpp>
#include <jsoncons_ext/cbor/cbor.hpp>
#include <jsoncons_ext/msgpack/msgpack.hpp>
#include <jsoncons_ext/ubjson/ubjson.hpp>
#include <jsoncons_ext/bson/bson.hpp>
#include <cfloat>
#include <cmath>
#include <algorithm>

namespace c06 {
using namespace vf;
using jsoncons::json;
using jsoncons::ojson;
using jsoncons::semantic_tag;
typedef std::vector<uint8_t> Bytes;

enum Fmt { CBOR, MSGPACK, UBJSON, BSON, NFMT };
inline const char* fmt_name(int f) { static const char* n[] = {"cbor", "msgpack", "ubjson", "bson"}; return n[f]; }
inline int fmt_of(const std::string& s) { for (int f = 0; f < NFMT; ++f) if (s == fmt_name(f)) return f; return -1; }
enum Entry { E_JSON, E_OJSON, E_SDEF, E_SINDEF, NENTRY };
inline const char* entry_name(int e) { static const char* n[] = {"dom-json", "dom-ojson", "stream-def", "stream-indef"}; return n[e]; }
inline int entry_of(const std::string& s) { for (int e = 0; e < NENTRY; ++e) if (s == entry_name(e)) return e; return -1; }

struct Opts {
    bool pack = false, typed = false; int depth = 0;   // depth 0 = library default (1024)
    std::string str() const { return std::string("p") + (pack ? "1" : "0") + "t" + (typed ? "1" : "0") + "d" + std::to_string(depth); }
    static Opts parse(const std::string& s) { Opts o; if (s.size() >= 5) { o.pack = s[1] == '1'; o.typed = s[3] == '1'; o.depth = atoi(s.c_str() + 5); } return o; }
    int limit() const { return depth ? depth : 1024; }
};

const int T_NONE = 0, T_BIGINT = int(semantic_tag::bigint), T_BIGDEC = int(semantic_tag::bigdec), T_DATETIME = int(semantic_tag::datetime),
          T_ESEC = int(semantic_tag::epoch_second), T_EMILLI = int(semantic_tag::epoch_milli), T_ENANO = int(semantic_tag::epoch_nano),
          T_B16 = int(semantic_tag::base16), T_B64 = int(semantic_tag::base64), T_BIGFLOAT = int(semantic_tag::bigfloat),
          T_F128 = int(semantic_tag::float128), T_B64URL = int(semantic_tag::base64url), T_UNDEF = int(semantic_tag::undefined),
          T_URI = int(semantic_tag::uri), T_CLAMPED = int(semantic_tag::clamped), T_EXT = int(semantic_tag::ext), T_ID = int(semantic_tag::id),
          T_REGEX = int(semantic_tag::regex), T_CODE = int(semantic_tag::code);

// --- MV helpers ---------------------------------------------------------------------------------------------
inline MV ext_bytes(const std::string& s, uint64_t ext) { MV m = MV::bytes(s, T_EXT); m.has_ext = true; m.u = ext; return m; }
inline MV tagged(MV m, int tag) { m.tag = tag; return m; }
// typed-array node for the streaming entry: an Arr whose `fine` names the element type
//   'B' uint8 'H' uint16 'W' uint32 'Q' uint64 'b' int8 'h' int16 'w' int32 'q' int64 'e' half 'f' float 'd' double
inline bool is_typed_node(const MV& m) { return m.k == MV::Arr && m.fine && strchr("BHWQbhwqefd", m.fine); }
inline int mv_depth(const MV& m) {
    int d = 0;
    for (auto& e : m.a) d = std::max(d, mv_depth(e));
    for (auto& kv : m.o) d = std::max(d, mv_depth(kv.second));
    return d + ((m.k == MV::Arr || m.k == MV::Obj) ? 1 : 0);
}
inline size_t max_members(const MV& m) {
    size_t n = m.o.size();
    for (auto& e : m.a) n = std::max(n, max_members(e));
    for (auto& kv : m.o) n = std::max(n, max_members(kv.second));
    return n;
}
inline MV mv_sorted(const MV& m) {
    MV r = m;
    for (auto& e : r.a) e = mv_sorted(e);
    for (auto& kv : r.o) kv.second = mv_sorted(kv.second);
    std::stable_sort(r.o.begin(), r.o.end(), [](const std::pair<std::string, MV>& x, const std::pair<std::string, MV>& y) { return x.first < y.first; });
    return r;
}
inline std::string short_text(const MV& m) { std::string s = mv_text(m); if (s.size() > 300) s = s.substr(0, 300) + "...(" + std::to_string(s.size()) + " chars)"; return s; }
inline std::string short_hex(const Bytes& b) { std::string s = hex(b); if (s.size() > 200) s = s.substr(0, 200) + "...(" + std::to_string(b.size()) + " bytes)"; return s; }

inline uint64_t half_to_double_bits(uint16_t h) {   // exact widening, written independently of jsoncons::binary::decode_half
    uint64_t s = (h >> 15) & 1, e = (h >> 10) & 0x1f, m = h & 0x3ff;
    if (e == 0) {
        if (m == 0) return s << 63;
        int sh = 0;
        while (!(m & 0x400)) { m <<= 1; ++sh; }
        m &= 0x3ff;
        return (s << 63) | (uint64_t(1023 - 15 - sh + 1) << 52) | (m << 42);
    }
    if (e == 0x1f) return (s << 63) | (uint64_t(0x7ff) << 52) | (m << 42);
    return (s << 63) | ((e - 15 + 1023) << 52) | (m << 42);
}
inline bool nan_bits(uint64_t b) { return (b & 0x7ff0000000000000ULL) == 0x7ff0000000000000ULL && (b & 0xfffffffffffffULL); }
inline bool dbl_same(uint64_t a, uint64_t b) { return a == b || (nan_bits(a) && nan_bits(b)); }

// --- exact comparison of big-number texts ---------------------------------------------------------------------
struct Dec { bool ok = false, neg = false; std::string digits; long long exp = 0; };   // value = (-1)^neg * digits * 10^exp, digits without leading/trailing zeros
inline Dec parse_decimal(const std::string& s) {
    Dec d; size_t i = 0, n = s.size();
    if (i < n && (s[i] == '-' || s[i] == '+')) { d.neg = s[i] == '-'; ++i; }
    std::string ip, fp; bool any = false;
    while (i < n && isdigit((unsigned char)s[i])) { ip.push_back(s[i++]); any = true; }
    if (i < n && s[i] == '.') { ++i; while (i < n && isdigit((unsigned char)s[i])) { fp.push_back(s[i++]); any = true; } }
    if (!any) return d;
    long long e = 0;
    if (i < n && (s[i] == 'e' || s[i] == 'E')) {
        ++i; bool eneg = false;
        if (i < n && (s[i] == '-' || s[i] == '+')) { eneg = s[i] == '-'; ++i; }
        if (i >= n) return d;
        while (i < n && isdigit((unsigned char)s[i])) { if (e > 100000000) return d; e = e * 10 + (s[i++] - '0'); }
        if (eneg) e = -e;
    }
    if (i != n) return d;
    d.digits = ip + fp; d.exp = e - (long long)fp.size();
    size_t z = 0; while (z < d.digits.size() && d.digits[z] == '0') ++z;
    d.digits.erase(0, z);
    while (!d.digits.empty() && d.digits.back() == '0') { d.digits.pop_back(); ++d.exp; }
    if (d.digits.empty()) { d.exp = 0; d.neg = false; }
    d.ok = true; return d;
}
inline bool dec_equal(const std::string& a, const std::string& b) { Dec x = parse_decimal(a), y = parse_decimal(b); return x.ok && y.ok && x.neg == y.neg && x.digits == y.digits && x.exp == y.exp; }
// hexadecimal floating text  [-]0x<hex>[.<hex>][p[+-]<exponent>]   (exponent digits read in radix `eradix`)
struct HexF { bool ok = false, neg = false; std::vector<bool> bits; long long exp = 0; };
inline HexF parse_hexfloat(const std::string& s, int eradix) {
    HexF h; size_t i = 0, n = s.size();
    if (i < n && (s[i] == '-' || s[i] == '+')) { h.neg = s[i] == '-'; ++i; }
    if (i + 1 >= n || s[i] != '0' || (s[i + 1] != 'x' && s[i + 1] != 'X')) return h;
    i += 2; bool any = false; long long scale = 0; bool frac = false;
    for (; i < n; ++i) {
        char c = s[i];
        if (c == '.' && !frac) { frac = true; continue; }
        if (!isxdigit((unsigned char)c)) break;
        int v = hexval(c); for (int b = 3; b >= 0; --b) h.bits.push_back((v >> b) & 1);
        if (frac) scale -= 4;
        any = true;
    }
    if (!any) return h;
    long long e = 0;
    if (i < n && (s[i] == 'p' || s[i] == 'P')) {
        ++i; bool eneg = false;
        if (i < n && (s[i] == '-' || s[i] == '+')) { eneg = s[i] == '-'; ++i; }
        if (i >= n) return h;
        for (; i < n; ++i) { if (!isxdigit((unsigned char)s[i]) || hexval(s[i]) >= eradix || e > 100000000) return h; e = e * eradix + hexval(s[i]); }
        if (eneg) e = -e;
    }
    if (i != n) return h;
    h.exp = e + scale;
    size_t z = 0; while (z < h.bits.size() && !h.bits[z]) ++z;
    h.bits.erase(h.bits.begin(), h.bits.begin() + z);
    while (!h.bits.empty() && !h.bits.back()) { h.bits.pop_back(); ++h.exp; }
    if (h.bits.empty()) { h.exp = 0; h.neg = false; }
    h.ok = true; return h;
}
inline bool hexf_equal(const HexF& x, const HexF& y) { return x.ok && y.ok && x.neg == y.neg && x.bits == y.bits && x.exp == y.exp; }

// builds the jsoncons value of a model value (engine from_mv inserts members one by one: quadratic for sorted objects)
template <class Json> Json build(const MV& m) {
    if (m.k == MV::Arr) { Json j(jsoncons::json_array_arg, semantic_tag(m.tag)); j.reserve(m.a.size()); for (auto& e : m.a) j.push_back(build<Json>(e)); return j; }
    if (m.k == MV::Obj) {
        if (m.o.size() < 32) { Json j(jsoncons::json_object_arg, semantic_tag(m.tag)); for (auto& kv : m.o) j.try_emplace(kv.first, build<Json>(kv.second)); return j; }
        std::vector<std::pair<std::string, Json>> items; items.reserve(m.o.size());
        for (auto& kv : m.o) items.emplace_back(kv.first, build<Json>(kv.second));
        return Json(jsoncons::json_object_arg, items.begin(), items.end(), semantic_tag(m.tag));
    }
    return from_mv<Json>(m);
}

// --- codec wrappers -------------------------------------------------------------------------------------------
template <class Json> Bytes enc_dom(int f, const Json& j, const Opts& o) {
    Bytes b;
    switch (f) {
        case CBOR: { jsoncons::cbor::cbor_options op; op.pack_strings(o.pack).use_typed_arrays(o.typed); if (o.depth) op.max_nesting_depth(o.depth); jsoncons::cbor::encode_cbor(j, b, op); break; }
        case MSGPACK: { jsoncons::msgpack::msgpack_options op; if (o.depth) op.max_nesting_depth(o.depth); jsoncons::msgpack::encode_msgpack(j, b, op); break; }
        case UBJSON: { jsoncons::ubjson::ubjson_options op; if (o.depth) op.max_nesting_depth(o.depth); jsoncons::ubjson::encode_ubjson(j, b, op); break; }
        default: { jsoncons::bson::bson_options op; if (o.depth) op.max_nesting_depth(o.depth); jsoncons::bson::encode_bson(j, b, op); break; }
    }
    return b;
}
template <class T> T dec_as(int f, const Bytes& b, const Opts& o) {
    switch (f) {
        case CBOR: { jsoncons::cbor::cbor_options op; if (o.depth) op.max_nesting_depth(o.depth); return jsoncons::cbor::decode_cbor<T>(b, op); }
        case MSGPACK: { jsoncons::msgpack::msgpack_options op; if (o.depth) op.max_nesting_depth(o.depth); return jsoncons::msgpack::decode_msgpack<T>(b, op); }
        case UBJSON: { jsoncons::ubjson::ubjson_options op; if (o.depth) op.max_nesting_depth(o.depth); return jsoncons::ubjson::decode_ubjson<T>(b, op); }
        default: { jsoncons::bson::bson_options op; if (o.depth) op.max_nesting_depth(o.depth); return jsoncons::bson::decode_bson<T>(b, op); }
    }
}

template <class T> void typed_event(jsoncons::json_visitor& e, const MV& m) {
    std::vector<T> v;
    for (auto& x : m.a) {
        if (x.k == MV::Int) v.push_back(T(x.i)); else if (x.k == MV::UInt) v.push_back(T(x.u));
        else if (x.k == MV::Dbl) { double d = x.d(); v.push_back(T(d)); } else v.push_back(T());
    }
    e.typed_array(jsoncons::span<const T>(v.data(), v.size()), semantic_tag(m.tag));
}
// drives the encoder's event interface directly from the model value
inline void drive(jsoncons::json_visitor& e, const MV& m, bool definite) {
    semantic_tag t = semantic_tag(m.tag);
    switch (m.k) {
        case MV::Null: e.null_value(t); break;
        case MV::Bool: e.bool_value(m.b, t); break;
        case MV::Int: e.int64_value(m.i, t); break;
        case MV::UInt: e.uint64_value(m.u, t); break;
        case MV::Dbl: e.double_value(m.d(), t); break;
        case MV::Half: e.half_value(uint16_t(m.u), t); break;
        case MV::Str: e.string_value(m.s, t); break;
        case MV::Bytes: {
            jsoncons::byte_string_view bv(reinterpret_cast<const uint8_t*>(m.s.data()), m.s.size());
            if (m.has_ext) e.byte_string_value(bv, m.u); else e.byte_string_value(bv, t);
            break;
        }
        case MV::Arr:
            if (is_typed_node(m)) {
                switch (m.fine) {
                    case 'B': typed_event<uint8_t>(e, m); break; case 'H': typed_event<uint16_t>(e, m); break; case 'W': typed_event<uint32_t>(e, m); break;
                    case 'Q': typed_event<uint64_t>(e, m); break; case 'b': typed_event<int8_t>(e, m); break; case 'h': typed_event<int16_t>(e, m); break;
                    case 'w': typed_event<int32_t>(e, m); break; case 'q': typed_event<int64_t>(e, m); break;
                    case 'f': { std::vector<float> v; for (auto& x : m.a) { double d = x.d(); v.push_back(float(d)); } e.typed_array(jsoncons::span<const float>(v.data(), v.size()), t); break; }
                    case 'd': { std::vector<double> v; for (auto& x : m.a) v.push_back(x.d()); e.typed_array(jsoncons::span<const double>(v.data(), v.size()), t); break; }
                    case 'e': { std::vector<uint16_t> v; for (auto& x : m.a) v.push_back(uint16_t(x.u)); e.typed_array(jsoncons::half_arg, jsoncons::span<const uint16_t>(v.data(), v.size()), t); break; }
                }
                break;
            }
            if (definite) e.begin_array(m.a.size(), t); else e.begin_array(t);
            for (auto& x : m.a) drive(e, x, definite);
            e.end_array();
            break;
        case MV::Obj:
            if (definite) e.begin_object(m.o.size(), t); else e.begin_object(t);
            for (auto& kv : m.o) { e.key(kv.first); drive(e, kv.second, definite); }
            e.end_object();
            break;
    }
}
inline Bytes enc_stream(int f, const MV& m, const Opts& o, bool definite) {
    Bytes b;
    switch (f) {
        case CBOR: { jsoncons::cbor::cbor_options op; op.pack_strings(o.pack).use_typed_arrays(o.typed); if (o.depth) op.max_nesting_depth(o.depth);
                     jsoncons::cbor::cbor_bytes_encoder e(b, op); drive(e, m, definite); e.flush(); break; }
        case MSGPACK: { jsoncons::msgpack::msgpack_options op; if (o.depth) op.max_nesting_depth(o.depth);
                        jsoncons::msgpack::msgpack_bytes_encoder e(b, op); drive(e, m, definite); e.flush(); break; }
        case UBJSON: { jsoncons::ubjson::ubjson_options op; if (o.depth) op.max_nesting_depth(o.depth);
                       jsoncons::ubjson::ubjson_bytes_encoder e(b, op); drive(e, m, definite); e.flush(); break; }
        default: { jsoncons::bson::bson_options op; if (o.depth) op.max_nesting_depth(o.depth);
                   jsoncons::bson::bson_bytes_encoder e(b, op); drive(e, m, definite); e.flush(); break; }
    }
    return b;
}

// --- the oracle: documented domain mapping ------------------------------------------------------------------------
// Verdicts of comparing the decoded value d with the input v under format f
enum Verdict { V_OK, V_ABSTAIN, V_BAD };
struct Judge {
    int f; bool member_order;            // compare member order (false: objects as maps)
    Verdict verdict = V_OK;
    std::string family, why, abstained;   // family: leaf class of the first mismatch (goes into the violation signature)
    Judge(int fmt, bool order) : f(fmt), member_order(order) {}

    void bad(const std::string& fam, const std::string& w) { if (verdict != V_BAD) { verdict = V_BAD; family = fam; why = w; } }
    void abstain(const std::string& what) { if (verdict == V_OK) { verdict = V_ABSTAIN; abstained = what; } }
    static bool lenient_tag(const MV& d, int t) { return d.tag == 0 || d.tag == t; }

    // signed 128-bit view of an integer node
    static bool as_int(const MV& m, __int128& x) { if (m.k == MV::Int) { x = m.i; return true; } if (m.k == MV::UInt) { x = (__int128)m.u; return true; } return false; }
    static std::string i128_text(__int128 x) { bool neg = x < 0; unsigned __int128 u = neg ? -(unsigned __int128)x : (unsigned __int128)x; std::string s; do { s.push_back(char('0' + int(u % 10))); u /= 10; } while (u); if (neg) s.push_back('-'); std::reverse(s.begin(), s.end()); return s; }
    // instant (ns since epoch) denoted by a decoded MessagePack timestamp value
    static bool instant_of(const MV& d, __int128& ns) {
        __int128 x;
        if (as_int(d, x) && d.tag == T_ESEC) { ns = x * 1000000000; return true; }
        if (as_int(d, x) && d.tag == T_ENANO) { ns = x; return true; }
        if (d.k == MV::Str && d.tag == T_ENANO) {
            const std::string& s = d.s; size_t i = 0; bool neg = false; if (i < s.size() && s[i] == '-') { neg = true; ++i; }
            if (i >= s.size() || s.size() > 40) return false;
            __int128 v = 0; for (; i < s.size(); ++i) { if (!isdigit((unsigned char)s[i])) return false; v = v * 10 + (s[i] - '0'); }
            ns = neg ? -v : v; return true;
        }
        return false;
    }

    void cmp(const MV& v, const MV& d) {
        if (verdict == V_BAD) return;
        switch (v.k) {
            case MV::Null: {
                if (d.k != MV::Null) return bad("null", "null came back as " + short_text(d));
                bool keeps = v.tag == T_UNDEF && (f == CBOR || f == BSON);
                if (keeps ? d.tag != T_UNDEF : !lenient_tag(d, v.tag)) return bad("null-tag", "null tag " + std::to_string(v.tag) + " came back as " + short_text(d));
                return;
            }
            case MV::Bool:
                if (d.k != MV::Bool || d.b != v.b) return bad("bool", "bool came back as " + short_text(d));
                return;
            case MV::Int: case MV::UInt: return cmp_int(v, d);
            case MV::Dbl: case MV::Half: return cmp_float(v, d);
            case MV::Str: return cmp_str(v, d);
            case MV::Bytes: return cmp_bytes(v, d);
            case MV::Arr: {
                if (d.k != MV::Arr) return bad("array", "array came back as " + short_text(d));
                if (d.a.size() != v.a.size()) return bad("array-length", "array of " + std::to_string(v.a.size()) + " elements came back with " + std::to_string(d.a.size()));
                if (is_typed_node(v) && v.tag == T_CLAMPED && f == CBOR && !lenient_tag(d, T_CLAMPED)) return bad("typed-array", "clamped typed array came back with tag " + std::to_string(d.tag));
                for (size_t i = 0; i < v.a.size() && verdict != V_BAD; ++i) {
                    if (is_typed_node(v) && v.fine == 'f' && v.a[i].k == MV::Dbl) { double x = v.a[i].d(); float fl = float(x); cmp(MV::dbl(double(fl)), d.a[i]); }   // the event carries floats
                    else cmp(v.a[i], d.a[i]);
                }
                return;
            }
            case MV::Obj: {
                if (d.k != MV::Obj) return bad("object", "object came back as " + short_text(d));
                if (d.o.size() != v.o.size()) return bad("object-size", "object of " + std::to_string(v.o.size()) + " members came back with " + std::to_string(d.o.size()));
                if (member_order) {
                    for (size_t i = 0; i < v.o.size() && verdict != V_BAD; ++i) {
                        if (v.o[i].first != d.o[i].first) return bad("member-name", "member " + std::to_string(i) + " \"" + show(v.o[i].first).substr(0, 60) + "\" came back as \"" + show(d.o[i].first).substr(0, 60) + "\"");
                        cmp(v.o[i].second, d.o[i].second);
                    }
                } else {
                    std::map<std::string, const MV*> dm; for (auto& kv : d.o) dm[kv.first] = &kv.second;
                    for (auto& kv : v.o) { auto it = dm.find(kv.first); if (it == dm.end()) return bad("member-name", "member \"" + show(kv.first).substr(0, 60) + "\" is missing"); cmp(kv.second, *it->second); if (verdict == V_BAD) return; }
                }
                return;
            }
        }
    }

    void cmp_int(const MV& v, const MV& d) {
        __int128 x = 0, y = 0; as_int(v, x);
        int t = v.tag;
        bool epoch = t == T_ESEC || t == T_EMILLI || t == T_ENANO;
        if (epoch && f == MSGPACK) {       // timestamp extension: the instant must survive
            __int128 want = t == T_ESEC ? x * 1000000000 : (t == T_EMILLI ? x * 1000000 : x), got;
            if (!instant_of(d, got)) return bad("timestamp", "epoch value came back as " + short_text(d));
            if (got != want) return bad("timestamp", "instant " + i128_text(want) + " ns came back as " + i128_text(got) + " ns (" + short_text(d) + ")");
            return;
        }
        if (epoch && f == CBOR && t != T_ESEC) return abstain("cbor-epoch-milli-nano");       // written as a double of seconds: not documented
        if (epoch && f == BSON) {
            __int128 want;
            if (t == T_EMILLI) want = x; else if (t == T_ESEC) want = x * 1000;
            else { if (x % 1000000 != 0) return abstain("bson-epoch-nano-subms"); want = x / 1000000; }
            if (!as_int(d, y) || d.tag != T_EMILLI || y != want) return bad("datetime", "epoch value came back as " + short_text(d) + ", expected " + i128_text(want) + " ms tagged epoch_milli");
            return;
        }
        if (f == UBJSON && x > (__int128)INT64_MAX) {       // no unsigned 64-bit type: high-precision number
            if (d.k == MV::Str && (d.tag == T_BIGINT || d.tag == T_BIGDEC) && d.s == i128_text(x)) return;
            return bad("uint-above-int64", "integer " + i128_text(x) + " came back as " + short_text(d));
        }
        if (!as_int(d, y) || y != x) return bad(x > (__int128)INT64_MAX ? "uint-above-int64" : "int", "integer " + i128_text(x) + " came back as " + short_text(d));
        bool keeps = t == T_ESEC && f == CBOR;
        if (keeps ? d.tag != t : !lenient_tag(d, t)) return bad("int-tag", "integer tagged " + std::to_string(t) + " came back as " + short_text(d));
    }

    void cmp_float(const MV& v, const MV& d) {
        uint64_t want = v.k == MV::Half ? half_to_double_bits(uint16_t(v.u)) : v.u, got;
        int t = v.tag;
        if ((t == T_EMILLI || t == T_ENANO) && f == CBOR) return abstain("cbor-epoch-milli-nano");
        if (d.k == MV::Dbl) got = d.u; else if (d.k == MV::Half) got = half_to_double_bits(uint16_t(d.u));
        else return bad("float", "floating-point value came back as " + short_text(d));
        if (!dbl_same(want, got)) { char b[80]; snprintf(b, sizeof b, "%016llx came back as %016llx", (unsigned long long)want, (unsigned long long)got); return bad(v.k == MV::Half ? "half" : "float", std::string("floating-point bits ") + b); }
        bool keeps = t == T_ESEC && f == CBOR;
        if (keeps ? d.tag != t : !lenient_tag(d, t)) return bad("float-tag", "double tagged " + std::to_string(t) + " came back as " + short_text(d));
    }

    void cmp_str(const MV& v, const MV& d) {
        int t = v.tag;
        if (f == MSGPACK && (t == T_ESEC || t == T_EMILLI || t == T_ENANO)) {
            Dec x = parse_decimal(v.s);
            if (!x.ok || x.exp < 0) return abstain("msgpack-epoch-string-not-integer");
            __int128 n = 0; for (char c : x.digits) n = n * 10 + (c - '0'); for (long long i = 0; i < x.exp; ++i) n *= 10; if (x.neg) n = -n;
            __int128 want = t == T_ESEC ? n * 1000000000 : (t == T_EMILLI ? n * 1000000 : n), got;
            if (!instant_of(d, got) || got != want) return bad("timestamp", "epoch string came back as " + short_text(d));
            return;
        }
        if (d.k != MV::Str) return bad("string", "string came back as " + short_text(d));
        auto same_text = [&](const char* fam) { if (d.s != v.s) bad(fam, "string \"" + show(v.s).substr(0, 80) + "\" (" + std::to_string(v.s.size()) + " bytes) came back as \"" + show(d.s).substr(0, 80) + "\" (" + std::to_string(d.s.size()) + " bytes)"); return d.s == v.s; };
        auto exact_tag = [&](const char* fam, int want) { if (d.tag != want) bad(fam, "string tagged " + std::to_string(t) + " came back with tag " + std::to_string(d.tag) + " (expected " + std::to_string(want) + ")"); };
        switch (t) {
            case T_NONE: if (same_text("string")) exact_tag("string-tag", 0); return;
            case T_BIGINT:
                if (f == CBOR) { if (same_text("bigint")) exact_tag("bigint", T_BIGINT); return; }
                if (f == UBJSON) { if (same_text("bigint") && d.tag != T_BIGINT && d.tag != T_BIGDEC) bad("bigint", "bigint came back with tag " + std::to_string(d.tag)); return; }
                if (same_text("bignum-as-string")) exact_tag("bignum-as-string", 0);     // MessagePack, BSON: plain string
                return;
            case T_BIGDEC:
                if (f == CBOR) { if (d.tag != T_BIGDEC || !dec_equal(v.s, d.s)) bad("bigdec", "decimal " + v.s.substr(0, 80) + " came back as " + short_text(d)); return; }
                if (f == UBJSON) { if (same_text("bigdec") && d.tag != T_BIGINT && d.tag != T_BIGDEC) bad("bigdec", "bigdec came back with tag " + std::to_string(d.tag)); return; }
                if (same_text("bignum-as-string")) exact_tag("bignum-as-string", 0);
                return;
            case T_BIGFLOAT:
                if (f == CBOR) {
                    HexF x = parse_hexfloat(v.s, 10), y = parse_hexfloat(d.s, 16);     // the decoder documents a hexadecimal exponent
                    if (x.ok && std::llabs(parse_hexfloat(v.s, 16).exp - x.exp) != 0) return abstain("cbor-bigfloat-exponent-radix");   // the two documented readings differ
                    if (d.tag != T_BIGFLOAT || !hexf_equal(x, y)) bad("bigfloat", "bigfloat " + v.s.substr(0, 80) + " came back as " + short_text(d));
                    return;
                }
                if (f == UBJSON) { if (same_text("bigfloat") && !lenient_tag(d, t)) bad("bigfloat", "tag"); return; }
                if (same_text("bignum-as-string")) exact_tag("bignum-as-string", 0);
                return;
            case T_DATETIME: case T_URI: case T_B64URL: case T_B64:
                if (f == CBOR) { if (same_text("tagged-string")) exact_tag("tagged-string", t); return; }
                break;
            case T_F128:
                if (f == BSON) { if (d.tag != T_F128 || !dec_equal(v.s, d.s)) bad("decimal128", "decimal128 " + v.s + " came back as " + short_text(d)); return; }
                break;
            case T_ID: case T_REGEX: case T_CODE:
                if (f == BSON) { if (same_text("bson-string-type")) exact_tag("bson-string-type", t); return; }
                break;
            default: break;
        }
        // no counterpart in this format: the text must survive, the tag may be dropped
        if (same_text("string") && !lenient_tag(d, t)) bad("string-tag", "string tagged " + std::to_string(t) + " came back with tag " + std::to_string(d.tag));
    }

    void cmp_bytes(const MV& v, const MV& d) {
        if (f == UBJSON) {        // no byte-string type: array of byte values (a byte string with the same content is accepted too)
            if (d.k == MV::Bytes) { if (d.s != v.s) bad("bytes", "byte string content changed"); return; }
            if (d.k != MV::Arr || d.a.size() != v.s.size()) return bad("bytes-as-array", std::to_string(v.s.size()) + " bytes came back as " + short_text(d));
            for (size_t i = 0; i < v.s.size(); ++i) { __int128 y; if (!as_int(d.a[i], y) || y != (unsigned char)v.s[i]) return bad("bytes-as-array", "byte " + std::to_string(i) + " came back as " + short_text(d.a[i])); }
            return;
        }
        // a raw tag that the format itself gives a meaning to (CBOR bignum / hint / stringref / typed array tags, MessagePack type -1 = timestamp)
        // makes the item that thing: nothing is promised about reading it back as a tagged byte string
        if (v.has_ext && f == CBOR && (v.u == 2 || v.u == 3 || (v.u >= 21 && v.u <= 23) || v.u == 25 || v.u == 256 || (v.u >= 64 && v.u <= 87))) return abstain("cbor-raw-tag-with-a-meaning");
        if (v.has_ext && f == MSGPACK && v.u == 255) return abstain("msgpack-ext-type-255-is-timestamp");
        if (d.k != MV::Bytes) return bad(v.has_ext ? "ext" : "bytes", "byte string came back as " + short_text(d));
        if (d.s != v.s) return bad(v.has_ext ? "ext" : "bytes", std::to_string(v.s.size()) + " bytes came back as " + std::to_string(d.s.size()) + " bytes: " + short_text(d));
        if (v.has_ext) {
            if (!d.has_ext || d.u != v.u) return bad("ext-tag", "ext tag " + std::to_string(v.u) + " came back as " + short_text(d));
            return;
        }
        if (f == BSON) { if (!d.has_ext || d.u != 0x80) bad("bytes", "byte string came back with subtype " + short_text(d)); return; }
        if (f == CBOR && (v.tag == T_B16 || v.tag == T_B64 || v.tag == T_B64URL)) { if (d.tag != v.tag) bad("bytes-tag", "byte string tagged " + std::to_string(v.tag) + " came back with tag " + std::to_string(d.tag)); return; }
        if (d.has_ext || !lenient_tag(d, v.tag)) bad("bytes-tag", "byte string tagged " + std::to_string(v.tag) + " came back as " + short_text(d));
    }
};

// Is v inside the format's documented domain under these options?  Outside it, an encode-time error is an acceptable
// answer (and so is a round trip that returns the value unchanged); inside it, the encoder must accept.
inline bool in_domain(int f, const MV& v, const Opts& o, bool root, bool indefinite, std::string& why) {
    if (root && mv_depth(v) > o.limit()) { why = "nesting-beyond-limit"; return false; }
    if (root && f == BSON && v.k != MV::Obj) { why = "bson-root-not-object"; return false; }
    if (f == MSGPACK && indefinite && (v.k == MV::Obj || (v.k == MV::Arr && !is_typed_node(v)))) { why = "msgpack-indefinite-length"; return false; }
    switch (v.k) {
        case MV::UInt: if (f == BSON && v.u > uint64_t(INT64_MAX)) { why = "bson-uint-above-int64"; return false; } break;
        case MV::Int: case MV::Dbl: case MV::Half: case MV::Null: case MV::Bool: break;
        case MV::Str:
            if (f == MSGPACK && (v.tag == T_ESEC || v.tag == T_EMILLI || v.tag == T_ENANO)) {     // the seconds field of a timestamp is an int64
                Dec x = parse_decimal(v.s);
                if (x.ok && x.exp >= 0) {
                    if ((long long)x.digits.size() + x.exp > 37) { why = "msgpack-timestamp-range"; return false; }
                    __int128 n = 0; for (char c : x.digits) n = n * 10 + (c - '0'); for (long long i = 0; i < x.exp; ++i) n *= 10; if (x.neg) n = -n;
                    __int128 unit = v.tag == T_ESEC ? 1 : (v.tag == T_EMILLI ? 1000 : 1000000000);
                    __int128 sec = n / unit; if (n % unit < 0) sec -= 1;
                    if (sec <= (__int128)INT64_MIN || sec > (__int128)INT64_MAX) { why = "msgpack-timestamp-range"; return false; }
                }
            }
            break;
        case MV::Bytes:
            if (v.has_ext && f == MSGPACK && v.u > 127) { why = "msgpack-ext-type-above-127"; return false; }
            if (v.has_ext && f == BSON && v.u > 255) { why = "bson-subtype-above-255"; return false; }
            break;
        case MV::Arr: for (auto& e : v.a) if (!in_domain(f, e, o, false, indefinite, why)) return false; break;
        case MV::Obj:
            for (auto& kv : v.o) {
                if (f == BSON && kv.first.find('\0') != std::string::npos) { why = "bson-name-with-nul"; return false; }
                if (!in_domain(f, kv.second, o, false, indefinite, why)) return false;
            }
            break;
    }
    if (v.k == MV::Int || v.k == MV::UInt) {
        if (f == BSON && v.tag == T_ESEC) { __int128 x; Judge::as_int(v, x); if (x > INT64_MAX / 1000 || x < INT64_MIN / 1000) { why = "bson-datetime-range"; return false; } }
        if (f == BSON && (v.tag == T_EMILLI || v.tag == T_ENANO) && v.k == MV::UInt && v.u > uint64_t(INT64_MAX)) { why = "bson-datetime-range"; return false; }
        if (f == MSGPACK && v.k == MV::UInt && v.u > uint64_t(INT64_MAX) && v.tag == T_ESEC) { why = "msgpack-timestamp-range"; return false; }    // seconds field: int64
    }
    return true;
}
// the value is outside the domain in a way for which the documentation promises nothing when it is written anyway
inline bool mapping_unspecified(int f, const MV& v, bool root) {
    if (root && f == BSON && v.k == MV::Arr) return true;      // the encoder documents a root array in an example; what it decodes to is not stated
    return false;
}
inline bool json_number_syntax(const std::string& s) {        // -?(0|[1-9][0-9]*)(\.[0-9]+)?([eE][+-]?[0-9]+)?
    size_t i = 0, n = s.size();
    if (i < n && s[i] == '-') ++i;
    if (i >= n || !isdigit((unsigned char)s[i])) return false;
    if (s[i] == '0') ++i; else while (i < n && isdigit((unsigned char)s[i])) ++i;
    if (i < n && s[i] == '.') { ++i; if (i >= n || !isdigit((unsigned char)s[i])) return false; while (i < n && isdigit((unsigned char)s[i])) ++i; }
    if (i < n && (s[i] == 'e' || s[i] == 'E')) { ++i; if (i < n && (s[i] == '+' || s[i] == '-')) ++i; if (i >= n || !isdigit((unsigned char)s[i])) return false; while (i < n && isdigit((unsigned char)s[i])) ++i; }
    return i == n;
}
// UBJSON writes a bigint / bigdec text verbatim as a high-precision number, which the UBJSON specification defines as a JSON number:
// a text such as "+1.5", ".5" or "5." (accepted by the CBOR encoder) has no documented UBJSON form
inline bool ubjson_unspecified(const MV& v) {
    if (v.k == MV::Str && (v.tag == T_BIGINT || v.tag == T_BIGDEC)) return !json_number_syntax(v.s);
    for (auto& e : v.a) if (ubjson_unspecified(e)) return true;
    for (auto& kv : v.o) if (ubjson_unspecified(kv.second)) return true;
    return false;
}

// --- counters / reporting -----------------------------------------------------------------------------------------
struct Ctx {
    long long eval = 0, nontrivial = 0;
    bool emit_ref = false, thorough = false;
    std::map<std::string, int> per_class;     // violations printed per (format, failure class): a flood of one kind cannot hide another
    int class_cap = 12;
};
inline Ctx& ctx() { static Ctx c; return c; }
inline void report(const std::string& sigbase, const std::string& cls, const std::string& fmtname, const std::string& detail) {
    std::string key = fmtname + "|" + cls;
    if (++ctx().per_class[key] > ctx().class_cap) { out().count("violations_beyond_class_cap"); return; }
    out().viol(sigbase + "|" + cls, detail);
}
// first words of an error message, usable inside a signature
inline std::string slug(const std::string& msg) {
    std::string o; int words = 0;
    for (char c : msg) {
        if (isalnum((unsigned char)c)) o.push_back(c);
        else if (!o.empty() && o.back() != '-') { if (++words >= 3) break; o.push_back('-'); }
    }
    while (!o.empty() && o.back() == '-') o.pop_back();
    return o.empty() ? "error" : o;
}
inline void ref_line(const std::string& sigbase, const Bytes& b, const MV& d) {
    if (!ctx().emit_ref) return;
    printf("R\t%s\t%s\t%s\n", sigbase.c_str(), hex(b).c_str(), mv_text(d).c_str());
}

// crash attribution: a fatal signal inside a case is reported as a violation of that case
struct Crash {
    static char* buf() { static char b[4096]; return b; }
    static void on_sig(int s) { const char* b = buf(); size_t n = strlen(b); if (n) { ssize_t r = write(1, b, n); (void)r; } (void)s; _exit(0); }
    static void install() { signal(SIGSEGV, on_sig); signal(SIGABRT, on_sig); signal(SIGFPE, on_sig); signal(SIGBUS, on_sig); }
    static void set(const std::string& sigbase) { fflush(stdout); std::string l = "V\t" + sigbase + "|crash\tthe process received a fatal signal in this case\nS\tcrashes\t1\n"; if (l.size() < 4000) memcpy(buf(), l.c_str(), l.size() + 1); }
    static void clear() { buf()[0] = 0; }
};

// One case through one entry point.  Returns after printing at most one violation.
inline void run_case(const std::string& mode, int f, int entry, const Opts& o, const std::string& caseid, const MV& v) {
    std::string sigbase = mode + "|" + fmt_name(f) + "|" + entry_name(entry) + "|" + o.str() + "|" + caseid;
    std::string what = std::string(fmt_name(f)) + " " + entry_name(entry) + " " + o.str() + " value " + short_text(v) + " :: ";
    // ojson looks members up linearly: an object of 65536 members costs seconds per case.  Objects of more than 4096 members are read
    // back into a (sorted) json only, except the 65536-member ones in the thorough tier.
    if (f == UBJSON && ubjson_unspecified(v)) { out().count("abstained"); out().cls("ubjson:abstain:high-precision-text-not-a-json-number"); return; }
    size_t members = max_members(v);
    bool huge = members > 4096;
    bool huge_into_ojson = ctx().thorough && members == 65536;       // thorough: the 65536-member objects only (about 10 s each on a quiet machine)
    if (huge && entry == E_OJSON && !huge_into_ojson) { out().count("skipped_huge_ojson"); return; }
    ++ctx().eval;
    Crash::set(sigbase);
    Watchdog::arm(sigbase + "|hang", what + "round trip", huge ? 3000 : 600);
    std::string why_out;
    bool indom = in_domain(f, v, o, true, entry == E_SINDEF, why_out);
    Bytes b; bool encoded = false; std::string enc_err;
    try {
        switch (entry) {
            case E_JSON: b = enc_dom(f, build<json>(v), o); break;
            case E_OJSON: b = enc_dom(f, build<ojson>(v), o); break;
            case E_SDEF: b = enc_stream(f, v, o, true); break;
            default: b = enc_stream(f, v, o, false); break;
        }
        encoded = true;
    } catch (const std::exception& e) { enc_err = e.what(); }
    if (!encoded) {
        if (indom) report(sigbase, "encode-refuses:" + slug(enc_err), fmt_name(f), what + "the encoder refused a value inside the format's domain: " + enc_err);
        else out().cls(std::string(fmt_name(f)) + ":refused:" + why_out);
        Watchdog::disarm(); Crash::clear();
        return;
    }
    if (!indom && mapping_unspecified(f, v, true)) { out().count("abstained"); out().cls(std::string(fmt_name(f)) + ":abstain:" + why_out); Watchdog::disarm(); Crash::clear(); return; }
    // dom-ojson and stream-def are read back into an ojson (member order must survive); dom-json and stream-indef into a json (sorted)
    bool keeps_order = entry == E_OJSON || (entry == E_SDEF && (!huge || huge_into_ojson));
    MV d; bool decoded = false; std::string dec_err;
    try {
        if (keeps_order) d = to_mv(dec_as<ojson>(f, b, o)); else d = to_mv(dec_as<json>(f, b, o));
        decoded = true;
    } catch (const std::exception& e) { dec_err = e.what(); }
    Watchdog::disarm(); Crash::clear();
    if (!decoded) {
        report(sigbase, indom ? "decode-rejects" : "outside-domain-written-unreadable", fmt_name(f),
               what + (indom ? "" : "(outside the domain: " + why_out + ", yet written) ") + "the decoder rejects the encoder's output (" + dec_err + "): " + short_hex(b));
        return;
    }
    Judge J(f, true);
    MV vv = keeps_order ? v : mv_sorted(v);
    J.cmp(vv, d);
    if (J.verdict == V_BAD) {
        report(sigbase, (indom ? "diff:" : "outside-domain-changed:") + J.family, fmt_name(f),
               what + (indom ? "" : "(outside the domain: " + why_out + ", yet written) ") + J.why + "; decoded " + short_text(d) + "; bytes " + short_hex(b));
        return;
    }
    if (J.verdict == V_ABSTAIN) { out().count("abstained"); out().cls(std::string(fmt_name(f)) + ":abstain:" + J.abstained); return; }
    out().cls(std::string(fmt_name(f)) + (indom ? ":roundtrip" : ":outside-domain-preserved:" + why_out));
    ++ctx().nontrivial;
    ref_line(sigbase, b, d);
}

inline std::vector<Opts> option_sets(int f, bool all_cbor) {
    std::vector<Opts> v; v.push_back(Opts());
    if (f == CBOR) { Opts p; p.pack = true; v.push_back(p); if (all_cbor) { Opts t; t.typed = true; v.push_back(t); Opts pt; pt.pack = true; pt.typed = true; v.push_back(pt); } }
    return v;
}

void run_typed(const Args& a);                       // c06_typed.cpp
void replay_typed(const std::vector<std::string>& p);

} // namespace c06
