// C06 — typed entry points: encode_X(std::vector<T>) / decode_X<std::vector<T>>, typed_array() encoder events, and
// std::vector<uint8_t> read from a byte string.
//
// case ids:  vec:<T>:<variant>      std::vector<T> through encode_X / decode_X<std::vector<T>> and decode_X<json>
//            map:<T>:<variant>      std::map<std::string,std::vector<T>> (BSON needs a document at the root)
//            ev:<T>:<variant>       typed_array() event at the root / evarr: inside an array   (through run_case)
//            bytes:<n>              json byte string of n bytes read as std::vector<uint8_t>
#include "c06_common.hpp"
#include <limits>

namespace c06 {

template <class T> struct TN;
#define C06_TN(T, NAME, CODE) template <> struct TN<T> { static const char* name() { return NAME; } static char code() { return CODE; } };
C06_TN(uint8_t, "uint8", 'B') C06_TN(uint16_t, "uint16", 'H') C06_TN(uint32_t, "uint32", 'W') C06_TN(uint64_t, "uint64", 'Q')
C06_TN(int8_t, "int8", 'b') C06_TN(int16_t, "int16", 'h') C06_TN(int32_t, "int32", 'w') C06_TN(int64_t, "int64", 'q')
C06_TN(float, "float", 'f') C06_TN(double, "double", 'd')

template <class T> typename std::enable_if<std::is_integral<T>::value, std::vector<T>>::type elements() {
    std::vector<T> v = {std::numeric_limits<T>::min(), T(0), T(1), T(23), T(24), T(127), std::numeric_limits<T>::max()};
    if (std::is_signed<T>::value) { v.push_back(T(-1)); v.push_back(T(-24)); v.push_back(T(-25)); v.push_back(T(-33)); }
    if (sizeof(T) > 1) { v.push_back(T(255)); v.push_back(T(256)); }
    if (sizeof(T) > 2) { v.push_back(T(65535)); v.push_back(T(65536)); }
    if (sizeof(T) > 4) { v.push_back(T(4294967295ULL)); v.push_back(T(4294967296ULL)); v.push_back(T(9223372036854775807ULL)); }
    return v;
}
template <class T> typename std::enable_if<std::is_floating_point<T>::value, std::vector<T>>::type elements() {
    std::vector<T> v = {T(0), -T(0), T(1.5), T(-1.5), T(0.1), std::numeric_limits<T>::max(), std::numeric_limits<T>::lowest(), std::numeric_limits<T>::min(), std::numeric_limits<T>::denorm_min(),
                        std::numeric_limits<T>::infinity(), -std::numeric_limits<T>::infinity(), std::numeric_limits<T>::quiet_NaN(), T(65504), T(16777217), T(1.0 / 3)};
    return v;
}
template <class T> std::vector<std::pair<std::string, std::vector<T>>> variants() {
    std::vector<std::pair<std::string, std::vector<T>>> out;
    auto el = elements<T>();
    out.emplace_back("empty", std::vector<T>());
    for (size_t i = 0; i < el.size(); ++i) out.emplace_back("one" + std::to_string(i), std::vector<T>{el[i]});
    out.emplace_back("pair", std::vector<T>{el[0], el[el.size() > 6 ? 6 : el.size() - 1]});
    out.emplace_back("pairr", std::vector<T>{el[el.size() > 6 ? 6 : el.size() - 1], el[0]});
    out.emplace_back("triple", std::vector<T>{el[0], el[1], el[el.size() > 6 ? 6 : el.size() - 1]});
    out.emplace_back("all", el);
    return out;
}
template <class T> bool same_elem(T a, T b) { return a == b; }
template <> bool same_elem<float>(float a, float b) { uint32_t x, y; memcpy(&x, &a, 4); memcpy(&y, &b, 4); return x == y || (a != a && b != b); }
template <> bool same_elem<double>(double a, double b) { uint64_t x, y; memcpy(&x, &a, 8); memcpy(&y, &b, 8); return x == y || (a != a && b != b); }
template <class T> bool same_vec(const std::vector<T>& a, const std::vector<T>& b) { if (a.size() != b.size()) return false; for (size_t i = 0; i < a.size(); ++i) if (!same_elem(a[i], b[i])) return false; return true; }
template <class T> typename std::enable_if<std::is_integral<T>::value, MV>::type elem_mv(T x) { return std::is_signed<T>::value ? MV::int64(int64_t(x)) : MV::uint64(uint64_t(x)); }
template <class T> typename std::enable_if<std::is_floating_point<T>::value, MV>::type elem_mv(T x) { return MV::dbl(double(x)); }
template <class T> MV vec_mv(const std::vector<T>& v) { MV m = MV::arr(); for (T x : v) m.a.push_back(elem_mv(x)); return m; }
template <class T> std::string vec_text(const std::vector<T>& v) { return short_text(vec_mv(v)); }

template <class V> Bytes enc_typed(int f, const V& v, const Opts& o) {
    Bytes b;
    switch (f) {
        case CBOR: { jsoncons::cbor::cbor_options op; op.pack_strings(o.pack).use_typed_arrays(o.typed); jsoncons::cbor::encode_cbor(v, b, op); break; }
        case MSGPACK: jsoncons::msgpack::encode_msgpack(v, b); break;
        case UBJSON: jsoncons::ubjson::encode_ubjson(v, b); break;
        default: jsoncons::bson::encode_bson(v, b); break;
    }
    return b;
}

template <class T> void vec_case(int f, const Opts& o, const std::string& variant, const std::vector<T>& vec, bool as_map) {
    std::string id = std::string(as_map ? "map:" : "vec:") + TN<T>::name() + ":" + variant;
    std::string sigbase = std::string("typed|") + fmt_name(f) + "|" + (as_map ? "map" : "vec") + "|" + o.str() + "|" + id;
    std::string what = std::string(fmt_name(f)) + " std::vector<" + TN<T>::name() + "> " + (as_map ? "inside std::map " : "") + o.str() + " value " + vec_text(vec) + " :: ";
    ++ctx().eval;
    Crash::set(sigbase);
    Watchdog::arm(sigbase + "|hang", what, 600);
    typedef std::map<std::string, std::vector<T>> Map;
    Bytes b; std::string err; bool ok = false;
    try { if (as_map) { Map m; m["a"] = vec; b = enc_typed(f, m, o); } else b = enc_typed(f, vec, o); ok = true; } catch (const std::exception& e) { err = e.what(); }
    MV want = vec_mv(vec);
    if (as_map) { MV o2 = MV::obj(); o2.o.emplace_back("a", want); want = o2; }
    std::string why_out;
    bool indom = in_domain(f, want, o, true, false, why_out);
    if (!ok) {
        Watchdog::disarm(); Crash::clear();
        if (indom) report(sigbase, "encode-refuses:" + slug(err), fmt_name(f), what + "the encoder refused: " + err); else out().cls(std::string(fmt_name(f)) + ":refused:" + why_out);
        return;
    }
    // (a) typed read-back
    ok = false; std::vector<T> back;
    try { if (as_map) { Map m = dec_as<Map>(f, b, o); back = m["a"]; ok = m.size() == 1 && m.count("a") == 1; if (!ok) err = "map shape changed"; } else { back = dec_as<std::vector<T>>(f, b, o); ok = true; } } catch (const std::exception& e) { err = e.what(); }
    if (!ok) { Watchdog::disarm(); Crash::clear(); report(sigbase, "typed-decode-rejects", fmt_name(f), what + "decode_X<std::vector<T>> rejects the encoder's output (" + err + "): " + short_hex(b)); return; }
    if (!same_vec(vec, back)) { Watchdog::disarm(); Crash::clear(); report(sigbase, std::string("typed-diff:") + TN<T>::name(), fmt_name(f), what + "read back as " + vec_text(back) + "; bytes " + short_hex(b)); return; }
    // (b) what the bytes denote as a generic value
    ok = false; MV d;
    try { d = to_mv(dec_as<json>(f, b, o)); ok = true; } catch (const std::exception& e) { err = e.what(); }
    Watchdog::disarm(); Crash::clear();
    if (!ok) { report(sigbase, "decode-rejects", fmt_name(f), what + "decode_X<json> rejects the encoder's output (" + err + "): " + short_hex(b)); return; }
    Judge J(f, true); J.cmp(want, d);
    if (J.verdict == V_BAD) { report(sigbase, "diff:" + J.family, fmt_name(f), what + "decode_X<json> of the bytes: " + J.why + "; decoded " + short_text(d) + "; bytes " + short_hex(b)); return; }
    if (J.verdict == V_ABSTAIN) { out().count("abstained"); return; }
    out().cls(std::string(fmt_name(f)) + ":typed:" + TN<T>::name());
    ++ctx().nontrivial;
    ref_line(sigbase, b, d);
}

template <class T> MV typed_node(const std::vector<T>& vec, int tag) { MV m = vec_mv(vec); m.fine = TN<T>::code(); m.tag = tag; return m; }

template <class T> void type_cases(const Args& a, size_t& idx, const std::string* only_id, int only_f, const Opts* only_o, const std::string* only_entry) {
    auto vs = variants<T>();
    for (auto& nv : vs) for (int f = 0; f < NFMT; ++f) {
        if (only_id == nullptr && int(idx++ % size_t(a.nslices)) != a.slice) continue;
        if (only_id && f != only_f) continue;
        for (const Opts& o : option_sets(f, true)) {
            if (only_o && only_o->str() != o.str()) continue;
            std::string vid = std::string("vec:") + TN<T>::name() + ":" + nv.first, mid = std::string("map:") + TN<T>::name() + ":" + nv.first;
            if (f != BSON) { if (!only_id || (*only_id == vid && *only_entry == "vec")) vec_case<T>(f, o, nv.first, nv.second, false); }
            else if (!only_id) { out().count("abstained"); out().cls("bson:abstain:root-array"); }
            if (!only_id || (*only_id == mid && *only_entry == "map")) vec_case<T>(f, o, nv.first, nv.second, true);
            // typed_array() events
            MV node = typed_node(nv.second, 0);
            MV in_arr = MV::arr(); in_arr.a.push_back(MV::uint64(7)); in_arr.a.push_back(node); in_arr.a.push_back(node);
            MV in_obj = MV::obj(); in_obj.o.emplace_back("t", node);
            std::string eid = std::string("ev:") + TN<T>::name() + ":" + nv.first, aid = std::string("evarr:") + TN<T>::name() + ":" + nv.first, oid = std::string("evobj:") + TN<T>::name() + ":" + nv.first;
            for (int e : {int(E_SDEF), int(E_SINDEF)}) {
                if (only_entry && *only_entry != entry_name(e)) continue;
                if (f != BSON && (!only_id || *only_id == eid)) run_case("typed", f, e, o, eid, node);
                if (f != BSON && (!only_id || *only_id == aid)) run_case("typed", f, e, o, aid, in_arr);
                if (!only_id || *only_id == oid) run_case("typed", f, e, o, oid, in_obj);
            }
        }
    }
}

static void special_events(const Args& a, size_t& idx, const std::string* only_id, int only_f, const Opts* only_o, const std::string* only_entry) {
    // half-precision typed arrays and clamped uint8 arrays exist only as events
    std::vector<std::pair<std::string, MV>> nodes;
    for (size_t n : {0, 1, 2, 3}) {
        MV h = MV::arr(); h.fine = 'e'; const uint16_t hs[] = {0x3c00, 0x0001, 0xfbff}; for (size_t i = 0; i < n; ++i) h.a.push_back(MV::half(hs[i]));
        nodes.emplace_back("ev:half:n" + std::to_string(n), h);
        MV c = MV::arr(); c.fine = 'B'; c.tag = T_CLAMPED; const uint8_t cs[] = {0, 255, 128}; for (size_t i = 0; i < n; ++i) c.a.push_back(MV::uint64(cs[i]));
        nodes.emplace_back("ev:clamped:n" + std::to_string(n), c);
    }
    MV hs = MV::arr(); hs.fine = 'e'; for (uint16_t h : {0x0000, 0x8000, 0x7c00, 0xfc00, 0x7e00, 0x7c01, 0x03ff, 0x0400, 0x7bff}) hs.a.push_back(MV::half(h));
    nodes.emplace_back("ev:half:specials", hs);
    for (auto& nv : nodes) for (int f = 0; f < NFMT; ++f) {
        if (only_id == nullptr && int(idx++ % size_t(a.nslices)) != a.slice) continue;
        if (only_id && (f != only_f || *only_id != nv.first)) continue;
        MV v = nv.second;
        if (f == BSON) { MV o = MV::obj(); o.o.emplace_back("t", v); v = o; }
        for (const Opts& o : option_sets(f, true)) { if (only_o && only_o->str() != o.str()) continue; for (int e : {int(E_SDEF), int(E_SINDEF)}) { if (only_entry && *only_entry != entry_name(e)) continue; run_case("typed", f, e, o, nv.first, v); } }
    }
}

static void bytes_case(int f, size_t n) {
    std::string id = "bytes:" + std::to_string(n);
    Opts o;
    std::string sigbase = std::string("typed|") + fmt_name(f) + "|bytes|" + o.str() + "|" + id;
    std::string s; for (size_t i = 0; i < n; ++i) s.push_back(char((i * 37 + 1) & 0xff));
    std::vector<uint8_t> want(s.begin(), s.end());
    std::string what = std::string(fmt_name(f)) + " byte string of " + std::to_string(n) + " bytes read as std::vector<uint8_t> :: ";
    ++ctx().eval;
    Crash::set(sigbase);
    typedef std::map<std::string, std::vector<uint8_t>> Map;
    try {
        json j(jsoncons::byte_string_arg, want);
        Bytes b;
        std::vector<uint8_t> back;
        if (f == BSON) { json o2; o2.try_emplace("a", j); b = enc_dom(f, o2, o); Map m = dec_as<Map>(f, b, o); back = m["a"]; }
        else { b = enc_dom(f, j, o); back = dec_as<std::vector<uint8_t>>(f, b, o); }
        Crash::clear();
        if (back != want) { report(sigbase, "typed-diff:bytes", fmt_name(f), what + "read back as " + short_hex(back) + "; bytes " + short_hex(b)); return; }
        ++ctx().nontrivial; out().cls(std::string(fmt_name(f)) + ":typed:bytes");
    } catch (const std::exception& e) { Crash::clear(); report(sigbase, "typed-decode-rejects", fmt_name(f), what + e.what()); }
}

static void all_types(const Args& a, size_t& idx, const std::string* only_id, int only_f, const Opts* only_o, const std::string* only_entry) {
    type_cases<uint8_t>(a, idx, only_id, only_f, only_o, only_entry); type_cases<uint16_t>(a, idx, only_id, only_f, only_o, only_entry);
    type_cases<uint32_t>(a, idx, only_id, only_f, only_o, only_entry); type_cases<uint64_t>(a, idx, only_id, only_f, only_o, only_entry);
    type_cases<int8_t>(a, idx, only_id, only_f, only_o, only_entry); type_cases<int16_t>(a, idx, only_id, only_f, only_o, only_entry);
    type_cases<int32_t>(a, idx, only_id, only_f, only_o, only_entry); type_cases<int64_t>(a, idx, only_id, only_f, only_o, only_entry);
    type_cases<float>(a, idx, only_id, only_f, only_o, only_entry); type_cases<double>(a, idx, only_id, only_f, only_o, only_entry);
    special_events(a, idx, only_id, only_f, only_o, only_entry);
}

void run_typed(const Args& a) {
    size_t idx = 0;
    all_types(a, idx, nullptr, -1, nullptr, nullptr);
    for (size_t n : {0, 1, 2, 3, 23, 24, 255, 256, 65535, 65536}) for (int f = 0; f < NFMT; ++f) { if (int(idx++ % size_t(a.nslices)) != a.slice) continue; bytes_case(f, n); }
    if (a.slice == 0) out().sample("typed std::vector<T> for T in uint8..int64, float, double; typed_array() events incl. half and clamped");
}

void replay_typed(const std::vector<std::string>& p) {     // typed|<fmt>|<entry>|<opts>|<caseid>|...
    int f = fmt_of(p[1]); if (f < 0) return;
    Opts o = Opts::parse(p[3]);
    const std::string& id = p[4];
    if (p[2] == "bytes") { bytes_case(f, (size_t)atoll(id.c_str() + 6)); return; }
    Args dummy(0, nullptr); size_t idx = 0;
    all_types(dummy, idx, &id, f, &o, &p[2]);
}

} // namespace c06
