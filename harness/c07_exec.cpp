// C07 executor: decodes binary inputs with the real jsoncons decoders and prints what came out.
//
//   stdin :  one case per line   "<format> <hex bytes>"      format in {cbor,msgpack,ubjson,bson}
//   stdout:  one line per case   "OK <mv_text>[ !half:<bits>:<double bits>]" | "ERR <error message>" | "EXC <what>"
//            (the !half note is added when a decoded half float's as_double() is not the value of its bits)
//
// Every case uses fresh objects.  The line is flushed per case so that, if the process dies
// (sanitizer report, crash), the driver knows which input was being decoded: the first one
// without an answer.  The oracle lives in checks/c07.py + lib/ref_*.py (Python reference codecs).
#include "mv.hpp"
#include <jsoncons/json.hpp>
#include <jsoncons_ext/cbor/cbor.hpp>
#include <jsoncons_ext/msgpack/msgpack.hpp>
#include <jsoncons_ext/ubjson/ubjson.hpp>
#include <jsoncons_ext/bson/bson.hpp>
#include <iostream>
#include <new>

using jsoncons::json;

// exact widening binary16 -> binary64, written independently of jsoncons::binary::decode_half
static uint64_t half_to_double_bits(uint16_t h) {
    uint64_t s = (h >> 15) & 1, e = (h >> 10) & 0x1f, m = h & 0x3ff;
    if (e == 0) {
        if (m == 0) return s << 63;
        int sh = 0;
        while (!(m & 0x400)) { m <<= 1; ++sh; }
        m &= 0x3ff;
        return (s << 63) | (uint64_t(1023 - 15 - sh + 1) << 52) | (m << 42);
    }
    if (e == 0x1f) return (s << 63) | (uint64_t(0x7ff) << 52) | (m << 42);
    return (s << 63) | ((e - 15 + 1023) << 52) | (m << 42);
}

// A half float is kept as 16 bits; what the user gets from as_double() must be the value those bits denote.
static void check_halves(const json& j, std::string& note) {
    if (j.type() == jsoncons::json_type::float16) {
        uint16_t bits = j.cast<json::half_storage>().value();
        double d = j.as_double();
        uint64_t got; memcpy(&got, &d, 8);
        uint64_t want = half_to_double_bits(bits);
        bool nan_w = (want & 0x7ff0000000000000ULL) == 0x7ff0000000000000ULL && (want & 0xfffffffffffffULL);
        if (nan_w ? !(d != d) : got != want) {
            char b[80]; snprintf(b, sizeof b, " !half:%04x:%016llx", bits, (unsigned long long)got); note += b;
        }
    } else if (j.is_array()) {
        for (const auto& e : j.array_range()) check_halves(e, note);
    } else if (j.is_object()) {
        for (const auto& kv : j.object_range()) check_halves(kv.value(), note);
    }
}

static std::string one(const std::string& fmt, const std::vector<uint8_t>& in) {
    try {
        json j;
        if (fmt == "cbor") j = jsoncons::cbor::decode_cbor<json>(in);
        else if (fmt == "msgpack") j = jsoncons::msgpack::decode_msgpack<json>(in);
        else if (fmt == "ubjson") j = jsoncons::ubjson::decode_ubjson<json>(in);
        else if (fmt == "bson") j = jsoncons::bson::decode_bson<json>(in);
        else return "EXC unknown format " + fmt;
        std::string note;
        check_halves(j, note);
        return "OK " + vf::mv_text(vf::to_mv(j)) + note;
    } catch (const jsoncons::ser_error& e) {
        return "ERR " + vf::show(e.code().message());
    } catch (const std::bad_alloc& e) {
        return std::string("EXC bad_alloc");
    } catch (const std::exception& e) {
        return "EXC " + vf::show(e.what());
    } catch (...) {
        return "EXC unknown";
    }
}

int main() {
    std::ios::sync_with_stdio(false);
    std::string line;
    std::string outbuf;
    while (std::getline(std::cin, line)) {
        if (line.empty()) continue;
        size_t sp = line.find(' ');
        std::string fmt = sp == std::string::npos ? line : line.substr(0, sp);
        std::string bytes = sp == std::string::npos ? std::string() : vf::unhex(line.substr(sp + 1));
        std::vector<uint8_t> in(bytes.begin(), bytes.end());
        std::string r = one(fmt, in);
        r.push_back('\n');
        // one write per case: an answer is either completely there or not at all
        size_t off = 0;
        while (off < r.size()) {
            ssize_t n = write(1, r.data() + off, r.size() - off);
            if (n <= 0) return 3;
            off += size_t(n);
        }
    }
    return 0;
}
