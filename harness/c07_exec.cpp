// C07 executor: decodes binary inputs with the real jsoncons decoders and prints what came out.
//
//   stdin :  one case per line   "<format> <hex bytes>"      format in {cbor,msgpack,ubjson,bson}
//   stdout:  one line per case   "OK <mv_text>" | "ERR <error message>" | "EXC <what>"
//
// Every case uses fresh objects.  The line is flushed per case so that, if the process dies
// (sanitizer report, crash), the driver knows which input was being decoded: the first one
// without an answer.  The oracle lives in checks/c07.py + lib/ref_*.py (Python reference codecs).
#include "mv.hpp"
#include <jsoncons/json.hpp>
#include <jsoncons_ext/cbor/cbor.hpp>
#include <jsoncons_ext/msgpack/msgpack.hpp>
#include <jsoncons_ext/ubjson/ubjson.hpp>
#include <jsoncons_ext/bson/bson.hpp>
#include <iostream>
#include <new>

using jsoncons::json;

static std::string one(const std::string& fmt, const std::vector<uint8_t>& in) {
    try {
        json j;
        if (fmt == "cbor") j = jsoncons::cbor::decode_cbor<json>(in);
        else if (fmt == "msgpack") j = jsoncons::msgpack::decode_msgpack<json>(in);
        else if (fmt == "ubjson") j = jsoncons::ubjson::decode_ubjson<json>(in);
        else if (fmt == "bson") j = jsoncons::bson::decode_bson<json>(in);
        else return "EXC unknown format " + fmt;
        return "OK " + vf::mv_text(vf::to_mv(j));
    } catch (const jsoncons::ser_error& e) {
        return "ERR " + vf::show(e.code().message());
    } catch (const std::bad_alloc& e) {
        return std::string("EXC bad_alloc");
    } catch (const std::exception& e) {
        return "EXC " + vf::show(e.what());
    } catch (...) {
        return "EXC unknown";
    }
}

int main() {
    std::ios::sync_with_stdio(false);
    std::string line;
    std::string outbuf;
    while (std::getline(std::cin, line)) {
        if (line.empty()) continue;
        size_t sp = line.find(' ');
        std::string fmt = sp == std::string::npos ? line : line.substr(0, sp);
        std::string bytes = sp == std::string::npos ? std::string() : vf::unhex(line.substr(sp + 1));
        std::vector<uint8_t> in(bytes.begin(), bytes.end());
        std::string r = one(fmt, in);
        r.push_back('\n');
        // one write per case: an answer is either completely there or not at all
        size_t off = 0;
        while (off < r.size()) {
            ssize_t n = write(1, r.data() + off, r.size() - off);
            if (n <= 0) return 3;
            off += size_t(n);
        }
    }
    return 0;
}
