// C08 (A) — encoders emit only well-formed output: explicit-state search over visitor event sequences.
//
// A state is (encoder configuration, event prefix).  The search is stateless in the model-checking sense: the
// encoders cannot be copied, so every explored sequence is re-executed from the initial state (a fresh encoder).
// The explorer walks, depth first, the tree of all grammatically well-formed event prefixes over an alphabet
// (pushdown discipline: balanced containers, keys alternate with values, one root value); every complete sequence
// of at most L events is pushed into every encoder configuration.  Outcome per (configuration, sequence):
//   * the encoder reported an error (error_code through the ec overloads, ser_error / json_exception through the
//     throwing overloads, flush() and destructor included)                                   -> acceptable, counted
//   * JSON text: judged here by the strict RFC 8259 reference parser (engine/rfc8259_ref.hpp) and compared with the
//     model value built from the pushed events under the documented mappings               -> V line on failure
//   * CBOR / MessagePack / UBJSON / BSON bytes: handed to the Python driver ("B" lines: configuration, sequence,
//     output bytes, model value of the pushed data), which judges them with the reference decoders of lib/ref_*.py.
//
//   c08_seq stage=<struct|mid|zoo|long> L=<n> [cfgs=all] <slice> <nslices>
//   c08_seq replay <sig>          sig = A|<cfg>|<stage>|<sym,sym,...>|<class>
#include "mv.hpp"
#include "rfc8259_ref.hpp"
#include <jsoncons/json.hpp>
#include <jsoncons_ext/cbor/cbor.hpp>
#include <jsoncons_ext/msgpack/msgpack.hpp>
#include <jsoncons_ext/ubjson/ubjson.hpp>
#include <jsoncons_ext/bson/bson.hpp>
#include <jsoncons_ext/csv/csv.hpp>
#include <sstream>
#include <cmath>
#include <cfloat>
#include <unordered_set>

using namespace vf;
using jsoncons::semantic_tag;
typedef std::vector<uint8_t> Bytes;

// ------------------------------------------------------------------------------------------------------------
// alphabet

enum EK { E_BA, E_BAN, E_EA, E_BO, E_BON, E_EO, E_KEY, E_MD, E_EMD, E_NULL, E_BOOL, E_I64, E_U64, E_DBL, E_HALF, E_STR, E_BYTES, E_BYTESX, E_TA };
enum TT { T_U8, T_U16, T_U32, T_U64, T_I8, T_I16, T_I32, T_I64, T_HALF, T_F32, T_F64 };

struct Sym {
    std::string name;
    EK k = E_NULL;
    int tag = 0;
    size_t n = 0;                 // declared length
    bool b = false;
    int64_t i = 0;
    uint64_t u = 0;               // uint64 value, double bits, half bits, ext tag
    std::string s;                // string / key / bytes
    TT tt = T_U8;
    std::vector<uint64_t> elems;  // typed array: element bit patterns (sign-extended for signed types)
    std::vector<uint64_t> store;  // typed array: packed, 8-byte aligned storage handed to the encoder
    std::vector<size_t> shape;
    bool ill = false;             // tag/content pair that is ill-typed by construction (abstained)
    bool scalar() const { return k >= E_NULL; }
};

static std::vector<Sym> SYMS;
static std::map<std::string, int> SYM_BY_NAME;

static int add(Sym s) {
    if (SYM_BY_NAME.count(s.name)) return SYM_BY_NAME[s.name];
    for (char c : s.name) if (c == ',' || c == '|' || c == '\t' || c == ' ') { fprintf(stderr, "bad symbol name %s\n", s.name.c_str()); exit(3); }
    SYMS.push_back(s); SYM_BY_NAME[s.name] = int(SYMS.size()) - 1; return int(SYMS.size()) - 1;
}
static const char* TAGNAME[22] = {"none", "noesc", "bigint", "bigdec", "datetime", "epoch_second", "epoch_milli", "epoch_nano", "base16", "base64", "bigfloat",
                                  "float128", "base64url", "undefined", "uri", "mdrow", "mdcol", "clamped", "ext", "id", "regex", "code"};
static std::string tagsfx(int tag) { return tag ? std::string("#") + TAGNAME[tag] : std::string(); }

static int sBA() { Sym s; s.name = "BA"; s.k = E_BA; return add(s); }
static int sBAN(size_t n) { Sym s; s.name = "BA" + std::to_string(n); s.k = E_BAN; s.n = n; return add(s); }
static int sEA() { Sym s; s.name = "EA"; s.k = E_EA; return add(s); }
static int sBO() { Sym s; s.name = "BO"; s.k = E_BO; return add(s); }
static int sBON(size_t n) { Sym s; s.name = "BO" + std::to_string(n); s.k = E_BON; s.n = n; return add(s); }
static int sEO() { Sym s; s.name = "EO"; s.k = E_EO; return add(s); }
static int sKEY(const std::string& name, const std::string& k, bool ill = false) { Sym s; s.name = "k" + name; s.k = E_KEY; s.s = k; s.ill = ill; return add(s); }
static int sMD(const std::string& name, std::vector<size_t> shape, semantic_tag t) { Sym s; s.name = name; s.k = E_MD; s.shape = shape; s.tag = int(t); return add(s); }
static int sEMD() { Sym s; s.name = "EMD"; s.k = E_EMD; return add(s); }
static int sNULL(int tag = 0) { Sym s; s.name = "n" + tagsfx(tag); s.k = E_NULL; s.tag = tag; return add(s); }
static int sBOOL(bool b) { Sym s; s.name = b ? "t" : "f"; s.k = E_BOOL; s.b = b; return add(s); }
static int sI(int64_t v, int tag = 0) { Sym s; s.name = "i" + std::to_string(v) + tagsfx(tag); s.k = E_I64; s.i = v; s.tag = tag; return add(s); }
static int sU(uint64_t v, int tag = 0) { Sym s; s.name = "u" + std::to_string(v) + tagsfx(tag); s.k = E_U64; s.u = v; s.tag = tag; return add(s); }
static int sDbits(uint64_t bits, int tag = 0) { Sym s; char b[32]; snprintf(b, sizeof b, "d%016llx", (unsigned long long)bits); s.name = b + tagsfx(tag); s.k = E_DBL; s.u = bits; s.tag = tag; return add(s); }
static int sD(double d, int tag = 0) { uint64_t u; memcpy(&u, &d, 8); return sDbits(u, tag); }
static int sH(uint16_t h, int tag = 0) { Sym s; char b[16]; snprintf(b, sizeof b, "h%04x", h); s.name = b + tagsfx(tag); s.k = E_HALF; s.u = h; s.tag = tag; return add(s); }
static int sS(const std::string& label, const std::string& v, int tag = 0, bool ill = false) { Sym s; s.name = "s" + label + tagsfx(tag); s.k = E_STR; s.s = v; s.tag = tag; s.ill = ill; return add(s); }
static int sB(const std::string& label, const std::string& v, int tag = 0) { Sym s; s.name = "b" + label + tagsfx(tag); s.k = E_BYTES; s.s = v; s.tag = tag; return add(s); }
static int sBX(const std::string& label, const std::string& v, uint64_t ext) { Sym s; s.name = "b" + label + "x" + std::to_string(ext); s.k = E_BYTESX; s.s = v; s.u = ext; return add(s); }
static int sTA(const std::string& label, TT tt, std::vector<uint64_t> elems, int tag = 0) {
    static const int W[] = {1, 2, 4, 8, 1, 2, 4, 8, 2, 4, 8};
    Sym s; s.name = "ta" + label + tagsfx(tag); s.k = E_TA; s.tt = tt; s.elems = elems; s.tag = tag;
    s.store.assign((elems.size() * W[tt] + 7) / 8 + 1, 0);
    unsigned char* p = (unsigned char*)s.store.data();
    for (size_t i = 0; i < elems.size(); ++i) memcpy(p + i * W[tt], &elems[i], W[tt]);   // little endian host
    return add(s);
}

static std::string text_of(size_t n) { std::string s; for (size_t i = 0; i < n; ++i) s.push_back(char('a' + i % 26)); return s; }
static std::string bytes_of(size_t n) { std::string s; for (size_t i = 0; i < n; ++i) s.push_back(char((i * 37 + 1) & 0xff)); return s; }
static uint64_t dbits(double d) { uint64_t u; memcpy(&u, &d, 8); return u; }
static uint64_t fbits(float f) { uint32_t u; memcpy(&u, &f, 4); return u; }

struct Alphabet { std::vector<int> open, keys, scalars; int ea = -1, eo = -1, emd = -1; };   // open: BA*, BO*, MD*

static Alphabet alphabet(const std::string& stage) {
    Alphabet A;
    const int BIGINT = 2, BIGDEC = 3, DATETIME = 4, ESEC = 5, EMIL = 6, ENAN = 7, B16 = 8, B64 = 9, BIGFLOAT = 10, B64U = 12, UNDEF = 13, URI = 14, CLAMPED = 17;
    A.ea = sEA(); A.eo = sEO(); A.emd = sEMD();
    const std::string ESC = std::string("q\"\\/\b\f\n\r\t\x01\x7f") + "\xc3\xa9\xe2\x80\xa8\xf0\x90\x8d\x88";   // quote, backslash, solidus, controls, DEL, e-acute, U+2028, U+10348
    if (stage == "struct") {
        A.open = {sBA(), sBAN(0), sBAN(1), sBAN(2), sBAN(3), sBO(), sBON(0), sBON(1), sBON(2), sMD("MDr", {1, 2}, semantic_tag::multi_dim_row_major)};
        A.keys = {sKEY("a", "a"), sKEY("e", "")};
        A.scalars = {sNULL(), sU(1), sS("abc", "abc"), sD(NAN)};
    } else if (stage == "mid") {
        A.open = {sBA(), sBAN(2), sBAN(3), sBO(), sBON(1), sBON(2), sMD("MDc", {2}, semantic_tag::multi_dim_column_major)};
        A.keys = {sKEY("a", "a"), sKEY("abc", "abc"), sKEY("esc", ESC)};
        A.scalars = {sNULL(), sBOOL(true), sI(-1), sU(1), sU(UINT64_MAX), sI(1, ESEC), sI(-1500, EMIL), sU(4294967296ULL),
                     sD(1.5), sD(NAN), sD(-INFINITY), sD(0.1), sH(0x3c00),
                     sS("0", ""), sS("a", "a"), sS("abc", "abc"), sS("esc", ESC), sS("24", text_of(24)),
                     sS("1", "1", ESEC), sS("2p64", "18446744073709551616", BIGINT), sS("1.5", "1.5", BIGDEC), sS("0x3p-1", "0x3p-1", BIGFLOAT),
                     sS("dt", "2013-03-21T20:04:00Z", DATETIME),
                     sB("3", bytes_of(3)), sB("1", bytes_of(1), B16), sBX("2", bytes_of(2), 7),
                     sTA("u8", T_U8, {1, 255}), sTA("f32", T_F32, {fbits(1.5f), fbits(-0.0f)}), sTA("i16e", T_I16, {})};
    } else if (stage == "zoo") {
        A.open = {sBA(), sBAN(1), sBAN(2), sBO(), sBON(1)};
        A.keys = {sKEY("a", "a"), sKEY("e", ""), sKEY("abc", "abc"), sKEY("esc", ESC), sKEY("nul", std::string("a\0b", 3)), sKEY("bad", "\xff", true)};
        auto& Z = A.scalars;
        Z = {sNULL(), sNULL(UNDEF), sBOOL(true), sBOOL(false)};
        for (int64_t v : {int64_t(0), int64_t(-1), int64_t(-24), int64_t(-25), int64_t(-32), int64_t(-33), int64_t(-128), int64_t(-129), int64_t(-32768), int64_t(-32769),
                          int64_t(-2147483648LL), int64_t(-2147483649LL), INT64_MIN, int64_t(127), int64_t(2147483647LL), int64_t(2147483648LL), INT64_MAX}) Z.push_back(sI(v));
        for (uint64_t v : {uint64_t(0), uint64_t(1), uint64_t(23), uint64_t(24), uint64_t(127), uint64_t(128), uint64_t(255), uint64_t(256), uint64_t(32767), uint64_t(32768), uint64_t(65535), uint64_t(65536),
                           uint64_t(2147483647ULL), uint64_t(2147483648ULL), uint64_t(4294967295ULL), uint64_t(4294967296ULL), uint64_t(INT64_MAX), uint64_t(INT64_MAX) + 1, UINT64_MAX}) Z.push_back(sU(v));
        // time-tagged integers
        for (int t : {ESEC, EMIL, ENAN}) { Z.push_back(sI(1, t)); Z.push_back(sI(-1, t)); Z.push_back(sI(-1500, t)); Z.push_back(sI(1500000001LL, t)); Z.push_back(sU(1600000000ULL, t)); Z.push_back(sU(UINT64_MAX, t)); }
        Z.push_back(sU(9223372036854776ULL, ESEC)); Z.push_back(sI(INT64_MIN, ESEC)); Z.push_back(sI(17179869184LL, ESEC)); Z.push_back(sI(4294967296LL, ESEC));
        for (double d : {1.5, 0.0, -0.0, double(NAN), double(INFINITY), -double(INFINITY), 0.1, 1e300, 5e-324, DBL_MAX, double(FLT_MAX), 1e21, 1e-7, 123456789.125, 65504.0, 9007199254740993.0}) Z.push_back(sD(d));
        Z.push_back(sDbits(0x7ff8000000000001ULL)); Z.push_back(sDbits(0xfff0000000000001ULL));
        Z.push_back(sD(1.5, ESEC)); Z.push_back(sD(1500.5, EMIL)); Z.push_back(sD(-0.5, ESEC)); Z.push_back(sD(1.5, ENAN));
        for (uint16_t h : {uint16_t(0x3c00), uint16_t(0x7e00), uint16_t(0x7c00), uint16_t(0xfc00), uint16_t(0x8000), uint16_t(0x0001), uint16_t(0x7bff), uint16_t(0x3555)}) Z.push_back(sH(h));
        // strings: length classes of the head encodings, UTF-8 widths, escape classes
        for (size_t n : {size_t(0), size_t(1), size_t(2), size_t(3), size_t(23), size_t(24), size_t(31), size_t(32)}) Z.push_back(sS(std::to_string(n), text_of(n)));
        Z.push_back(sS("u2", "\xc3\xa9")); Z.push_back(sS("u3", "\xe2\x82\xac")); Z.push_back(sS("u4", "\xf0\x90\x8d\x88")); Z.push_back(sS("esc", ESC));
        Z.push_back(sS("nul", std::string("a\0b", 3))); Z.push_back(sS("sol", "a/b")); Z.push_back(sS("bad", "\xff", 0, true)); Z.push_back(sS("trunc", "a\xc3", 0, true));
        // the string "1" under every semantic tag (ill-typed where "1" is not what the tag announces)
        for (int t = 1; t < 22; ++t) Z.push_back(sS("1", "1", t, t == BIGFLOAT || t == 19 || t == 20));
        for (const char* v : {"0", "-1", "123", "18446744073709551615", "18446744073709551616", "-18446744073709551617", "123456789012345678901234567890"}) Z.push_back(sS(v, v, BIGINT));
        for (const char* v : {"1.5", "-0.25e-3", "1E+2", "273.15", "0.1e400", "18446744073709551616.5", "1e-400", "15", "-0.0", "1.5e18446744073709551616"}) Z.push_back(sS(v, v, BIGDEC));
        for (const char* v : {"0x3p-1", "-0x1p3", "0x10000000000000000p1", "0x0p0", "-0xffp-a"}) Z.push_back(sS(v, v, BIGFLOAT));
        Z.push_back(sS("abc", "abc", BIGINT, true)); Z.push_back(sS("1e", "1e", BIGDEC, true)); Z.push_back(sS("q", "\"", 1, true));
        Z.push_back(sS("dt", "2013-03-21T20:04:00Z", DATETIME)); Z.push_back(sS("dt0", "", DATETIME)); Z.push_back(sS("uri", "http://a.b/?q=1", URI));
        Z.push_back(sS("YQ", "YQ", B64U)); Z.push_back(sS("YQ==", "YQ==", B64)); Z.push_back(sS("6161", "6161", B16));
        Z.push_back(sS("-1500", "-1500", EMIL)); Z.push_back(sS("1500000001", "1500000001", ENAN)); Z.push_back(sS("-1", "-1", ESEC)); Z.push_back(sS("-1500000001", "-1500000001", ENAN));
        Z.push_back(sS("x", "x", ESEC, true));
        Z.push_back(sS("oid", "0102030405060708090a0b0c", 19)); Z.push_back(sS("re", "/a.b/i", 20)); Z.push_back(sS("code", "f()", 21)); Z.push_back(sS("d128", "1.5", 11));
        // byte strings: base64 padding classes, msgpack fixext sizes, head boundaries
        for (size_t n : {size_t(0), size_t(1), size_t(2), size_t(3), size_t(4), size_t(8), size_t(16), size_t(23), size_t(24)}) Z.push_back(sB(std::to_string(n), bytes_of(n)));
        for (int t : {B16, B64, B64U}) { Z.push_back(sB("0", "", t)); Z.push_back(sB("1", bytes_of(1), t)); Z.push_back(sB("2", bytes_of(2), t)); Z.push_back(sB("3", "\xfb\xff\xfe", t)); }
        Z.push_back(sB("2", bytes_of(2), BIGINT)); Z.push_back(sB("2", bytes_of(2), UNDEF));
        for (uint64_t x : {uint64_t(0), uint64_t(7), uint64_t(127), uint64_t(128), uint64_t(255), uint64_t(257), uint64_t(1000), uint64_t(4294967296ULL)}) { Z.push_back(sBX("2", bytes_of(2), x)); Z.push_back(sBX("4", bytes_of(4), x)); }
        for (size_t n : {size_t(0), size_t(1), size_t(3), size_t(8), size_t(16), size_t(17)}) Z.push_back(sBX(std::to_string(n), bytes_of(n), 99));
        // typed arrays: every element type, empty and with boundary elements
        Z.push_back(sTA("u8", T_U8, {0, 255})); Z.push_back(sTA("u8", T_U8, {0, 255}, CLAMPED)); Z.push_back(sTA("u8e", T_U8, {}));
        Z.push_back(sTA("u16", T_U16, {1, 65535})); Z.push_back(sTA("u32", T_U32, {1, 4294967295ULL})); Z.push_back(sTA("u64", T_U64, {1, UINT64_MAX}));
        Z.push_back(sTA("i8", T_I8, {uint64_t(-1), uint64_t(-128), 127})); Z.push_back(sTA("i16", T_I16, {uint64_t(-1), uint64_t(-32768)})); Z.push_back(sTA("i32", T_I32, {uint64_t(-1), uint64_t(-2147483648LL)}));
        Z.push_back(sTA("i64", T_I64, {uint64_t(-1), uint64_t(INT64_MIN)})); Z.push_back(sTA("i64e", T_I64, {}));
        Z.push_back(sTA("h", T_HALF, {0x3c00, 0x7e00, 0x8000})); Z.push_back(sTA("f32", T_F32, {fbits(1.5f), fbits(NAN), fbits(-0.0f), fbits(FLT_MAX)})); Z.push_back(sTA("f64", T_F64, {dbits(0.1), dbits(-0.0), dbits(INFINITY)}));
        Z.push_back(sTA("f64e", T_F64, {}));
    } else if (stage == "long") {
        A.open = {sBA(), sBAN(1), sBO(), sBON(1)};
        A.keys = {sKEY("a", "a"), sKEY("255", text_of(255)), sKEY("256", text_of(256)), sKEY("65536", text_of(65536))};
        for (size_t n : {size_t(255), size_t(256), size_t(65535), size_t(65536)}) {
            A.scalars.push_back(sS(std::to_string(n), text_of(n)));
            A.scalars.push_back(sS(std::to_string(n) + "u", text_of(n - 2) + "\xc3\xa9"));
            A.scalars.push_back(sB(std::to_string(n), bytes_of(n)));
            A.scalars.push_back(sBX(std::to_string(n), bytes_of(n), 7));
            std::vector<uint64_t> el; for (size_t i = 0; i < n; ++i) el.push_back(i & 0xff);
            A.scalars.push_back(sTA("u8_" + std::to_string(n), T_U8, el));
        }
        A.scalars.push_back(sS("big300", std::string("1") + std::string(299, '0'), BIGINT));
        A.scalars.push_back(sS("dec300", std::string("1.") + std::string(299, '5'), BIGDEC));
        A.scalars.push_back(sNULL());
    }
    return A;
}

// ------------------------------------------------------------------------------------------------------------
// model of the pushed data (built from the alphabet, never from jsoncons)

static uint64_t half_to_double_bits(uint16_t h) {
    uint64_t s = (h >> 15) & 1, e = (h >> 10) & 0x1f, m = h & 0x3ff;
    if (e == 0) {
        if (m == 0) return s << 63;
        int sh = 0;
        while (!(m & 0x400)) { m <<= 1; ++sh; }
        m &= 0x3ff;
        return (s << 63) | (uint64_t(1023 - 15 - sh + 1) << 52) | (m << 42);
    }
    if (e == 0x1f) return (s << 63) | (uint64_t(0x7ff) << 52) | (m << 42);
    return (s << 63) | ((e - 15 + 1023) << 52) | (m << 42);
}
static uint64_t float_to_double_bits(uint32_t w) {
    uint64_t s = (w >> 31) & 1, e = (w >> 23) & 0xff, m = w & 0x7fffff;
    if (e == 0) {
        if (m == 0) return s << 63;
        int sh = 0;
        while (!(m & 0x800000)) { m <<= 1; ++sh; }
        m &= 0x7fffff;
        return (s << 63) | (uint64_t(1023 - 127 - sh + 1) << 52) | (m << 29);
    }
    if (e == 0xff) return (s << 63) | (uint64_t(0x7ff) << 52) | (m << 29);
    return (s << 63) | ((e - 127 + 1023) << 52) | (m << 29);
}

static MV scalar_mv(const Sym& y) {
    MV m;
    switch (y.k) {
        case E_NULL: m = MV::null(); break;
        case E_BOOL: m = MV::boolean(y.b); break;
        case E_I64: m = MV::int64(y.i); break;
        case E_U64: m = MV::uint64(y.u); break;
        case E_DBL: m = MV::dblbits(y.u); break;
        case E_HALF: m = MV::half(uint16_t(y.u)); break;
        case E_STR: m = MV::str(y.s); break;
        case E_BYTES: m = MV::bytes(y.s); break;
        case E_BYTESX: m = MV::bytes(y.s); m.has_ext = true; m.u = y.u; m.tag = int(semantic_tag::ext); return m;
        case E_TA: {
            m = MV::arr();
            for (uint64_t e : y.elems) {
                switch (y.tt) {
                    case T_U8: case T_U16: case T_U32: case T_U64: m.a.push_back(MV::uint64(e)); break;
                    case T_I8: case T_I16: case T_I32: case T_I64: m.a.push_back(MV::int64(int64_t(e))); break;
                    case T_HALF: m.a.push_back(MV::half(uint16_t(e))); break;
                    case T_F32: m.a.push_back(MV::dblbits(float_to_double_bits(uint32_t(e)))); break;
                    case T_F64: m.a.push_back(MV::dblbits(e)); break;
                }
            }
            break;
        }
        default: break;
    }
    m.tag = y.tag;
    return m;
}

// Model-value text for the Python side.  Same syntax as vf::mv_text, but a '"' inside a string is written \x22:
// vf::show() leaves it bare, which lib/mvtext.py cannot parse back.
static std::string qshow(const std::string& s) {
    std::string o;
    for (unsigned char c : s) {
        if (c == '\\') o += "\\\\";
        else if (c >= 0x20 && c < 0x7f && c != '"') o.push_back(char(c));
        else { char b[8]; snprintf(b, sizeof b, "\\x%02x", c); o += b; }
    }
    return o;
}
static void mvt(const MV& m, std::string& o) {
    char buf[40];
    switch (m.k) {
        case MV::Str: o += "\""; o += qshow(m.s); o += "\""; break;
        case MV::Arr: o += "["; for (size_t i = 0; i < m.a.size(); ++i) { if (i) o += ","; mvt(m.a[i], o); } o += "]"; break;
        case MV::Obj: o += "{"; for (size_t i = 0; i < m.o.size(); ++i) { if (i) o += ","; o += "\""; o += qshow(m.o[i].first); o += "\":"; mvt(m.o[i].second, o); } o += "}"; break;
        default: { MV c = m; c.tag = 0; mv_text(c, o); break; }
    }
    if (m.tag) { snprintf(buf, sizeof buf, "#%d", m.tag); o += buf; }
}
static std::string mvt(const MV& m) { std::string o; mvt(m, o); return o; }

typedef std::vector<const Sym*> Seq;

struct Model { MV v; bool mismatch = false; bool ill = false; bool dup = false; };

static Model build_model(const Seq& q) {
    Model M;
    struct Fr { MV v; char kind; size_t declared; bool has_declared; std::string key; };
    std::vector<Fr> st;
    auto emit = [&](MV v) {
        if (st.empty()) { M.v = v; return; }
        Fr& f = st.back();
        if (f.kind == 'O') { for (auto& kv : f.v.o) if (kv.first == f.key) M.dup = true; f.v.o.emplace_back(f.key, v); }
        else f.v.a.push_back(v);
    };
    for (const Sym* y : q) {
        if (y->ill) M.ill = true;
        switch (y->k) {
            case E_BA: st.push_back({MV::arr(), 'A', 0, false, ""}); break;
            case E_BAN: st.push_back({MV::arr(), 'A', y->n, true, ""}); break;
            case E_BO: st.push_back({MV::obj(), 'O', 0, false, ""}); break;
            case E_BON: st.push_back({MV::obj(), 'O', y->n, true, ""}); break;
            case E_MD: {
                Fr f{MV::arr(), 'M', 2, true, ""};
                MV sh = MV::arr(); for (size_t d : y->shape) sh.a.push_back(MV::uint64(d));
                f.v.a.push_back(sh); f.v.tag = y->tag;
                st.push_back(f); break;
            }
            case E_EA: case E_EO: case E_EMD: {
                Fr f = st.back(); st.pop_back();
                size_t cnt = f.kind == 'O' ? f.v.o.size() : f.v.a.size();
                if (f.has_declared && cnt != f.declared) M.mismatch = true;
                emit(f.v); break;
            }
            case E_KEY: st.back().key = y->s; break;
            default: emit(scalar_mv(*y)); break;
        }
    }
    return M;
}

// ------------------------------------------------------------------------------------------------------------
// pushing events

static const jsoncons::ser_context CTX;

template <class Enc>
static void push_ec(Enc& e, const Sym& y, std::error_code& ec) {
    semantic_tag t = semantic_tag(y.tag);
    switch (y.k) {
        case E_BA: e.begin_array(t, CTX, ec); break;
        case E_BAN: e.begin_array(y.n, t, CTX, ec); break;
        case E_EA: e.end_array(CTX, ec); break;
        case E_BO: e.begin_object(t, CTX, ec); break;
        case E_BON: e.begin_object(y.n, t, CTX, ec); break;
        case E_EO: e.end_object(CTX, ec); break;
        case E_KEY: e.key(jsoncons::string_view(y.s.data(), y.s.size()), CTX, ec); break;
        case E_MD: e.begin_multi_dim(jsoncons::span<const size_t>(y.shape.data(), y.shape.size()), t, CTX, ec); break;
        case E_EMD: e.end_multi_dim(CTX, ec); break;
        case E_NULL: e.null_value(t, CTX, ec); break;
        case E_BOOL: e.bool_value(y.b, t, CTX, ec); break;
        case E_I64: e.int64_value(y.i, t, CTX, ec); break;
        case E_U64: e.uint64_value(y.u, t, CTX, ec); break;
        case E_DBL: { double d; memcpy(&d, &y.u, 8); e.double_value(d, t, CTX, ec); break; }
        case E_HALF: e.half_value(uint16_t(y.u), t, CTX, ec); break;
        case E_STR: e.string_value(jsoncons::string_view(y.s.data(), y.s.size()), t, CTX, ec); break;
        case E_BYTES: e.byte_string_value(jsoncons::byte_string_view((const uint8_t*)y.s.data(), y.s.size()), t, CTX, ec); break;
        case E_BYTESX: e.byte_string_value(jsoncons::byte_string_view((const uint8_t*)y.s.data(), y.s.size()), y.u, CTX, ec); break;
        case E_TA: {
            const void* p = y.store.data(); size_t n = y.elems.size();
            switch (y.tt) {
                case T_U8: e.typed_array(jsoncons::span<const uint8_t>((const uint8_t*)p, n), t, CTX, ec); break;
                case T_U16: e.typed_array(jsoncons::span<const uint16_t>((const uint16_t*)p, n), t, CTX, ec); break;
                case T_U32: e.typed_array(jsoncons::span<const uint32_t>((const uint32_t*)p, n), t, CTX, ec); break;
                case T_U64: e.typed_array(jsoncons::span<const uint64_t>((const uint64_t*)p, n), t, CTX, ec); break;
                case T_I8: e.typed_array(jsoncons::span<const int8_t>((const int8_t*)p, n), t, CTX, ec); break;
                case T_I16: e.typed_array(jsoncons::span<const int16_t>((const int16_t*)p, n), t, CTX, ec); break;
                case T_I32: e.typed_array(jsoncons::span<const int32_t>((const int32_t*)p, n), t, CTX, ec); break;
                case T_I64: e.typed_array(jsoncons::span<const int64_t>((const int64_t*)p, n), t, CTX, ec); break;
                case T_HALF: e.typed_array(jsoncons::half_arg, jsoncons::span<const uint16_t>((const uint16_t*)p, n), t, CTX, ec); break;
                case T_F32: e.typed_array(jsoncons::span<const float>((const float*)p, n), t, CTX, ec); break;
                case T_F64: e.typed_array(jsoncons::span<const double>((const double*)p, n), t, CTX, ec); break;
            }
            break;
        }
    }
}

template <class Enc>
static void push_throwing(Enc& e, const Sym& y) {
    semantic_tag t = semantic_tag(y.tag);
    switch (y.k) {
        case E_BA: e.begin_array(t); break;
        case E_BAN: e.begin_array(y.n, t); break;
        case E_EA: e.end_array(); break;
        case E_BO: e.begin_object(t); break;
        case E_BON: e.begin_object(y.n, t); break;
        case E_EO: e.end_object(); break;
        case E_KEY: e.key(jsoncons::string_view(y.s.data(), y.s.size())); break;
        case E_MD: e.begin_multi_dim(jsoncons::span<const size_t>(y.shape.data(), y.shape.size()), t); break;
        case E_EMD: e.end_multi_dim(); break;
        case E_NULL: e.null_value(t); break;
        case E_BOOL: e.bool_value(y.b, t); break;
        case E_I64: e.int64_value(y.i, t); break;
        case E_U64: e.uint64_value(y.u, t); break;
        case E_DBL: { double d; memcpy(&d, &y.u, 8); e.double_value(d, t); break; }
        case E_HALF: e.half_value(uint16_t(y.u), t); break;
        case E_STR: e.string_value(jsoncons::string_view(y.s.data(), y.s.size()), t); break;
        case E_BYTES: e.byte_string_value(jsoncons::byte_string_view((const uint8_t*)y.s.data(), y.s.size()), t); break;
        case E_BYTESX: e.byte_string_value(jsoncons::byte_string_view((const uint8_t*)y.s.data(), y.s.size()), y.u); break;
        case E_TA: { std::error_code ec; push_ec(e, y, ec); if (ec) throw jsoncons::ser_error(ec); break; }
    }
}

struct Run {
    bool error = false;        // the encoder reported an error
    bool foreign = false;      // ... by something that is neither an error code nor a json_exception
    std::string msg;
    int pushed = 0;            // events accepted
    std::string out;
};

static long long g_transitions = 0;

template <class Enc, class Buf, class Opts>
static Run run_enc(const Seq& q, const Opts& o, bool throwing, Buf& buf) {
    Run r;
    try {
        Enc enc(buf, o);
        for (const Sym* y : q) {
            ++g_transitions;
            if (throwing) push_throwing(enc, *y);
            else { std::error_code ec; push_ec(enc, *y, ec); if (ec) { r.error = true; r.msg = ec.message(); break; } }
            ++r.pushed;
        }
        if (!r.error) enc.flush();
    } catch (const jsoncons::ser_error& e) { r.error = true; r.msg = e.code().message(); }
    catch (const jsoncons::json_exception& e) { r.error = true; r.msg = std::string("json_exception: ") + e.what(); }
    catch (const std::exception& e) { r.error = true; r.foreign = true; r.msg = std::string("foreign exception: ") + e.what(); }
    return r;
}

// ------------------------------------------------------------------------------------------------------------
// configurations

struct JCfg {
    std::string name; bool pretty = false; jsoncons::json_options o;
    int bsfmt = 0;            // 0 none (tag hint, else base64url), 1 base16, 2 base64, 3 base64url
    int bnfmt = 0;            // 0 raw, 1 base10, 2 base64, 3 base64url
    int nanmode = 0;          // 0 null, 1 number text, 2 string
    std::string nan_s, inf_s, neginf_s;
    bool float_default = true;
    bool py = false;          // also hand the text to Python's json module (second judge of the reference parser)
};
static std::vector<JCfg> JCFGS;

static void make_cfgs() {
    using namespace jsoncons;
    auto val = [](JCfg& c, int k) {
        switch (k) {
            case 1: c.o.nan_to_num("0").inf_to_num("1e9999"); c.nanmode = 1; c.nan_s = "0"; c.inf_s = "1e9999"; c.neginf_s = "-1e9999"; break;
            case 2: c.o.nan_to_str("NaN").inf_to_str("Inf/\""); c.nanmode = 2; c.nan_s = "NaN"; c.inf_s = "Inf/\""; c.neginf_s = "-Inf/\""; break;
            case 3: c.o.nan_to_num("1").nan_to_str("N").inf_to_num("2").inf_to_str("I").neginf_to_num("3").neginf_to_str("M"); c.nanmode = 2; c.nan_s = "N"; c.inf_s = "I"; c.neginf_s = "M"; break;
            case 4: c.o.byte_string_format(byte_string_chars_format::base16).bignum_format(bignum_format_kind::base10).escape_all_non_ascii(true).escape_solidus(true); c.bsfmt = 1; c.bnfmt = 1; break;
            case 5: c.o.byte_string_format(byte_string_chars_format::base64).bignum_format(bignum_format_kind::base64); c.bsfmt = 2; c.bnfmt = 2; break;
            case 6: c.o.byte_string_format(byte_string_chars_format::base64url).bignum_format(bignum_format_kind::base64url).float_format(float_chars_format::fixed).precision(3); c.bsfmt = 3; c.bnfmt = 3; c.float_default = false; break;
            case 7: c.o.nan_to_str("N").nan_to_num("1").inf_to_str("I").inf_to_num("2"); c.nanmode = 1; c.nan_s = "1"; c.inf_s = "2"; c.neginf_s = "-2"; break;
            default: break;
        }
    };
    for (int k = 0; k <= 7; ++k) { JCfg c; c.name = "jc" + std::to_string(k); val(c, k); c.py = k == 0; JCFGS.push_back(c); }
    { JCfg c; c.name = "jp0"; c.pretty = true; c.py = true; JCFGS.push_back(c); }
    { JCfg c; c.name = "jp1"; c.pretty = true; val(c, 1);
      c.o.line_length_limit(8).indent_size(1).spaces_around_comma(spaces_option::space_before).spaces_around_colon(spaces_option::space_before_and_after).pad_inside_object_braces(true).pad_inside_array_brackets(true);
      JCFGS.push_back(c); }
    { JCfg c; c.name = "jp2"; c.pretty = true; val(c, 2);
      c.o.root_line_splits(line_split_kind::multi_line).object_object_line_splits(line_split_kind::multi_line).array_object_line_splits(line_split_kind::multi_line)
         .object_array_line_splits(line_split_kind::multi_line).array_array_line_splits(line_split_kind::multi_line).new_line_chars("\r\n").indent_char('\t').indent_size(2).spaces_around_comma(spaces_option::space_before_and_after);
      JCFGS.push_back(c); }
    { JCfg c; c.name = "jp3"; c.pretty = true; val(c, 4);
      c.o.root_line_splits(line_split_kind::same_line).object_object_line_splits(line_split_kind::same_line).array_object_line_splits(line_split_kind::same_line)
         .object_array_line_splits(line_split_kind::same_line).array_array_line_splits(line_split_kind::same_line).line_length_limit(4).spaces_around_comma(spaces_option::no_spaces).spaces_around_colon(spaces_option::no_spaces);
      JCFGS.push_back(c); }
    { JCfg c; c.name = "jp4"; c.pretty = true; val(c, 5);
      c.o.root_line_splits(line_split_kind::new_line).object_object_line_splits(line_split_kind::new_line).array_object_line_splits(line_split_kind::same_line)
         .object_array_line_splits(line_split_kind::new_line).array_array_line_splits(line_split_kind::new_line).line_length_limit(16).indent_size(0);
      JCFGS.push_back(c); }
    { JCfg c; c.name = "jp5"; c.pretty = true; val(c, 3);
      c.o.root_line_splits(line_split_kind::same_line).array_array_line_splits(line_split_kind::multi_line).object_array_line_splits(line_split_kind::same_line).line_length_limit(1).indent_size(3);
      JCFGS.push_back(c); }
}

static const char* BCFG[] = {"cbor", "cbor_ta", "cbor_pack", "msgpack", "ubjson", "bson", "cbor_packta"};
static const int NB = 7;

static Run run_binary(int b, const Seq& q, bool throwing, bool stream) {
    using namespace jsoncons;
    if (!stream) {
        Bytes buf; Run r;
        switch (b) {
            case 0: { cbor::cbor_options o; r = run_enc<cbor::cbor_bytes_encoder>(q, o, throwing, buf); break; }
            case 1: { cbor::cbor_options o; o.use_typed_arrays(true); r = run_enc<cbor::cbor_bytes_encoder>(q, o, throwing, buf); break; }
            case 2: { cbor::cbor_options o; o.pack_strings(true); r = run_enc<cbor::cbor_bytes_encoder>(q, o, throwing, buf); break; }
            case 3: { msgpack::msgpack_options o; r = run_enc<msgpack::msgpack_bytes_encoder>(q, o, throwing, buf); break; }
            case 4: { ubjson::ubjson_options o; r = run_enc<ubjson::ubjson_bytes_encoder>(q, o, throwing, buf); break; }
            case 6: { cbor::cbor_options o; o.pack_strings(true).use_typed_arrays(true); r = run_enc<cbor::cbor_bytes_encoder>(q, o, throwing, buf); break; }
            default: { bson::bson_options o; r = run_enc<bson::bson_bytes_encoder>(q, o, throwing, buf); break; }
        }
        r.out.assign(buf.begin(), buf.end());
        return r;
    }
    std::ostringstream os; Run r;
    switch (b) {
        case 0: { cbor::cbor_options o; r = run_enc<cbor::cbor_stream_encoder>(q, o, throwing, os); break; }
        case 1: { cbor::cbor_options o; o.use_typed_arrays(true); r = run_enc<cbor::cbor_stream_encoder>(q, o, throwing, os); break; }
        case 2: { cbor::cbor_options o; o.pack_strings(true); r = run_enc<cbor::cbor_stream_encoder>(q, o, throwing, os); break; }
        case 3: { msgpack::msgpack_options o; r = run_enc<msgpack::msgpack_stream_encoder>(q, o, throwing, os); break; }
        case 4: { ubjson::ubjson_options o; r = run_enc<ubjson::ubjson_stream_encoder>(q, o, throwing, os); break; }
        case 6: { cbor::cbor_options o; o.pack_strings(true).use_typed_arrays(true); r = run_enc<cbor::cbor_stream_encoder>(q, o, throwing, os); break; }
        default: { bson::bson_options o; r = run_enc<bson::bson_stream_encoder>(q, o, throwing, os); break; }
    }
    r.out = os.str();
    return r;
}

static Run run_json(const JCfg& c, const Seq& q, bool throwing, bool stream) {
    using namespace jsoncons;
    if (!stream) {
        std::string buf; Run r;
        if (c.pretty) r = run_enc<json_string_encoder>(q, c.o, throwing, buf); else r = run_enc<compact_json_string_encoder>(q, c.o, throwing, buf);
        r.out = buf; return r;
    }
    std::ostringstream os; Run r;
    if (c.pretty) r = run_enc<json_stream_encoder>(q, c.o, throwing, os); else r = run_enc<compact_json_stream_encoder>(q, c.o, throwing, os);
    r.out = os.str(); return r;
}

// ------------------------------------------------------------------------------------------------------------
// JSON oracle: expectation from the pushed data under the configuration's documented mappings

static std::string b16(const std::string& d) { static const char* X = "0123456789ABCDEF"; std::string o; for (unsigned char c : d) { o.push_back(X[c >> 4]); o.push_back(X[c & 15]); } return o; }
static std::string b64(const std::string& d, bool url) {
    const char* A = url ? "ABCDEFGHIJKLMNOPQRSTUVWXYZabcdefghijklmnopqrstuvwxyz0123456789-_" : "ABCDEFGHIJKLMNOPQRSTUVWXYZabcdefghijklmnopqrstuvwxyz0123456789+/";
    std::string o; size_t i = 0;
    for (; i + 2 < d.size(); i += 3) { uint32_t v = (uint8_t(d[i]) << 16) | (uint8_t(d[i + 1]) << 8) | uint8_t(d[i + 2]); o.push_back(A[v >> 18]); o.push_back(A[(v >> 12) & 63]); o.push_back(A[(v >> 6) & 63]); o.push_back(A[v & 63]); }
    size_t rem = d.size() - i;
    if (rem == 1) { uint32_t v = uint8_t(d[i]) << 16; o.push_back(A[v >> 18]); o.push_back(A[(v >> 12) & 63]); if (!url) o += "=="; }
    else if (rem == 2) { uint32_t v = (uint8_t(d[i]) << 16) | (uint8_t(d[i + 1]) << 8); o.push_back(A[v >> 18]); o.push_back(A[(v >> 12) & 63]); o.push_back(A[(v >> 6) & 63]); if (!url) o += "="; }
    return o;
}
// strict decoder: standard alphabet with '=' padding to a multiple of 4, or url alphabet without padding
static bool unb64(const std::string& t, bool url, std::string& out) {
    std::string body = t;
    if (!url) { if (t.size() % 4) return false; while (!body.empty() && body.back() == '=') body.pop_back(); if (t.size() - body.size() > 2) return false; }
    if (body.size() % 4 == 1) return false;
    uint32_t acc = 0; int bits = 0;
    for (char ch : body) {
        int v;
        if (ch >= 'A' && ch <= 'Z') v = ch - 'A'; else if (ch >= 'a' && ch <= 'z') v = ch - 'a' + 26; else if (ch >= '0' && ch <= '9') v = ch - '0' + 52;
        else if (ch == (url ? '-' : '+')) v = 62; else if (ch == (url ? '_' : '/')) v = 63; else return false;
        acc = (acc << 6) | uint32_t(v); bits += 6;
        if (bits >= 8) { bits -= 8; out.push_back(char((acc >> bits) & 0xff)); }
    }
    return true;
}
// big-endian magnitude bytes of a non-negative decimal integer text (schoolbook base conversion)
static std::string dec_to_bytes(std::string dec) {
    std::string out;
    size_t p = 0; while (p + 1 < dec.size() && dec[p] == '0') ++p; dec = dec.substr(p);
    while (!(dec.size() == 1 && dec[0] == '0')) {
        std::string q; int rem = 0;
        for (char c : dec) { int cur = rem * 10 + (c - '0'); int d = cur / 256; rem = cur % 256; if (!q.empty() || d) q.push_back(char('0' + d)); }
        out.insert(out.begin(), char(rem));
        dec = q.empty() ? "0" : q;
    }
    return out;
}
// n - 1 for a positive decimal integer text
static std::string dec_minus_one(std::string s) { int i = int(s.size()) - 1; while (i >= 0 && s[i] == '0') { s[i] = '9'; --i; } if (i >= 0) s[i]--; size_t p = 0; while (p + 1 < s.size() && s[p] == '0') ++p; return s.substr(p); }

static bool is_json_int(const std::string& s) { size_t i = 0; if (i < s.size() && s[i] == '-') ++i; if (i >= s.size()) return false; if (s[i] == '0') return i + 1 == s.size(); for (size_t k = i; k < s.size(); ++k) if (s[k] < '0' || s[k] > '9') return false; return s[i] >= '1'; }

struct JE {
    enum K { Null, Bool, Int, UInt, Dbl, AnyNum, NumText, Str, B16, BigB64, Arr, Obj } k = Null;
    bool b = false; int64_t i = 0; uint64_t u = 0; std::string s; std::vector<JE> a; std::vector<std::pair<std::string, JE>> o;
};

static JE je_str(const std::string& s) { JE e; e.k = JE::Str; e.s = s; return e; }
static JE je_num(const std::string& s) { JE e; e.k = JE::NumText; e.s = s; return e; }

static JE expect_json(const MV& m, const JCfg& c) {
    JE e;
    switch (m.k) {
        case MV::Null: return e;
        case MV::Bool: e.k = JE::Bool; e.b = m.b; return e;
        case MV::Int: e.k = JE::Int; e.i = m.i; return e;
        case MV::UInt: e.k = JE::UInt; e.u = m.u; return e;
        case MV::Half: case MV::Dbl: {
            uint64_t bits = m.k == MV::Half ? half_to_double_bits(uint16_t(m.u)) : m.u;
            double d; memcpy(&d, &bits, 8);
            if (d != d || std::isinf(d)) {
                const std::string& sub = d != d ? c.nan_s : (d > 0 ? c.inf_s : c.neginf_s);
                if (c.nanmode == 0) return e;
                if (c.nanmode == 1) return je_num(sub);
                return je_str(sub);
            }
            if (!c.float_default) { e.k = JE::AnyNum; return e; }
            e.k = JE::Dbl; e.u = bits; return e;
        }
        case MV::Str: {
            int t = m.tag;
            if (t == int(semantic_tag::bigint)) {
                switch (c.bnfmt) {
                    case 0: return je_num(m.s);
                    case 1: return je_str(m.s);
                    default: {
                        bool neg = !m.s.empty() && m.s[0] == '-';
                        std::string mag = neg ? m.s.substr(1) : m.s;
                        if (neg) mag = dec_minus_one(mag);       // ~ prefix: the bytes of -1 - n
                        // compared by value: base64(url) text of the big-endian magnitude, leading zero bytes allowed
                        JE b; b.k = JE::BigB64; b.s = dec_to_bytes(mag); b.b = neg; b.i = c.bnfmt == 3;
                        return b;
                    }
                }
            }
            if (t == int(semantic_tag::bigdec) && c.bnfmt == 0) return je_num(m.s);
            return je_str(m.s);
        }
        case MV::Bytes: {
            int f = c.bsfmt;
            if (f == 0) { if (m.tag == int(semantic_tag::base16)) f = 1; else if (m.tag == int(semantic_tag::base64)) f = 2; else f = 3; }
            if (f == 1) { e.k = JE::B16; e.s = b16(m.s); return e; }
            return je_str(b64(m.s, f == 3));
        }
        case MV::Arr: e.k = JE::Arr; for (auto& x : m.a) e.a.push_back(expect_json(x, c)); return e;
        case MV::Obj: e.k = JE::Obj; for (auto& kv : m.o) e.o.emplace_back(kv.first, expect_json(kv.second, c)); return e;
    }
    return e;
}

static bool num_literal(const MV& g, std::string& lit) {
    char b[32];
    if (g.k == MV::Int) { snprintf(b, sizeof b, "%lld", (long long)g.i); lit = b; return true; }
    if (g.k == MV::UInt) { snprintf(b, sizeof b, "%llu", (unsigned long long)g.u); lit = b; return true; }
    if (g.k == MV::Str && (g.tag == int(semantic_tag::bigint) || g.tag == int(semantic_tag::bigdec))) { lit = g.s; return true; }
    return false;
}

static bool je_match(const JE& e, const MV& g, std::string& why) {
    std::string lit;
    switch (e.k) {
        case JE::Null: if (g.k == MV::Null) return true; break;
        case JE::Bool: if (g.k == MV::Bool && g.b == e.b) return true; break;
        case JE::Int: if ((g.k == MV::Int && g.i == e.i) || (g.k == MV::UInt && e.i >= 0 && g.u == uint64_t(e.i))) return true; break;
        case JE::UInt: if ((g.k == MV::UInt && g.u == e.u) || (g.k == MV::Int && g.i >= 0 && uint64_t(g.i) == e.u)) return true; break;
        case JE::AnyNum: if (num_literal(g, lit)) return true; break;
        case JE::NumText:
            if (num_literal(g, lit) && lit == e.s) return true;
            if (g.k == MV::Int && g.i == 0 && e.s == "-0") return true;
            break;
        case JE::Dbl:
            if (num_literal(g, lit)) { double d = strtod(lit.c_str(), nullptr); uint64_t u; memcpy(&u, &d, 8); if (u == e.u) return true; }
            break;
        case JE::Str: if (g.k == MV::Str && g.tag == 0 && g.s == e.s) return true; break;
        case JE::B16: if (g.k == MV::Str && g.tag == 0 && g.s.size() == e.s.size()) { bool ok = true; for (size_t i = 0; i < g.s.size(); ++i) if (toupper((unsigned char)g.s[i]) != e.s[i]) ok = false; if (ok) return true; } break;
        case JE::BigB64: {
            if (g.k != MV::Str || g.tag != 0) break;
            std::string t = g.s;
            if (e.b) { if (t.empty() || t[0] != '~') break; t = t.substr(1); } else if (!t.empty() && t[0] == '~') break;
            std::string by;
            if (!unb64(t, e.i != 0, by)) break;
            size_t z = 0; while (z < by.size() && by[z] == 0) ++z;
            if (by.substr(z) == e.s) return true;
            break;
        }
        case JE::Arr:
            if (g.k != MV::Arr || g.a.size() != e.a.size()) break;
            for (size_t i = 0; i < e.a.size(); ++i) if (!je_match(e.a[i], g.a[i], why)) return false;
            return true;
        case JE::Obj:
            if (g.k != MV::Obj || g.o.size() != e.o.size()) break;
            for (size_t i = 0; i < e.o.size(); ++i) { if (g.o[i].first != e.o[i].first) { why = "member name " + show(g.o[i].first) + " where " + show(e.o[i].first) + " was pushed"; return false; } if (!je_match(e.o[i].second, g.o[i].second, why)) return false; }
            return true;
    }
    if (why.empty()) {
        static const char* KN[] = {"null", "bool", "int", "uint", "double", "a number", "the number", "the string", "base16 text", "base64 text of the big number", "array", "object"};
        why = std::string("expected ") + KN[e.k] + (e.k == JE::NumText || e.k == JE::Str || e.k == JE::B16 ? " " + show(e.s).substr(0, 80) : std::string()) + ", the text denotes " + mv_text(g).substr(0, 120);
    }
    return false;
}

// ------------------------------------------------------------------------------------------------------------
// CSV: the output must be readable by a strict RFC 4180 reading (written here from the RFC's ABNF; LF accepted next to
// CRLF as a line break) and, for the shapes the statement speaks of -- rows of plain fields -- denote the pushed rows.

static const char* CCFG[] = {"csv", "csvq"};
static const int NC = 2;

static Run run_csv(int c, const Seq& q, bool throwing, bool stream) {
    using namespace jsoncons;
    csv::csv_options o;
    if (c == 1) o.quote_style(csv::quote_style_kind::all).line_delimiter("\r\n");
    if (!stream) { std::string buf; Run r = run_enc<csv::csv_string_encoder>(q, o, throwing, buf); r.out = buf; return r; }
    std::ostringstream os; Run r = run_enc<csv::csv_stream_encoder>(q, o, throwing, os); r.out = os.str(); return r;
}

// file = record *(linebreak record) [linebreak];  field = DQUOTE *(textdata / COMMA / CR / LF / 2DQUOTE) DQUOTE / *textdata
static bool parse_rfc4180(const std::string& t, std::vector<std::vector<std::string>>& recs) {
    size_t p = 0, n = t.size();
    if (n == 0) return true;
    std::vector<std::string> rec;
    for (;;) {
        std::string f;
        if (p < n && t[p] == '"') {
            ++p;
            for (;;) {
                if (p >= n) return false;                       // unterminated quoted field
                if (t[p] == '"') { if (p + 1 < n && t[p + 1] == '"') { f.push_back('"'); p += 2; continue; } ++p; break; }
                f.push_back(t[p++]);
            }
            if (p < n && t[p] != ',' && t[p] != '\r' && t[p] != '\n') return false;   // text after the closing quote
        } else {
            while (p < n && t[p] != ',' && t[p] != '\r' && t[p] != '\n') { if (t[p] == '"') return false; f.push_back(t[p++]); }
        }
        rec.push_back(f);
        if (p < n && t[p] == ',') { ++p; continue; }
        recs.push_back(rec); rec.clear();
        if (p >= n) return true;
        if (t[p] == '\r') { ++p; if (p >= n || t[p] != '\n') return false; }
        ++p;
        if (p >= n) return true;                                // final line break
    }
}

static bool plain_field(const MV& m, std::string& text) {
    char b[32];
    switch (m.k) {
        case MV::Str: if (m.tag != 0) return false; text = m.s; return true;
        case MV::Int: if (m.tag != 0) return false; snprintf(b, sizeof b, "%lld", (long long)m.i); text = b; return true;
        case MV::UInt: if (m.tag != 0) return false; snprintf(b, sizeof b, "%llu", (unsigned long long)m.u); text = b; return true;
        case MV::Bool: text = m.b ? "true" : "false"; return true;
        default: return false;
    }
}
// A table in the sense of RFC 4180: an array of scalars / rows of scalars / objects of scalars, or an object of scalars /
// columns of scalars.  Anything nested deeper becomes a "multi-valued field" (subfield_delimiter, an extension with no
// RFC 4180 reading) and is not judged.
static bool is_scalar(const MV& m) { return m.k != MV::Arr && m.k != MV::Obj; }
static bool csv_table(const MV& v) {
    if (v.k == MV::Arr) {
        for (auto& e : v.a) {
            if (is_scalar(e)) continue;
            if (e.k == MV::Arr) { for (auto& f : e.a) if (!is_scalar(f)) return false; }
            else { for (auto& kv : e.o) if (!is_scalar(kv.second)) return false; }
        }
        return true;
    }
    if (v.k == MV::Obj) {
        for (auto& kv : v.o) {
            if (is_scalar(kv.second)) continue;
            if (kv.second.k != MV::Arr) return false;
            for (auto& f : kv.second.a) if (!is_scalar(f)) return false;
        }
        return true;
    }
    return true;
}
// rows the pushed value denotes, if it has one of the two plain shapes; false = shape not modelled
static bool csv_rows(const MV& v, std::vector<std::vector<std::string>>& rows) {
    if (v.k != MV::Arr || v.tag != 0 || v.a.empty()) return false;
    bool arrays = v.a[0].k == MV::Arr;
    if (arrays) {
        for (auto& r : v.a) {
            if (r.k != MV::Arr || r.tag != 0 || r.a.empty()) return false;
            std::vector<std::string> row;
            for (auto& f : r.a) { std::string t; if (!plain_field(f, t)) return false; row.push_back(t); }
            if (row.size() == 1 && row[0].empty()) return false;       // an empty line: ambiguous
            rows.push_back(row);
        }
        return true;
    }
    if (v.a[0].k != MV::Obj || v.a[0].o.empty()) return false;
    std::vector<std::string> header;
    for (auto& kv : v.a[0].o) { for (auto& h : header) if (h == kv.first) return false; header.push_back(kv.first); }
    if (header.size() == 1 && header[0].empty()) return false;
    rows.push_back(header);
    for (auto& r : v.a) {
        if (r.k != MV::Obj || r.o.size() != header.size()) return false;
        std::vector<std::string> row;
        for (size_t i = 0; i < header.size(); ++i) { if (r.o[i].first != header[i]) return false; std::string t; if (!plain_field(r.o[i].second, t)) return false; row.push_back(t); }
        if (row.size() == 1 && row[0].empty()) return false;
        rows.push_back(row);
    }
    return true;
}

// ------------------------------------------------------------------------------------------------------------
// exploration

static std::string g_stage;
static bool g_emit_b = true;
static std::unordered_set<uint64_t> g_seen;
static std::map<std::string, long long> g_classviol;
static uint64_t fnv(const std::string& s, uint64_t h = 1469598103934665603ULL) { for (unsigned char c : s) { h ^= c; h *= 1099511628211ULL; } return h; }

static std::string seqnames(const Seq& q) { std::string s; for (size_t i = 0; i < q.size(); ++i) { if (i) s += ','; s += q[i]->name; } return s; }

static bool g_cur_dup = false;   // the sequence being judged repeats a member name inside one object

static void viol(const std::string& cfg, const Seq& q, const std::string& cls0, const std::string& detail) {
    // the class names the failure family; sequences with a repeated member name form families of their own
    std::string cls = cls0 + (g_cur_dup ? "+dupkeys" : "");
    // cap per (cfg, class) so that one failure family cannot crowd out the others
    long long& n = g_classviol[cfg + "|" + cls];
    ++n; out().count("violating_cases");
    if (n > 6) return;
    printf("V\tA|%s|%s|%s|%s\t%s\n", cfg.c_str(), g_stage.c_str(), seqnames(q).c_str(), cls.c_str(), show(detail).c_str());
}

static void judge_json(const JCfg& c, const Seq& q, const Model& M, const Run& r, bool replay) {
    std::string cls;
    RefOpts ro; ro.lossless_number = true; ro.max_depth = 100000;
    RefResult rr = ref_parse(r.out, ro);
    if (c.py && g_emit_b) printf("J\t%s\t%s\t%s\t%d\t%s\n", c.name.c_str(), g_stage.c_str(), seqnames(q).c_str(), rr.ok && !rr.unspecified ? 1 : 0, hex(r.out).c_str());
    if (M.ill) { out().count("abstained_illtyped"); out().cls(std::string("json:ill-typed:") + (rr.ok ? "well-formed" : "not-well-formed")); return; }
    if (!rr.ok || rr.unspecified) { viol(c.name, q, "illformed", "output is not RFC 8259 JSON text: " + r.out.substr(0, 200) + "  pushed: " + mv_text(M.v).substr(0, 200)); return; }
    out().count("traces_validated");
    if (M.dup) { out().count("abstained_duplicate_keys"); out().cls("json:duplicate-keys:well-formed"); return; }
    JE e = expect_json(M.v, c);
    std::string why;
    if (!je_match(e, rr.v, why)) { viol(c.name, q, "value", "output does not denote the pushed data (" + why + "): " + r.out.substr(0, 200) + "  pushed: " + mv_text(M.v).substr(0, 200)); return; }
    out().count("nontrivial");
    out().cls(std::string("json:ok") + (M.mismatch ? ":declared-length-ignored" : ""));
    (void)replay;
}

static std::string errclass(const std::string& m) { std::string k = m.substr(0, 48); for (auto& ch : k) if (ch == '\t' || ch == '|') ch = '_'; return k; }

static void run_sequence(const Seq& q, bool replay, const std::string& only_cfg) {
    Model M = build_model(q);
    g_cur_dup = M.dup;
    std::string mvt = ::mvt(M.v);
    std::string names;
    // JSON encoders
    for (const JCfg& c : JCFGS) {
        if (!only_cfg.empty() && only_cfg != c.name) continue;
        Run r = run_json(c, q, false, false);
        out().count("evaluations");
        if (r.foreign) { viol(c.name, q, "foreign", r.msg); continue; }
        // the throwing overloads and the stream sink must behave the same
        Run rt = run_json(c, q, true, true);
        out().count("evaluations");
        if (rt.error != r.error || (!r.error && rt.out != r.out)) { viol(c.name, q, "entrydiff", std::string("ec overloads + string sink: ") + (r.error ? "error " + r.msg : "output " + r.out.substr(0, 120)) + "; throwing overloads + stream sink: " + (rt.error ? "error " + rt.msg : "output " + rt.out.substr(0, 120))); continue; }
        if (r.error) { out().count("encoder_errors"); out().cls("json:error:" + errclass(r.msg) + (M.mismatch ? ":mismatch" : (M.ill ? ":ill-typed" : ""))); continue; }
        uint64_t h = fnv(mvt, fnv(r.out, fnv(c.name)));
        if (!replay && !c.py && !g_seen.insert(h).second) { out().count("deduplicated"); continue; }
        judge_json(c, q, M, r, replay);
    }
    // binary encoders
    for (int b = 0; b < NB; ++b) {
        if (!only_cfg.empty() && only_cfg != BCFG[b]) continue;
        Run r = run_binary(b, q, false, false);
        out().count("evaluations");
        if (r.foreign) { viol(BCFG[b], q, "foreign", r.msg); continue; }
        Run rt = run_binary(b, q, true, true);
        out().count("evaluations");
        if (rt.error != r.error || (!r.error && rt.out != r.out)) { viol(BCFG[b], q, "entrydiff", std::string("ec overloads + bytes sink: ") + (r.error ? "error " + r.msg : "output " + hex(r.out).substr(0, 120)) + "; throwing overloads + stream sink: " + (rt.error ? "error " + rt.msg : "output " + hex(rt.out).substr(0, 120))); continue; }
        if (r.error) { out().count("encoder_errors"); out().cls(std::string(BCFG[b]) + ":error:" + errclass(r.msg) + (M.mismatch ? ":mismatch" : (M.ill ? ":ill-typed" : ""))); continue; }
        uint64_t h = fnv(mvt, fnv(r.out, fnv(BCFG[b])));
        if (!replay && !g_seen.insert(h).second) { out().count("deduplicated"); continue; }
        if (names.empty()) names = seqnames(q);
        std::string flags; if (M.mismatch) flags += 'm'; if (M.ill) flags += 'i'; if (M.dup) flags += 'd'; if (flags.empty()) flags = "-";
        printf("B\t%s\t%s\t%s\t%s\t%s\t%s\n", BCFG[b], g_stage.c_str(), names.c_str(), flags.c_str(), hex(r.out).c_str(), mvt.c_str());
    }
    // CSV encoder
    if (g_stage == "long") return;
    for (int c = 0; c < NC; ++c) {
        if (!only_cfg.empty() && only_cfg != CCFG[c]) continue;
        Run r = run_csv(c, q, false, false);
        out().count("evaluations");
        if (r.foreign) { viol(CCFG[c], q, "foreign", r.msg); continue; }
        Run rt = run_csv(c, q, true, true);
        out().count("evaluations");
        if (rt.error != r.error || (!r.error && rt.out != r.out)) { viol(CCFG[c], q, "entrydiff", std::string("ec overloads + string sink: ") + (r.error ? "error " + r.msg : "output " + r.out.substr(0, 120)) + "; throwing overloads + stream sink: " + (rt.error ? "error " + rt.msg : "output " + rt.out.substr(0, 120))); continue; }
        if (r.error) { out().count("encoder_errors"); out().cls(std::string("csv:error:") + errclass(r.msg)); continue; }
        uint64_t h = fnv(mvt, fnv(r.out, fnv(CCFG[c])));
        if (!replay && !g_seen.insert(h).second) { out().count("deduplicated"); continue; }
        if (M.ill) { out().count("abstained_illtyped"); out().cls("csv:ill-typed"); continue; }
        if (!csv_table(M.v)) { out().count("abstained_csv_nested"); out().cls("csv:multi-valued-fields-not-judged"); continue; }
        std::vector<std::vector<std::string>> recs, rows;
        if (!parse_rfc4180(r.out, recs)) { viol(CCFG[c], q, "illformed", "output cannot be read as RFC 4180 CSV: " + r.out.substr(0, 200) + "  pushed: " + mv_text(M.v).substr(0, 200)); continue; }
        out().count("traces_validated");
        if (M.dup || !csv_rows(M.v, rows)) { out().count("abstained_csv_shape"); out().cls("csv:well-formed:shape-not-modelled"); continue; }
        if (recs != rows) {
            std::string got; for (auto& rec : recs) { got += "["; for (auto& f : rec) got += "<" + f + ">"; got += "]"; }
            viol(CCFG[c], q, "value", "records read back differ from the pushed rows: " + r.out.substr(0, 160) + " reads as " + got.substr(0, 200) + "  pushed: " + mv_text(M.v).substr(0, 200));
            continue;
        }
        out().count("nontrivial"); out().cls("csv:ok");
    }
}

struct Explorer {
    Alphabet A; int L = 0; int slice = 0, nslices = 1; long long ordinal = 0, nodes = 0, complete = 0;
    std::vector<int> sigma;
    Seq q; std::string st;   // pushdown: 'A' array, 'K' object expecting a key, 'V' object expecting a value, 'M' multi-dim
    void init() {
        sigma = A.scalars; sigma.insert(sigma.end(), A.open.begin(), A.open.end()); sigma.insert(sigma.end(), A.keys.begin(), A.keys.end());
        sigma.push_back(A.ea); sigma.push_back(A.eo); sigma.push_back(A.emd);
    }
    bool allowed(const Sym& y) const {
        char top = st.empty() ? 'R' : st.back();
        switch (y.k) {
            case E_KEY: case E_EO: return top == 'K';
            case E_EA: return top == 'A';
            case E_EMD: return top == 'M';
            default: return top != 'K';
        }
    }
    void value_done() { if (!st.empty() && st.back() == 'V') st.back() = 'K'; }
    void apply(const Sym& y) {
        switch (y.k) {
            case E_KEY: st.back() = 'V'; break;
            case E_EA: case E_EO: case E_EMD: st.pop_back(); value_done(); break;
            case E_BA: case E_BAN: st.push_back('A'); break;
            case E_BO: case E_BON: st.push_back('K'); break;
            case E_MD: st.push_back('M'); break;
            default: value_done(); break;
        }
    }
    void complete_seq() {
        ++complete;
        if ((ordinal++ % nslices) != slice) return;
        run_sequence(q, false, "");
        if (out().nsamples < 3 && q.size() >= 3 && (ordinal % 977) == 1) out().sample(g_stage + ": " + seqnames(q) + " -> pushed " + mv_text(build_model(q).v).substr(0, 120));
    }
    void rec() {
        for (int s : sigma) {
            const Sym& y = SYMS[s];
            if (!allowed(y)) continue;
            std::string saved = st;
            q.push_back(&y); apply(y);
            // only prefixes that can still be completed within L events are states of the search
            size_t need = st.size() + ((!st.empty() && st.back() == 'V') ? 1 : 0);
            if (q.size() + need <= size_t(L)) { ++nodes; if (st.empty()) complete_seq(); else rec(); }
            q.pop_back(); st = saved;
        }
    }
};

static bool replay_sig(const std::string& sig) {
    auto p = split(sig, '|');
    if (p.size() < 4 || p[0] != "A") return false;
    g_stage = p[2];
    for (const char* s : {"struct", "mid", "zoo", "long"}) alphabet(s);
    Seq q;
    for (auto& n : split(p[3], ',')) { auto it = SYM_BY_NAME.find(n); if (it == SYM_BY_NAME.end()) { out().error("unknown symbol " + n); return false; } q.push_back(&SYMS[it->second]); }
    run_sequence(q, true, p[1]);
    return true;
}

int main(int argc, char** argv) {
    Args a(argc, argv);
    make_cfgs();
    SYMS.reserve(4096);
    if (a.replay) { replay_sig(a.sig); out().flush(); return 0; }
    g_stage = a.get("stage", "struct");
    Explorer ex; ex.A = alphabet(g_stage); ex.L = int(a.geti("L", 5)); ex.slice = a.slice; ex.nslices = a.nslices; ex.init();
    ex.rec();
    // states: distinct event prefixes (tree nodes) -- every slice walks the whole tree, so report them once
    if (a.slice == 0) { out().count("states", ex.nodes + 1); out().gauge("alphabet_" + g_stage, (long long)(ex.A.open.size() + ex.A.keys.size() + ex.A.scalars.size() + 3)); out().gauge("complete_sequences_" + g_stage, ex.complete); }
    out().count("transitions", g_transitions);
    out().flush();
    return 0;
}
