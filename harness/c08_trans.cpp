// C08 (B) executor: decodes an input with the real jsoncons decoder of its format and re-encodes what came out in
// every other format and as JSON text, by two routes:
//   dom     decode_X<json>(input), then encode_Y(json) / json::dump / json::dump_pretty
//   stream  X reader (parser) piped straight into the Y encoder (cbor_bytes_reader -> msgpack_bytes_encoder ...)
//
//   stdin :  one case per line   "<format> <hex bytes>"      format in {cbor,msgpack,ubjson,bson,json}
//   stdout:  one line per case   "REJ <message>"                       the source decoder rejects the input
//                             or "OK <mv text of the decoded json>\t<target>.<route>=<result>\t..."
//            target in {json,jsonp,cbor,msgpack,ubjson,bson}; result "E:<message>" (the encoder reported an error),
//            "X:<what>" (an exception that is not a jsoncons error), "O:<hex>" (binary output) or, for JSON text,
//            "O1:<hex>" / "O0:<hex>" (1 = accepted by the strict RFC 8259 reference parser of engine/rfc8259_ref.hpp).
// The comparison with the source value (as read by the Python reference decoder of the source format) is done by
// checks/c08.py.
#include "mv.hpp"
#include "rfc8259_ref.hpp"
#include <jsoncons/json.hpp>
#include <jsoncons_ext/cbor/cbor.hpp>
#include <jsoncons_ext/msgpack/msgpack.hpp>
#include <jsoncons_ext/ubjson/ubjson.hpp>
#include <jsoncons_ext/bson/bson.hpp>
#include <iostream>

using jsoncons::json;
typedef std::vector<uint8_t> Bytes;

static std::string err_text(const std::exception& e) {
    if (auto s = dynamic_cast<const jsoncons::ser_error*>(&e)) return "E:" + vf::show(s->code().message());
    if (dynamic_cast<const jsoncons::json_exception*>(&e)) return "E:json_exception " + vf::show(e.what()).substr(0, 80);
    if (dynamic_cast<const std::bad_alloc*>(&e)) return "X:bad_alloc";
    return "X:" + vf::show(e.what()).substr(0, 80);
}
static std::string json_result(const std::string& text) {
    vf::RefOpts ro; ro.max_depth = 100000;
    vf::RefResult rr = vf::ref_parse(text, ro);
    return std::string(rr.ok && !rr.unspecified ? "O1:" : "O0:") + vf::hex(text);
}

template <class F> static std::string guarded(F&& f) {
    try { return f(); }
    catch (const std::exception& e) { return err_text(e); }
    catch (...) { return "X:unknown"; }
}

static std::string dom_target(const json& j, int t) {
    return guarded([&]() -> std::string {
        switch (t) {
            case 0: { std::string s; j.dump(s); return json_result(s); }
            case 1: { std::string s; j.dump_pretty(s); return json_result(s); }
            case 2: { Bytes b; jsoncons::cbor::encode_cbor(j, b); return "O:" + vf::hex(b); }
            case 3: { Bytes b; jsoncons::msgpack::encode_msgpack(j, b); return "O:" + vf::hex(b); }
            case 4: { Bytes b; jsoncons::ubjson::encode_ubjson(j, b); return "O:" + vf::hex(b); }
            default: { Bytes b; jsoncons::bson::encode_bson(j, b); return "O:" + vf::hex(b); }
        }
    });
}

// source reader of format f piped into visitor v
static void pipe(const std::string& f, const std::string& in, jsoncons::json_visitor& v, std::error_code& ec) {
    Bytes b(in.begin(), in.end());
    if (f == "cbor") { jsoncons::cbor::cbor_bytes_reader r(b, v); r.read(ec); }
    else if (f == "msgpack") { jsoncons::msgpack::msgpack_bytes_reader r(b, v); r.read(ec); }
    else if (f == "ubjson") { jsoncons::ubjson::ubjson_bytes_reader r(b, v); r.read(ec); }
    else if (f == "bson") { jsoncons::bson::bson_bytes_reader r(b, v); r.read(ec); }
    else { jsoncons::json_string_reader r(jsoncons::string_view(in.data(), in.size()), v); r.read(ec); }
}

static std::string stream_target(const std::string& f, const std::string& in, int t) {
    return guarded([&]() -> std::string {
        std::error_code ec;
        switch (t) {
            case 0: { std::string s; { jsoncons::compact_json_string_encoder e(s); pipe(f, in, e, ec); if (!ec) e.flush(); } if (ec) return "E:" + vf::show(ec.message()); return json_result(s); }
            case 1: { std::string s; { jsoncons::json_string_encoder e(s); pipe(f, in, e, ec); if (!ec) e.flush(); } if (ec) return "E:" + vf::show(ec.message()); return json_result(s); }
            case 2: { Bytes b; { jsoncons::cbor::cbor_bytes_encoder e(b); pipe(f, in, e, ec); if (!ec) e.flush(); } if (ec) return "E:" + vf::show(ec.message()); return "O:" + vf::hex(b); }
            case 3: { Bytes b; { jsoncons::msgpack::msgpack_bytes_encoder e(b); pipe(f, in, e, ec); if (!ec) e.flush(); } if (ec) return "E:" + vf::show(ec.message()); return "O:" + vf::hex(b); }
            case 4: { Bytes b; { jsoncons::ubjson::ubjson_bytes_encoder e(b); pipe(f, in, e, ec); if (!ec) e.flush(); } if (ec) return "E:" + vf::show(ec.message()); return "O:" + vf::hex(b); }
            default: { Bytes b; { jsoncons::bson::bson_bytes_encoder e(b); pipe(f, in, e, ec); if (!ec) e.flush(); } if (ec) return "E:" + vf::show(ec.message()); return "O:" + vf::hex(b); }
        }
    });
}

static const char* TARGET[6] = {"json", "jsonp", "cbor", "msgpack", "ubjson", "bson"};

static std::string one(const std::string& f, const std::string& in) {
    json j;
    try {
        Bytes b(in.begin(), in.end());
        if (f == "cbor") j = jsoncons::cbor::decode_cbor<json>(b);
        else if (f == "msgpack") j = jsoncons::msgpack::decode_msgpack<json>(b);
        else if (f == "ubjson") j = jsoncons::ubjson::decode_ubjson<json>(b);
        else if (f == "bson") j = jsoncons::bson::decode_bson<json>(b);
        else if (f == "json") { jsoncons::json_options o; o.allow_comments(false); j = json::parse(in, o); }
        else return "REJ unknown format " + f;
    } catch (const std::exception& e) { return "REJ " + vf::show(e.what()).substr(0, 100); }
    catch (...) { return "REJ unknown exception"; }
    std::string line = "OK " + vf::mv_text(vf::to_mv(j));
    for (int t = 0; t < 6; ++t) {
        if (f == TARGET[t]) continue;
        line += "\t"; line += TARGET[t]; line += ".dom="; line += dom_target(j, t);
        line += "\t"; line += TARGET[t]; line += ".stream="; line += stream_target(f, in, t);
    }
    return line;
}

int main() {
    std::ios::sync_with_stdio(false);
    std::string line;
    while (std::getline(std::cin, line)) {
        if (line.empty()) continue;
        size_t sp = line.find(' ');
        std::string fmt = sp == std::string::npos ? line : line.substr(0, sp);
        std::string bytes = sp == std::string::npos ? std::string() : vf::unhex(line.substr(sp + 1));
        std::string r = one(fmt, bytes);
        r.push_back('\n');
        size_t off = 0;
        while (off < r.size()) { ssize_t n = write(1, r.data() + off, r.size() - off); if (n <= 0) return 3; off += size_t(n); }
    }
    return 0;
}
