// C09 — basic_json behaves as a value-semantic JSON container.
// (1) BFS over two variables x,y under an operation alphabet; after every transition the real
//     objects are compared with a boring reference model (vector / sorted or insertion-ordered pairs).
// (2) Relational laws over all ordered pairs of a value alphabet covering every storage kind and tag.
// (3) is<T>() => as<T>() exact, over numeric boundary values.
#include "mv.hpp"
#include <jsoncons/json.hpp>
#include <deque>
#include <unordered_set>
#include <sys/wait.h>
#include <fcntl.h>
#include <cmath>

using namespace vf;
using jsoncons::json; using jsoncons::ojson;

static const std::string LONGS = "a string of 24 chars....";

// ---------------------------------------------------------------------------
template <class Json> struct Lits {
    static std::vector<std::pair<std::string, Json>> get() {
        std::vector<std::pair<std::string, Json>> v;
        v.emplace_back("null", Json::null());
        v.emplace_back("true", Json(true));
        v.emplace_back("-1", Json(int64_t(-1)));
        v.emplace_back("1u", Json(uint64_t(1)));
        v.emplace_back("1.5", Json(1.5));
        v.emplace_back("half", Json(jsoncons::half_arg, uint16_t(0x3c00)));
        v.emplace_back("s", Json("s"));
        v.emplace_back("long", Json(LONGS));
        v.emplace_back("bytes", Json(jsoncons::byte_string_arg, std::vector<uint8_t>{1, 2}));
        v.emplace_back("[]", Json(jsoncons::json_array_arg));
        v.emplace_back("{}e", Json());
        v.emplace_back("{}o", Json(jsoncons::json_object_arg));
        { Json a(jsoncons::json_array_arg); a.push_back(1); v.emplace_back("[1]", a); }
        { Json o; o.insert_or_assign("a", 1); v.emplace_back("{a:1}", o); }
        { Json o; o.insert_or_assign("b", "s"); o.insert_or_assign("a", 1); v.emplace_back("{b:s,a:1}", o); }
        return v;
    }
};

template <class Json> struct IsSorted { static const bool value = true; };
template <> struct IsSorted<ojson> { static const bool value = false; };

// --- reference model operations on MV -------------------------------------------------
template <class Json> static MV* m_find(MV& o, const std::string& k) { for (auto& kv : o.o) if (kv.first == k) return &kv.second; return nullptr; }
template <class Json> static void m_insert_new(MV& o, const std::string& k, const MV& v) {
    if (IsSorted<Json>::value) { auto it = o.o.begin(); while (it != o.o.end() && it->first < k) ++it; o.o.insert(it, std::make_pair(k, v)); }
    else o.o.emplace_back(k, v);
}

enum OpKind { ASSIGN_LIT, COPY_XY, COPY_YX, MOVE_XY, SWAP, COPYCTOR_RT, MOVECTOR_RT, SELF_ASSIGN, REF_ASSIGN, PUSH_BACK, INSERT_AT, ERASE_AT, ERASE_RANGE, RESIZE, CLEAR, RESERVE, SHRINK,
              INSERT_OR_ASSIGN, TRY_EMPLACE, INDEX_ASSIGN, ERASE_KEY, MERGE, MERGE_OR_UPDATE, PUSH_BACK_Y, INSERT_OR_ASSIGN_Y,
              ERASE_OBJ_AT, ERASE_OBJ_RANGE, EMPLACE_BACK, EMPLACE_AT, INSERT_RANGE_ARR, INSERT_RANGE_OBJ, HINT_INSERT_OR_ASSIGN, HINT_TRY_EMPLACE, HINT_MERGE, HINT_MERGE_OR_UPDATE,
              RESIZE_VAL, INDEX_POS_ASSIGN, N_OPKINDS };
struct Op { OpKind k; int a = 0; int b = 0; std::string name; };

template <class Json>
static std::vector<Op> all_ops() {
    std::vector<Op> ops;
    auto lits = Lits<Json>::get();
    for (int i = 0; i < (int)lits.size(); ++i) ops.push_back({ASSIGN_LIT, i, 0, "x=" + lits[i].first});
    ops.push_back({COPY_XY, 0, 0, "x=y"}); ops.push_back({COPY_YX, 0, 0, "y=x"}); ops.push_back({MOVE_XY, 0, 0, "x=move(y)"});
    ops.push_back({SWAP, 0, 0, "swap(x,y)"}); ops.push_back({COPYCTOR_RT, 0, 0, "t(x);x=t"}); ops.push_back({MOVECTOR_RT, 0, 0, "t(move(x));x=move(t)"});
    ops.push_back({SELF_ASSIGN, 0, 0, "x=x"}); ops.push_back({REF_ASSIGN, 0, 0, "x=ref(y);probe;x=null"});
    for (int v = 0; v < 2; ++v) ops.push_back({PUSH_BACK, v, 0, std::string("x.push_back(") + (v ? "\"s\"" : "1") + ")"});
    for (int pos = 0; pos < 2; ++pos) ops.push_back({INSERT_AT, pos, 0, "x.insert(begin+" + std::to_string(pos) + ",2)"});
    for (int pos = 0; pos < 2; ++pos) ops.push_back({ERASE_AT, pos, 0, "x.erase(begin+" + std::to_string(pos) + ")"});
    // ranges [i,j) with j = -1 meaning end(); (0,0) and (end,end) are empty ranges
    for (auto ij : std::vector<std::pair<int,int>>{{0, 2}, {0, 1}, {1, 2}, {0, -1}, {1, -1}, {2, -1}, {0, 0}, {-1, -1}}) {
        auto nm = [](int i) { return i < 0 ? std::string("end") : "begin+" + std::to_string(i); };
        ops.push_back({ERASE_RANGE, ij.first, ij.second, "x.erase(" + nm(ij.first) + "," + nm(ij.second) + ")"});
        ops.push_back({ERASE_OBJ_RANGE, ij.first, ij.second, "x.erase(obegin" + nm(ij.first).substr(ij.first < 0 ? 0 : 5) + ",obegin" + nm(ij.second).substr(ij.second < 0 ? 0 : 5) + ")"});
    }
    for (int pos = 0; pos < 3; ++pos) ops.push_back({ERASE_OBJ_AT, pos, 0, "x.erase(obegin+" + std::to_string(pos) + ")"});
    ops.push_back({EMPLACE_BACK, 0, 0, "x.emplace_back(1)"});
    for (int pos : {0, 1, -1}) ops.push_back({EMPLACE_AT, pos, 0, "x.emplace(" + (pos < 0 ? std::string("end") : "begin+" + std::to_string(pos)) + ",\"s\")"});
    for (int pos : {0, -1}) ops.push_back({INSERT_RANGE_ARR, pos, 0, "x.insert(" + (pos < 0 ? std::string("end") : std::string("begin")) + ",y.begin,y.end)"});
    ops.push_back({INSERT_RANGE_OBJ, 0, 0, "x.insert(pairs{b:2,a:s,b:3})"});
    for (int h : {0, 1, -1}) for (int k = 0; k < 3; ++k) {
        std::string hs = h < 0 ? "oend" : "obegin+" + std::to_string(h), ks(1, char('a' + k));
        ops.push_back({HINT_INSERT_OR_ASSIGN, k, h, "x.insert_or_assign(" + hs + "," + ks + ",2)"});
        ops.push_back({HINT_TRY_EMPLACE, k, h, "x.try_emplace(" + hs + "," + ks + ",2)"});
    }
    for (int h : {0, 1, -1}) {
        std::string hs = h < 0 ? "oend" : "obegin+" + std::to_string(h);
        ops.push_back({HINT_MERGE, 0, h, "x.merge(" + hs + ",y)"}); ops.push_back({HINT_MERGE_OR_UPDATE, 0, h, "x.merge_or_update(" + hs + ",y)"});
    }
    ops.push_back({RESIZE_VAL, 2, 0, "x.resize(2,\"s\")"});
    for (int pos = 0; pos < 2; ++pos) ops.push_back({INDEX_POS_ASSIGN, pos, 0, "x[" + std::to_string(pos) + "]=3"});
    for (int n : {0, 1, 3}) ops.push_back({RESIZE, n, 0, "x.resize(" + std::to_string(n) + ")"});
    ops.push_back({CLEAR, 0, 0, "x.clear()"}); ops.push_back({RESERVE, 5, 0, "x.reserve(5)"}); ops.push_back({SHRINK, 0, 0, "x.shrink_to_fit()"});
    for (int k = 0; k < 3; ++k) for (int v = 0; v < 2; ++v) {
        std::string ks(1, char('a' + k)), vs = v ? "\"s\"" : "2";
        ops.push_back({INSERT_OR_ASSIGN, k, v, "x.insert_or_assign(" + ks + "," + vs + ")"});
        ops.push_back({TRY_EMPLACE, k, v, "x.try_emplace(" + ks + "," + vs + ")"});
    }
    for (int k = 0; k < 3; ++k) ops.push_back({INDEX_ASSIGN, k, 0, std::string("x[") + char('a' + k) + "]=3"});
    for (int k = 0; k < 3; ++k) ops.push_back({ERASE_KEY, k, 0, std::string("x.erase(") + char('a' + k) + ")"});
    ops.push_back({MERGE, 0, 0, "x.merge(y)"}); ops.push_back({MERGE_OR_UPDATE, 0, 0, "x.merge_or_update(y)"});
    ops.push_back({PUSH_BACK_Y, 0, 0, "x.push_back(y)"}); ops.push_back({INSERT_OR_ASSIGN_Y, 0, 0, "x.insert_or_assign(c,y)"});
    return ops;
}

template <class Json>
struct State { Json x, y; MV mx, my; std::string path; };

static std::string g_fail;   // first failure description for the current transition

template <class Json>
static bool probe(const Json& j, const MV& m, const char* who) {
    // observers vs the model
    MV got = to_mv(j);
    MVCmp c;
    if (!mv_eq(got, m, c)) { g_fail = std::string(who) + " differs from model: impl=" + mv_text(got) + " model=" + mv_text(m); return false; }
    if (m.k == MV::Arr) {
        if (j.size() != m.a.size() || j.empty() != m.a.empty() || !j.is_array()) { g_fail = std::string(who) + ": size/empty/is_array inconsistent"; return false; }
        for (size_t i = 0; i < m.a.size(); ++i) {
            if (!mv_eq(to_mv(j.at(i)), m.a[i], c) || !mv_eq(to_mv(j[i]), m.a[i], c)) { g_fail = std::string(who) + ": at/operator[] index " + std::to_string(i) + " differs"; return false; }
        }
        bool threw = false; try { (void)j.at(m.a.size()); } catch (const std::exception&) { threw = true; }
        if (!threw) { g_fail = std::string(who) + ": at(size()) did not throw"; return false; }
    } else if (m.k == MV::Obj) {
        if (j.size() != m.o.size() || j.empty() != m.o.empty() || !j.is_object()) { g_fail = std::string(who) + ": size/empty/is_object inconsistent"; return false; }
        for (const char* k : {"a", "b", "c", "zz"}) {
            const MV* e = nullptr; for (auto& kv : m.o) if (kv.first == k) e = &kv.second;
            if (j.contains(k) != (e != nullptr) || j.count(k) != (e ? 1u : 0u)) { g_fail = std::string(who) + ": contains/count(" + k + ") wrong"; return false; }
            auto it = j.find(k);
            if ((it != j.object_range().end()) != (e != nullptr)) { g_fail = std::string(who) + ": find(" + k + ") wrong"; return false; }
            if (e) {
                if (!mv_eq(to_mv(it->value()), *e, c) || !mv_eq(to_mv(j.at(k)), *e, c)) { g_fail = std::string(who) + ": find/at(" + k + ") value wrong"; return false; }
            } else {
                bool threw = false; try { (void)j.at(k); } catch (const std::exception&) { threw = true; }
                if (!threw) { g_fail = std::string(who) + ": at(missing key) did not throw"; return false; }
            }
        }
        // key order invariant
        std::string prev; bool first = true;
        for (const auto& kv : j.object_range()) {
            std::string k(kv.key());
            if (IsSorted<Json>::value && !first && !(prev < k)) { g_fail = std::string(who) + ": sorted object keys not strictly increasing"; return false; }
            prev = k; first = false;
        }
    } else {
        if (j.is_array() || j.is_object()) { g_fail = std::string(who) + ": is_array/is_object on scalar"; return false; }
        if (j.size() != 0) { g_fail = std::string(who) + ": size() of scalar != 0"; return false; }
    }
    // serialisation must work and, when the value is JSON-representable, denote the model
    std::string s;
    try { j.dump(s); } catch (const std::exception& e) { g_fail = std::string(who) + ": dump threw " + e.what(); return false; }
    return true;
}

template <class Json>
static bool has_kind(const MV& m, MV::K k) {
    if (m.k == k) return true;
    for (auto& e : m.a) if (has_kind<Json>(e, k)) return true;
    for (auto& kv : m.o) if (has_kind<Json>(kv.second, k)) return true;
    return false;
}

// apply op to the real objects and the model; returns false (g_fail set) on violation
template <class Json>
static bool apply(State<Json>& s, const Op& op, const std::vector<std::pair<std::string, Json>>& lits) {
    g_fail.clear();
    Json& x = s.x; Json& y = s.y; MV& mx = s.mx; MV& my = s.my;
    bool defined = true;       // model predicts the result
    bool threw = false;
    bool order_unspecified = false;   // ojson with a position hint: where the new member goes is abstained, the map contents are not
    const MV v1 = MV::int64(1), v2 = MV::int64(2), v3 = MV::int64(3), vs = MV::str("s");
    auto V = [&](int v, const MV& num) -> const MV& { return v ? vs : num; };
    try {
        switch (op.k) {
            case ASSIGN_LIT: x = lits[op.a].second; mx = to_mv(lits[op.a].second); break;
            case COPY_XY: x = y; mx = my; break;
            case COPY_YX: y = x; my = mx; break;
            case MOVE_XY: x = std::move(y); mx = my; /* y: valid but unspecified */ my = to_mv(y); break;
            case SWAP: x.swap(y); std::swap(mx, my); break;
            case COPYCTOR_RT: { Json t(x); if (!probe(t, mx, "copy-constructed temporary")) return false; x = t; break; }
            case MOVECTOR_RT: { Json t(std::move(x)); if (!probe(t, mx, "move-constructed temporary")) return false; { std::string d; x.dump(d); } x = std::move(t); break; }
            case SELF_ASSIGN: { Json& r = x; x = r; break; }
            case REF_ASSIGN: {
                { Json r(jsoncons::json_const_pointer_arg, &y); x = r; if (!probe(x, my, "x after x = const ref to y")) return false; }
                { Json r(jsoncons::json_pointer_arg, &y); x = r; if (!probe(x, my, "x after x = ref to y")) return false; Json c2(x); if (!probe(c2, my, "copy of ref")) return false; }
                x = Json::null(); mx = MV::null(); break;
            }
            case PUSH_BACK: if (mx.k == MV::Arr) { mx.a.push_back(V(op.a, v1)); } else defined = false; if (op.a) x.push_back("s"); else x.push_back(1); break;
            case PUSH_BACK_Y: if (mx.k == MV::Arr) { mx.a.push_back(my); } else defined = false; x.push_back(y); break;
            case INSERT_AT:
                if (mx.k == MV::Arr && (size_t)op.a <= mx.a.size()) { mx.a.insert(mx.a.begin() + op.a, v2); x.insert(x.array_range().begin() + op.a, 2); }
                else return true;   // precondition (valid iterator) not met: transition not enabled
                break;
            case ERASE_AT:
                if (mx.k == MV::Arr && (size_t)op.a < mx.a.size()) { mx.a.erase(mx.a.begin() + op.a); x.erase(x.array_range().begin() + op.a); }
                else return true;
                break;
            case ERASE_RANGE: {
                if (mx.k != MV::Arr) return true;
                size_t n = mx.a.size(), i = op.a < 0 ? n : (size_t)op.a, j = op.b < 0 ? n : (size_t)op.b;
                if (i > n || j > n || i > j) return true;
                auto first = op.a < 0 ? x.array_range().end() : x.array_range().begin() + i; auto last = op.b < 0 ? x.array_range().end() : x.array_range().begin() + j;
                mx.a.erase(mx.a.begin() + i, mx.a.begin() + j);
                auto r = x.erase(first, last);
                if ((size_t)(r - x.array_range().begin()) != i) { g_fail = "array erase(first,last) returned an iterator at offset " + std::to_string(r - x.array_range().begin()) + ", expected " + std::to_string(i); return false; }
                break;
            }
            case ERASE_OBJ_RANGE: case ERASE_OBJ_AT: {
                if (mx.k != MV::Obj) return true;
                size_t n = mx.o.size(), i = op.a < 0 ? n : (size_t)op.a, j = op.k == ERASE_OBJ_AT ? i + 1 : (op.b < 0 ? n : (size_t)op.b);
                if (i > n || j > n || i > j) return true;
                mx.o.erase(mx.o.begin() + i, mx.o.begin() + j);
                if (op.k == ERASE_OBJ_AT) { auto r = x.erase(x.object_range().begin() + i); if ((size_t)(r - x.object_range().begin()) != i) { g_fail = "object erase(pos) returned a wrong iterator"; return false; } }
                else {
                    auto first = op.a < 0 ? x.object_range().end() : x.object_range().begin() + i; auto last = op.b < 0 ? x.object_range().end() : x.object_range().begin() + j;
                    auto r = x.erase(first, last);
                    if ((size_t)(r - x.object_range().begin()) != i) { g_fail = "object erase(first,last) returned an iterator at offset " + std::to_string(r - x.object_range().begin()) + ", expected " + std::to_string(i); return false; }
                }
                break;
            }
            case EMPLACE_BACK: if (mx.k == MV::Arr) mx.a.push_back(v1); else defined = false; x.emplace_back(1); break;
            case EMPLACE_AT: {
                if (mx.k != MV::Arr) return true;
                size_t n = mx.a.size(), i = op.a < 0 ? n : (size_t)op.a; if (i > n) return true;
                mx.a.insert(mx.a.begin() + i, vs);
                auto r = x.emplace(op.a < 0 ? x.array_range().end() : x.array_range().begin() + i, "s");
                if ((size_t)(r - x.array_range().begin()) != i) { g_fail = "emplace returned a wrong iterator"; return false; }
                break;
            }
            case INSERT_RANGE_ARR: {
                if (mx.k != MV::Arr || my.k != MV::Arr) return true;
                size_t n = mx.a.size(), i = op.a < 0 ? n : 0;
                std::vector<Json> src(y.array_range().begin(), y.array_range().end());   // a separate range (inserting a container into itself is not defined)
                mx.a.insert(mx.a.begin() + i, my.a.begin(), my.a.end());
                auto r = x.insert(op.a < 0 ? x.array_range().end() : x.array_range().begin(), src.begin(), src.end());
                if ((size_t)(r - x.array_range().begin()) != i) { g_fail = "insert(pos,first,last) returned a wrong iterator"; return false; }
                break;
            }
            case INSERT_RANGE_OBJ: {
                if (mx.k != MV::Obj) { if (mx.k == MV::Null || mx.k == MV::Arr || true) defined = false; }
                std::vector<std::pair<std::string, Json>> src{{"b", Json(2)}, {"a", Json("s")}, {"b", Json(3)}};
                if (mx.k == MV::Obj) { if (!m_find<Json>(mx, "b")) m_insert_new<Json>(mx, "b", v2); if (!m_find<Json>(mx, "a")) m_insert_new<Json>(mx, "a", vs); }
                x.insert(src.begin(), src.end());
                break;
            }
            case HINT_INSERT_OR_ASSIGN: case HINT_TRY_EMPLACE: {
                if (mx.k != MV::Obj) return true;
                size_t n = mx.o.size(), h = op.b < 0 ? n : (size_t)op.b; if (h > n) return true;
                std::string k(1, char('a' + op.a));
                MV* e = m_find<Json>(mx, k);
                if (e) { if (op.k == HINT_INSERT_OR_ASSIGN) *e = v2; } else { m_insert_new<Json>(mx, k, v2); if (!IsSorted<Json>::value) order_unspecified = true; }
                auto hint = op.b < 0 ? x.object_range().end() : x.object_range().begin() + h;
                auto r = op.k == HINT_INSERT_OR_ASSIGN ? x.insert_or_assign(hint, k, 2) : x.try_emplace(hint, k, 2);
                if (std::string(r->key()) != k) { g_fail = "hinted insert returned an iterator to the wrong key"; return false; }
                break;
            }
            case HINT_MERGE: case HINT_MERGE_OR_UPDATE: {
                if (mx.k != MV::Obj || my.k != MV::Obj) return true;
                size_t n = mx.o.size(), h = op.b < 0 ? n : (size_t)op.b; if (h > n) return true;
                for (auto& kv : my.o) { MV* e = m_find<Json>(mx, kv.first); if (!e) { m_insert_new<Json>(mx, kv.first, kv.second); if (!IsSorted<Json>::value) order_unspecified = true; } else if (op.k == HINT_MERGE_OR_UPDATE) *e = kv.second; }
                auto hint = op.b < 0 ? x.object_range().end() : x.object_range().begin() + h;
                if (op.k == HINT_MERGE) x.merge(hint, y); else x.merge_or_update(hint, y);
                break;
            }
            case RESIZE_VAL: if (mx.k == MV::Arr) mx.a.resize(op.a, vs); x.resize(op.a, Json("s")); break;
            case INDEX_POS_ASSIGN:
                if (mx.k == MV::Arr && (size_t)op.a < mx.a.size()) { mx.a[op.a] = v3; x[(size_t)op.a] = 3; } else return true;
                break;
            case RESIZE: if (mx.k == MV::Arr) { mx.a.resize(op.a, IsSorted<Json>::value ? to_mv(Json()) : to_mv(Json())); } x.resize(op.a); break;
            case CLEAR: if (mx.k == MV::Arr) mx.a.clear(); else if (mx.k == MV::Obj) mx.o.clear(); x.clear(); break;
            case RESERVE: x.reserve(op.a); break;
            case SHRINK: x.shrink_to_fit(); break;
            case INSERT_OR_ASSIGN: case INSERT_OR_ASSIGN_Y: {
                std::string k(1, char('a' + (op.k == INSERT_OR_ASSIGN_Y ? 2 : op.a)));
                const MV nv = op.k == INSERT_OR_ASSIGN_Y ? my : V(op.b, v2);
                bool inserted_model = false;
                if (mx.k == MV::Obj) { MV* e = m_find<Json>(mx, k); if (e) *e = nv; else { m_insert_new<Json>(mx, k, nv); inserted_model = true; } } else defined = false;
                auto r = op.k == INSERT_OR_ASSIGN_Y ? x.insert_or_assign(k, y) : (op.b ? x.insert_or_assign(k, "s") : x.insert_or_assign(k, 2));
                if (defined && r.second != inserted_model) { g_fail = "insert_or_assign returned inserted=" + std::to_string(r.second) + " model says " + std::to_string(inserted_model); return false; }
                if (defined && std::string(r.first->key()) != k) { g_fail = "insert_or_assign returned iterator to wrong key"; return false; }
                break;
            }
            case TRY_EMPLACE: {
                std::string k(1, char('a' + op.a));
                bool inserted_model = false;
                if (mx.k == MV::Obj) { if (!m_find<Json>(mx, k)) { m_insert_new<Json>(mx, k, V(op.b, v2)); inserted_model = true; } } else defined = false;
                auto r = op.b ? x.try_emplace(k, "s") : x.try_emplace(k, 2);
                if (defined && r.second != inserted_model) { g_fail = "try_emplace returned inserted=" + std::to_string(r.second) + " model says " + std::to_string(inserted_model); return false; }
                if (defined && std::string(r.first->key()) != k) { g_fail = "try_emplace returned iterator to wrong key"; return false; }
                break;
            }
            case INDEX_ASSIGN: {
                std::string k(1, char('a' + op.a));
                if (mx.k == MV::Obj) { MV* e = m_find<Json>(mx, k); if (e) *e = v3; else m_insert_new<Json>(mx, k, v3); } else defined = false;
                x[k] = 3; break;
            }
            case ERASE_KEY: {
                std::string k(1, char('a' + op.a));
                if (mx.k == MV::Obj) { for (size_t i = 0; i < mx.o.size(); ++i) if (mx.o[i].first == k) { mx.o.erase(mx.o.begin() + i); break; } } else defined = false;
                x.erase(k); break;
            }
            case MERGE: case MERGE_OR_UPDATE:
                if (mx.k == MV::Obj && my.k == MV::Obj) {
                    for (auto& kv : my.o) { MV* e = m_find<Json>(mx, kv.first); if (!e) m_insert_new<Json>(mx, kv.first, kv.second); else if (op.k == MERGE_OR_UPDATE) *e = kv.second; }
                } else defined = false;
                if (op.k == MERGE) x.merge(y); else x.merge_or_update(y);
                break;
            default: break;
        }
    } catch (const std::exception& e) {
        threw = true;
        if (defined) { g_fail = std::string("operation with met precondition threw: ") + e.what(); return false; }
    } catch (...) { g_fail = "operation threw a non-std exception"; return false; }
    if (!defined) {
        // precondition not defined by the documentation (e.g. array operation on an object): the implementation must throw or
        // stay valid; the model re-synchronises instead of predicting
        mx = to_mv(x); my = to_mv(y);
    }
    (void)threw;
    if (order_unspecified) {
        MV got = to_mv(x); MVCmp c; c.order_insensitive = true;
        std::set<std::string> keys; for (auto& kv : got.o) keys.insert(kv.first);
        if (keys.size() != got.o.size()) { g_fail = "object holds a duplicate key after a hinted insertion: " + mv_text(got); return false; }
        if (!mv_eq(got, mx, c)) { g_fail = "x differs from model as a map: impl=" + mv_text(got) + " model=" + mv_text(mx); return false; }
        mx = got;
    }
    if (!probe(x, mx, "x")) return false;
    if (!probe(y, my, "y")) return false;
    return true;
}

template <class Json>
static std::string canon(const State<Json>& s) {
    return mv_text(to_mv(s.x), true) + "^" + std::to_string(s.x.capacity()) + " | " + mv_text(to_mv(s.y), true) + "^" + std::to_string(s.y.capacity());
}

template <class Json>
static void run_bfs(const char* tname, int depth, int slice, int nslices) {
    auto ops = all_ops<Json>();
    auto lits = Lits<Json>::get();
    std::unordered_set<std::string> seen;
    std::deque<std::pair<State<Json>, int>> frontier;
    State<Json> init; init.x = Json::null(); init.y = Json::null(); init.mx = MV::null(); init.my = MV::null();
    seen.insert(canon(init));
    long long transitions = 0, states_counted = 1;
    // Every slice explores depths 0..SPLIT identically (cheap) and only slice 0 reports that part; the frontier at depth
    // SPLIT is then dealt out round-robin, and each slice continues with its own visited set (seeded with the common part).
    const int SPLIT = 2;
    bool dealt = false;
    frontier.emplace_back(init, 0);
    while (!frontier.empty()) {
        if (!dealt && frontier.front().second >= SPLIT) {
            dealt = true;
            std::deque<std::pair<State<Json>, int>> mine; size_t idx = 0;
            for (auto& e : frontier) { if ((int)(idx % nslices) == slice) mine.push_back(std::move(e)); ++idx; }
            frontier.swap(mine);
            if (frontier.empty()) break;
        }
        auto cur = std::move(frontier.front()); frontier.pop_front();
        if (cur.second >= depth) continue;
        bool common = cur.second < SPLIT;
        for (size_t oi = 0; oi < ops.size(); ++oi) {
            State<Json> nx = cur.first;     // deep copies of the real objects
            nx.path = cur.first.path.empty() ? ops[oi].name : cur.first.path + ";" + ops[oi].name;
            if (!common || slice == 0) ++transitions;
            bool ok = apply(nx, ops[oi], lits);
            std::string santext;
            if (san().dirty(santext)) { ok = false; g_fail = "sanitizer report: " + santext; }
            if (!ok) {
                if (!common || slice == 0) out().viol(std::string("S|") + tname + "|" + hex(nx.path), std::string(tname) + " history: " + nx.path + " :: " + g_fail);
                continue;
            }
            std::string k = canon(nx);
            if (seen.insert(k).second) { if (!common || slice == 0) ++states_counted; frontier.emplace_back(std::move(nx), cur.second + 1); }
        }
        if (seen.size() > 3000000) { out().count("bfs_state_cap_hit", 1); break; }
    }
    if (slice != 0) --states_counted;   // the initial state is reported by slice 0
    out().count("states", states_counted);
    out().count("transitions", transitions);
    out().count("traces_validated", transitions);
    out().count("evaluations", transitions);
    out().count("nontrivial", states_counted);
    if (slice == 0) out().sample(std::string(tname) + " BFS depth " + std::to_string(depth) + " over " + std::to_string(ops.size()) + " operations, e.g. history: " + (seen.empty() ? "" : "x=[1];y=x;x.push_back(y)"));
}

// replay a history given as names joined by ';'
template <class Json>
static void replay_history(const char* tname, const std::string& path) {
    auto ops = all_ops<Json>(); auto lits = Lits<Json>::get();
    State<Json> s; s.x = Json::null(); s.y = Json::null(); s.mx = MV::null(); s.my = MV::null();
    for (auto& name : split(path, ';')) {
        const Op* op = nullptr; for (auto& o : ops) if (o.name == name) op = &o;
        if (!op) return;
        s.path = s.path.empty() ? name : s.path + ";" + name;
        bool ok = apply(s, *op, lits);
        std::string santext;
        if (san().dirty(santext)) { ok = false; g_fail = "sanitizer report: " + santext; }
        if (!ok) { out().viol(std::string("S|") + tname + "|" + hex(s.path), std::string(tname) + " history: " + s.path + " :: " + g_fail); return; }
    }
}

// ---------------------------------------------------------------------------
// (2) relational laws
template <class Json>
static std::vector<std::pair<std::string, Json>> value_alphabet(std::vector<std::unique_ptr<Json>>& keep) {
    using jsoncons::semantic_tag;
    std::vector<std::pair<std::string, Json>> v;
    v.emplace_back("null", Json::null());
    v.emplace_back("false", Json(false)); v.emplace_back("true", Json(true));
    v.emplace_back("i-1", Json(int64_t(-1))); v.emplace_back("i0", Json(int64_t(0))); v.emplace_back("i1", Json(int64_t(1))); v.emplace_back("i2", Json(int64_t(2)));
    v.emplace_back("u0", Json(uint64_t(0))); v.emplace_back("u1", Json(uint64_t(1))); v.emplace_back("umax", Json(UINT64_MAX));
    v.emplace_back("imin", Json(INT64_MIN));
    v.emplace_back("d1", Json(1.0)); v.emplace_back("d1.5", Json(1.5)); v.emplace_back("d-0", Json(-0.0)); v.emplace_back("dinf", Json(HUGE_VAL));
    v.emplace_back("h1", Json(jsoncons::half_arg, uint16_t(0x3c00))); v.emplace_back("h2", Json(jsoncons::half_arg, uint16_t(0x4000)));
    for (auto t : {semantic_tag::none, semantic_tag::bigint, semantic_tag::bigdec, semantic_tag::bigfloat, semantic_tag::datetime}) {
        std::string tn = std::to_string(int(t));
        v.emplace_back("s:1#" + tn, Json("1", t)); v.emplace_back("s:123#" + tn, Json("123", t));
        // text that is not a number is only well-typed without a number tag
        if (t == semantic_tag::none || t == semantic_tag::datetime) v.emplace_back("s:abc#" + tn, Json("abc", t));
        v.emplace_back("S:long#" + tn, Json("12345678901234567890123456", t));
    }
    v.emplace_back("s:", Json(""));
    v.emplace_back("b:0102", Json(jsoncons::byte_string_arg, std::vector<uint8_t>{1, 2}));
    v.emplace_back("b:0102x7", Json(jsoncons::byte_string_arg, std::vector<uint8_t>{1, 2}, uint64_t(7)));
    v.emplace_back("b:0102#b64", Json(jsoncons::byte_string_arg, std::vector<uint8_t>{1, 2}, semantic_tag::base64));
    v.emplace_back("b:", Json(jsoncons::byte_string_arg, std::vector<uint8_t>{}));
    v.emplace_back("{}e", Json()); v.emplace_back("{}o", Json(jsoncons::json_object_arg));
    { Json o; o.insert_or_assign("a", 1); v.emplace_back("{a:1}", o); }
    { Json o; o.insert_or_assign("a", 2); v.emplace_back("{a:2}", o); }
    { Json o; o.insert_or_assign("a", 1); o.insert_or_assign("b", 1); v.emplace_back("{a:1,b:1}", o); }
    { Json o; o.insert_or_assign("b", 1); o.insert_or_assign("a", 1); v.emplace_back("{b:1,a:1}", o); }
    v.emplace_back("[]", Json(jsoncons::json_array_arg));
    { Json a(jsoncons::json_array_arg); a.push_back(1); v.emplace_back("[1]", a); }
    { Json a(jsoncons::json_array_arg); a.push_back(1); a.push_back(2); v.emplace_back("[1,2]", a); }
    { Json a(jsoncons::json_array_arg); a.push_back(1.0); v.emplace_back("[1.0]", a); }
    // reference wrappers of each of the above
    size_t n = v.size();
    for (size_t i = 0; i < n; ++i) keep.emplace_back(new Json(v[i].second));
    for (size_t i = 0; i < n; ++i) {
        v.emplace_back("cref(" + v[i].first + ")", Json(jsoncons::json_const_pointer_arg, keep[i].get()));
        if (i % 3 == 0) v.emplace_back("ref(" + v[i].first + ")", Json(jsoncons::json_pointer_arg, keep[i].get()));
    }
    return v;
}

static int sgn(int c) { return c < 0 ? -1 : (c > 0 ? 1 : 0); }

template <class Json>
static void check_pair(const char* tname, const std::vector<std::pair<std::string, Json>>& V, size_t i, size_t j) {
    const Json& a = V[i].second; const Json& b = V[j].second;
    std::string sig = std::string("R|") + tname + "|" + std::to_string(i) + "|" + std::to_string(j);
    std::string who = std::string(tname) + " a=" + V[i].first + " b=" + V[j].first + " :: ";
    out().count("evaluations");
    int cab = a.compare(b), cba = b.compare(a);
    if (sgn(cab) != -sgn(cba)) { out().viol(sig + "|antisym", who + "compare(a,b)=" + std::to_string(cab) + " but compare(b,a)=" + std::to_string(cba)); }
    bool eq = (a == b), eqr = (b == a);
    if (eq != eqr) out().viol(sig + "|eqsym", who + "a==b is " + std::to_string(eq) + " but b==a is " + std::to_string(eqr));
    if (eq != (cab == 0)) out().viol(sig + "|eq-vs-compare", who + "a==b is " + std::to_string(eq) + " but compare(a,b)=" + std::to_string(cab));
    if ((a != b) == eq) out().viol(sig + "|ne", who + "a!=b inconsistent with a==b");
    if ((a < b) != (cab < 0)) out().viol(sig + "|lt", who + "a<b inconsistent with compare=" + std::to_string(cab));
    if ((a <= b) != (cab <= 0)) out().viol(sig + "|le", who + "a<=b inconsistent with compare=" + std::to_string(cab));
    if ((a > b) != (cab > 0)) out().viol(sig + "|gt", who + "a>b inconsistent with compare=" + std::to_string(cab));
    if ((a >= b) != (cab >= 0)) out().viol(sig + "|ge", who + "a>=b inconsistent with compare=" + std::to_string(cab));
    if (i == j) {
        Json c(a);
        if (!(c == a) || !(a == c)) out().viol(sig + "|refl", who + "a deep copy does not compare equal to the original");
    }
    if (eq && IsSorted<Json>::value) {
        MV ma = to_mv(a), mb = to_mv(b);
        MVCmp strict; strict.nan_equal = false;
        // identical kinds and tags => identical serialisation
        if (mv_text(ma) == mv_text(mb)) { std::string sa, sb; a.dump(sa); b.dump(sb); if (sa != sb) out().viol(sig + "|dump", who + "equal values of identical kinds print differently: " + sa + " vs " + sb); }
    }
    if (eq) out().count("nontrivial");
    out().cls(std::string(eq ? "eq" : (cab < 0 ? "lt" : "gt")));
}

template <class Json>
static void run_pairs(const char* tname, int slice, int nslices) {
    std::vector<std::unique_ptr<Json>> keep;
    auto V = value_alphabet<Json>(keep);
    // one forked child per left operand: a sanitizer abort (e.g. __builtin_unreachable) becomes a violation, not a harness crash
    for (size_t i = 0; i < V.size(); ++i) {
        if ((int)(i % nslices) != slice) continue;
        fflush(stdout);
        pid_t pid = fork();
        if (pid == 0) { for (size_t j = 0; j < V.size(); ++j) check_pair(tname, V, i, j); out().flush(); _exit(0); }
        int st = 0; waitpid(pid, &st, 0);
        if (!WIFEXITED(st) || WEXITSTATUS(st) != 0) {
            // find the crashing pairs one by one
            for (size_t j = 0; j < V.size(); ++j) {
                fflush(stdout);
                pid_t p2 = fork();
                if (p2 == 0) { int fd = open("/dev/null", 1); dup2(fd, 1); dup2(fd, 2); check_pair(tname, V, i, j); _exit(0); }
                int s2 = 0; waitpid(p2, &s2, 0);
                if (!WIFEXITED(s2) || WEXITSTATUS(s2) != 0)
                    out().viol(std::string("R|") + tname + "|" + std::to_string(i) + "|" + std::to_string(j) + "|crash", std::string(tname) + " a=" + V[i].first + " b=" + V[j].first + " :: comparing them aborts the process (sanitizer report / unreachable code)");
                else { pid_t p3 = fork(); if (p3 == 0) { check_pair(tname, V, i, j); out().flush(); _exit(0); } waitpid(p3, &s2, 0); }
            }
        }
    }
    if (slice == 0) out().gauge("value_alphabet_size", (long long)V.size());
}

// ---------------------------------------------------------------------------
// (3) is<T>() => as<T>() exact
template <class T> static bool exact_eq(T got, long double want) { return (long double)got == want; }

template <class Json, class T>
static void check_is_as(const char* tname, const char* Tn, const Json& j, long double stored, const std::string& desc) {
    out().count("evaluations");
    bool is = j.template is<T>();
    if (is) {
        out().count("nontrivial");
        T got = j.template as<T>();
        if (!((long double)got == stored)) out().viol(std::string("N|") + tname + "|" + Tn + "|" + desc, std::string(tname) + " value " + desc + " is<" + Tn + ">() is true but as<" + Tn + ">() returns a different number");
    } else {
        // is<T>() must be true whenever the stored number is representable in an integral T of the same signedness class ... not demanded by the statement: only the converse is checked
    }
    out().cls(std::string("is:") + (is ? "1" : "0"));
}
template <class Json>
static void run_is_as(const char* tname) {
    std::vector<std::pair<Json, long double>> vals; std::vector<std::string> desc;
    std::vector<int64_t> is = {INT64_MIN, INT64_MIN + 1, -4294967297LL, -4294967296LL, -2147483649LL, -2147483648LL, -65537, -65536, -32769, -32768, -129, -128, -1, 0, 1, 127, 128, 255, 256, 32767, 32768, 65535, 65536,
                               2147483647LL, 2147483648LL, 4294967295LL, 4294967296LL, 9007199254740992LL, 9007199254740993LL, INT64_MAX};
    for (auto v : is) { vals.emplace_back(Json(v), (long double)v); desc.push_back("int64:" + std::to_string(v)); }
    std::vector<uint64_t> us = {0, 1, 127, 128, 255, 256, 32767, 32768, 65535, 65536, 2147483647ULL, 2147483648ULL, 4294967295ULL, 4294967296ULL, 9007199254740993ULL, 9223372036854775807ULL, 9223372036854775808ULL, UINT64_MAX};
    for (auto v : us) { vals.emplace_back(Json(v), (long double)v); desc.push_back("uint64:" + std::to_string(v)); }
    std::vector<double> ds = {0.0, -0.0, 1.0, -1.0, 1.5, 255.0, 256.0, 2147483648.0, 9007199254740992.0, 9223372036854775808.0, 18446744073709551616.0, 1e300, -1e300, 3.4028234663852886e38, 1e39};
    for (auto v : ds) { vals.emplace_back(Json(v), (long double)v); char b[40]; snprintf(b, sizeof b, "double:%.17g", v); desc.push_back(b); }
    for (uint16_t h : {uint16_t(0x3c00), uint16_t(0xc000), uint16_t(0x7bff), uint16_t(0x0001)}) { Json j(jsoncons::half_arg, h); vals.emplace_back(j, (long double)jsoncons::binary::decode_half(h)); char b[20]; snprintf(b, sizeof b, "half:%04x", h); desc.push_back(b); }
    for (size_t i = 0; i < vals.size(); ++i) {
        const Json& j = vals[i].first; long double s = vals[i].second; const std::string& d = desc[i];
        check_is_as<Json, int8_t>(tname, "int8_t", j, s, d); check_is_as<Json, uint8_t>(tname, "uint8_t", j, s, d);
        check_is_as<Json, int16_t>(tname, "int16_t", j, s, d); check_is_as<Json, uint16_t>(tname, "uint16_t", j, s, d);
        check_is_as<Json, int32_t>(tname, "int32_t", j, s, d); check_is_as<Json, uint32_t>(tname, "uint32_t", j, s, d);
        check_is_as<Json, int64_t>(tname, "int64_t", j, s, d); check_is_as<Json, uint64_t>(tname, "uint64_t", j, s, d);
        check_is_as<Json, long long>(tname, "long long", j, s, d); check_is_as<Json, unsigned long long>(tname, "unsigned long long", j, s, d);
        // is<float>() is documented as "holds a floating-point number"; narrowing a double that float cannot represent
        // is not judged (abstained), values float represents exactly are
        if ((long double)(float)s == s) check_is_as<Json, float>(tname, "float", j, s, d); else out().count("abstained_float_narrowing");
        check_is_as<Json, double>(tname, "double", j, s, d);
    }
}



// Objects of up to 40 members (beyond the sizes at which sorting, de-duplication and lookup change strategy): range insert,
// merge, merge_or_update, insert_or_assign, try_emplace and erase against a map model (existing members and the first of
// duplicate names win where the operation says so)
template <class Json>
static void run_wide(const char* tname, int slice, int nslices) {
    long long idx = 0, done = 0;
    auto key = [](int i) { char b[8]; snprintf(b, sizeof b, "k%02d", i); return std::string(b); };
    for (int n = 0; n <= 40; ++n) for (int order = 0; order < 3; ++order) for (int p = 0; p < (n ? n : 1); p += (n > 12 ? 3 : 1)) for (int op = 0; op < 6; ++op) {
        if ((int)(idx++ % nslices) != slice) continue;
        Json x(jsoncons::json_object_arg); MV mx = MV::obj();
        for (int i = 0; i < n; ++i) { int k = order == 0 ? i : (order == 1 ? n - 1 - i : (int)((i * 7LL + 3) % n)); if (order == 2 && n % 7 == 0) k = i; x.try_emplace(key(k), i); m_insert_new<Json>(mx, key(k), MV::int64(i)); }
        std::string kp = key(n ? p : 0), kq = key(n ? (p * 5 + 1) % n : 1), knew = "new", knew2 = "k99";
        std::string path = std::string("wide n=") + std::to_string(n) + " order=" + std::to_string(order) + " p=" + std::to_string(p) + " op=" + std::to_string(op);
        g_fail.clear();
        try {
            if (op == 0) {          // range insert: existing members win, the first of repeated names wins
                std::vector<std::pair<std::string, Json>> src{{kp, Json("n1")}, {knew, Json("x")}, {knew, Json("y")}, {kq, Json("n2")}, {knew2, Json(7)}, {knew2, Json(8)}};
                for (auto& kv : src) if (!m_find<Json>(mx, kv.first)) m_insert_new<Json>(mx, kv.first, to_mv(kv.second));
                x.insert(src.begin(), src.end());
            } else if (op == 1 || op == 2) {   // merge / merge_or_update with an object holding old and new names
                Json y(jsoncons::json_object_arg); y.try_emplace(kq, "m2"); y.try_emplace(knew, "x"); y.try_emplace(kp, "m1"); y.try_emplace(knew2, 7);
                MV my = to_mv(y);
                for (auto& kv : my.o) { MV* e = m_find<Json>(mx, kv.first); if (!e) m_insert_new<Json>(mx, kv.first, kv.second); else if (op == 2) *e = kv.second; }
                if (op == 1) x.merge(y); else x.merge_or_update(y);
            } else if (op == 3) {   // insert_or_assign / try_emplace on old and new names
                for (auto& k : {kp, knew, kq, knew}) { MV* e = m_find<Json>(mx, k); if (e) *e = MV::str("a"); else m_insert_new<Json>(mx, k, MV::str("a")); x.insert_or_assign(k, "a"); }
                for (auto& k : {kp, knew2}) { if (!m_find<Json>(mx, k)) m_insert_new<Json>(mx, k, MV::str("t")); x.try_emplace(k, "t"); }
            } else if (op == 4) {   // erase by name, by iterator and by range
                if (n >= 1) { for (size_t i = 0; i < mx.o.size(); ++i) if (mx.o[i].first == kp) { mx.o.erase(mx.o.begin() + i); break; } x.erase(kp); }
                if (mx.o.size() >= 3) { mx.o.erase(mx.o.begin() + 1); x.erase(x.object_range().begin() + 1); size_t m = mx.o.size(); mx.o.erase(mx.o.begin() + m / 2, mx.o.end()); x.erase(x.object_range().begin() + m / 2, x.object_range().end()); }
            } else {                // copy, compare and look up at this size
                Json c(x); if (!(c == x) || c != x || c < x || x < c) { g_fail = "a copy does not compare equal"; }
                Json y2 = x; y2.insert_or_assign(knew, 1); if (y2 == x || !(y2 != x) || ((y2 < x) == (x < y2))) { if (g_fail.empty()) g_fail = "values differing in one member compare equal or unordered"; }
            }
        } catch (const std::exception& e) { g_fail = std::string("threw ") + e.what(); }
        if (g_fail.empty()) probe(x, mx, "x");
        std::string santext; if (san().dirty(santext)) g_fail = "sanitizer report: " + santext;
        if (!g_fail.empty()) out().viol(std::string("W|") + tname + "|" + std::to_string(n) + "|" + std::to_string(order) + "|" + std::to_string(p) + "|" + std::to_string(op), std::string(tname) + " " + path + " :: " + g_fail);
        else ++done;
    }
    out().count("evaluations", done); out().count("nontrivial", done); out().count("states", done); out().count("transitions", done); out().count("traces_validated", done);
    out().cls("wide");
}

int main(int argc, char** argv) {
    Args a(argc, argv);
    san().init();
    if (a.replay) {
        auto p = split(a.sig, '|');
        if (p.size() >= 3 && p[0] == "W") { if (p[1] == "json") run_wide<json>("json", 0, 1); else run_wide<ojson>("ojson", 0, 1); }
        else if (p.size() >= 3 && p[0] == "S") { if (p[1] == "json") replay_history<json>("json", unhex(p[2])); else replay_history<ojson>("ojson", unhex(p[2])); }
        else if (p.size() >= 4 && p[0] == "R") {
            size_t i = atoll(p[2].c_str()), j = atoll(p[3].c_str());
            fflush(stdout);
            pid_t pid = fork();
            if (pid == 0) {
                if (p[1] == "json") { std::vector<std::unique_ptr<json>> keep; auto V = value_alphabet<json>(keep); if (i < V.size() && j < V.size()) check_pair("json", V, i, j); }
                else { std::vector<std::unique_ptr<ojson>> keep; auto V = value_alphabet<ojson>(keep); if (i < V.size() && j < V.size()) check_pair("ojson", V, i, j); }
                out().flush(); _exit(0);
            }
            int st = 0; waitpid(pid, &st, 0);
            if (!WIFEXITED(st) || WEXITSTATUS(st) != 0) printf("V\t%s\tcomparing them aborts the process\n", (std::string("R|") + p[1] + "|" + p[2] + "|" + p[3] + "|crash").c_str());
            return 0;
        }
        else if (p.size() >= 4 && p[0] == "N") { if (p[1] == "json") run_is_as<json>("json"); else run_is_as<ojson>("ojson"); }
        out().flush(); return 0;
    }
    std::string mode = a.a.empty() ? "" : a.a[0];
    if (mode == "wide") { run_wide<json>("json", a.slice, a.nslices); run_wide<ojson>("ojson", a.slice, a.nslices); }
    else if (mode == "bfs") { int d = (int)a.geti("depth", 3); if (a.get("type", "json") == "json") run_bfs<json>("json", d, a.slice, a.nslices); else run_bfs<ojson>("ojson", d, a.slice, a.nslices); }
    else if (mode == "pairs") { run_pairs<json>("json", a.slice, a.nslices); run_pairs<ojson>("ojson", a.slice, a.nslices); }
    else if (mode == "isas") { if (a.slice == 0) { run_is_as<json>("json"); run_is_as<ojson>("ojson"); } }
    out().flush();
    return 0;
}
