// C10 — resource limits hold against hostile input.
//   depth : every decoder/encoder x container shape x limit L x depth in {L-1, L, L+1}
//   items : UBJSON max_items, counts {m-1, m, m+1} per header kind
//   stack : depth-1024 values parsed/copied/compared/dumped/destroyed, depth 1e5/1e6 parsed+destroyed, on a 512 KiB stack
//   mem   : length-claiming headers x claimed n x trailing bytes x source kinds; peak live heap bytes must not follow the claim
// Built -O2 without sanitizers (stack and allocation numbers are those of a normal build).
#include "mv.hpp"
#include <jsoncons/json.hpp>
#include <jsoncons_ext/cbor/cbor.hpp>
#include <jsoncons_ext/msgpack/msgpack.hpp>
#include <jsoncons_ext/ubjson/ubjson.hpp>
#include <jsoncons_ext/bson/bson.hpp>
#include <jsoncons_ext/csv/csv.hpp>
#include <jsoncons_ext/toon/toon.hpp>
#include <jsoncons_ext/toon/decode_toon.hpp>
#include <jsoncons_ext/toon/toon_error.hpp>
#include <sstream>
#include <atomic>
#include <new>
#include <pthread.h>
#include <sys/mman.h>
#include <sys/wait.h>

using namespace vf;
using jsoncons::json; using jsoncons::ojson;
typedef std::vector<uint8_t> Bytes;

// ---- allocation meter -----------------------------------------------------------------------
static thread_local long long g_live = 0, g_peak = 0; static thread_local bool g_meter = false;
static void* vf_alloc(size_t n) {
    size_t* p = (size_t*)malloc(n + 16); if (!p) throw std::bad_alloc();
    p[0] = n; if (g_meter) { g_live += (long long)n; if (g_live > g_peak) g_peak = g_live; }
    return (char*)p + 16;
}
static void vf_free(void* q) { if (!q) return; size_t* p = (size_t*)((char*)q - 16); if (g_meter) g_live -= (long long)p[0]; free(p); }
void* operator new(size_t n) { return vf_alloc(n); }
void* operator new[](size_t n) { return vf_alloc(n); }
void operator delete(void* p) noexcept { vf_free(p); }
void operator delete[](void* p) noexcept { vf_free(p); }
void operator delete(void* p, size_t) noexcept { vf_free(p); }
void operator delete[](void* p, size_t) noexcept { vf_free(p); }

static long long g_eval = 0, g_nontrivial = 0;

// ---- nested inputs ---------------------------------------------------------------------------
static void put(Bytes& b, std::initializer_list<int> l) { for (int x : l) b.push_back(uint8_t(x)); }
static void rep(Bytes& b, std::initializer_list<int> l, int n) { for (int i = 0; i < n; ++i) put(b, l); }
static Bytes S(const std::string& s) { return Bytes(s.begin(), s.end()); }

struct Shape { std::string fmt, name; std::function<Bytes(int)> build; };

// mode 0: documents only; 1: the deepest container is a document, arrays and documents alternate above it;
// 2: the deepest container is an array, alternating above; 3: arrays only (below the root document)
static Bytes bson_nest(int d, int mode) {
    // innermost: empty document / empty array (same bytes)
    Bytes inner = {5, 0, 0, 0, 0};
    for (int i = 1; i < d; ++i) {
        Bytes outer; uint32_t len = 4 + 1 + 2 + (uint32_t)inner.size() + 1;
        for (int k = 0; k < 4; ++k) outer.push_back(uint8_t(len >> (8 * k)));
        bool inner_is_array = mode == 3 || (mode == 1 && i % 2 == 0) || (mode == 2 && i % 2 == 1);
        outer.push_back(inner_is_array ? 0x04 : 0x03); outer.push_back(inner_is_array ? '0' : 'a'); outer.push_back(0);
        outer.insert(outer.end(), inner.begin(), inner.end()); outer.push_back(0);
        inner.swap(outer);
    }
    return inner;
}
static std::string toon_nest(int d) {   // a: / a: / ... leaf   (d nested objects)
    std::string s;
    for (int i = 0; i < d; ++i) { s += std::string(2 * i, ' '); s += (i + 1 < d) ? "a:\n" : "a: 1\n"; }
    return s;
}

static std::vector<Shape> shapes() {
    std::vector<Shape> v;
    v.push_back({"json", "array", [](int d) { return S(std::string(d, '[') + std::string(d, ']')); }});
    v.push_back({"json", "object", [](int d) { std::string s; for (int i = 0; i < d; ++i) s += "{\"a\":"; s += "1"; s += std::string(d, '}'); return S(s); }});
    v.push_back({"json", "mixed", [](int d) { std::string s, e; for (int i = 0; i < d; ++i) { if (i % 2) { s += "{\"a\":"; e = "}" + e; } else { s += "["; e = "]" + e; } } return S(s + (d % 2 ? "" : "1") + e); }});
    v.push_back({"cbor", "array", [](int d) { Bytes b; rep(b, {0x81}, d - 1); put(b, {0x80}); return b; }});
    v.push_back({"cbor", "array-indef", [](int d) { Bytes b; rep(b, {0x9f}, d); rep(b, {0xff}, d); return b; }});
    v.push_back({"cbor", "map", [](int d) { Bytes b; rep(b, {0xa1, 0x61, 0x61}, d - 1); put(b, {0xa0}); return b; }});
    v.push_back({"cbor", "map-indef", [](int d) { Bytes b; rep(b, {0xbf, 0x61, 0x61}, d - 1); put(b, {0xbf}); rep(b, {0xff}, d); return b; }});
    v.push_back({"cbor", "tagged-array", [](int d) { Bytes b; rep(b, {0xc6, 0x81}, d - 1); put(b, {0xc6, 0x80}); return b; }});
    v.push_back({"cbor", "array16", [](int d) { Bytes b; rep(b, {0x99, 0x00, 0x01}, d - 1); put(b, {0x80}); return b; }});
    v.push_back({"msgpack", "array", [](int d) { Bytes b; rep(b, {0x91}, d - 1); put(b, {0x90}); return b; }});
    v.push_back({"msgpack", "map", [](int d) { Bytes b; rep(b, {0x81, 0xa1, 0x61}, d - 1); put(b, {0x80}); return b; }});
    v.push_back({"msgpack", "array16", [](int d) { Bytes b; rep(b, {0xdc, 0x00, 0x01}, d - 1); put(b, {0x90}); return b; }});
    v.push_back({"msgpack", "map32", [](int d) { Bytes b; rep(b, {0xdf, 0, 0, 0, 1, 0xa1, 0x61}, d - 1); put(b, {0x80}); return b; }});
    v.push_back({"ubjson", "array", [](int d) { Bytes b; rep(b, {'['}, d); rep(b, {']'}, d); return b; }});
    v.push_back({"ubjson", "object", [](int d) { Bytes b; rep(b, {'{', 'i', 1, 'a'}, d - 1); put(b, {'{'}); rep(b, {'}'}, d); return b; }});
    v.push_back({"ubjson", "array-counted", [](int d) { Bytes b; rep(b, {'[', '#', 'i', 1}, d - 1); put(b, {'[', '#', 'i', 0}); return b; }});
    v.push_back({"ubjson", "object-counted", [](int d) { Bytes b; rep(b, {'{', '#', 'i', 1, 'i', 1, 'a'}, d - 1); put(b, {'{', '#', 'i', 0}); return b; }});
    v.push_back({"bson", "document", [](int d) { return bson_nest(d, 0); }});
    v.push_back({"bson", "doc-array", [](int d) { return bson_nest(d, 1); }});
    v.push_back({"bson", "array-deepest", [](int d) { return bson_nest(d, 2); }});
    v.push_back({"bson", "arrays", [](int d) { return bson_nest(d, 3); }});
    // a typed array (and a multi-dimensional array) is an array too: d-1 plain arrays around it make d levels
    v.push_back({"cbor", "typed-array-innermost", [](int d) { Bytes b; rep(b, {0x81}, d - 1); put(b, {0xd8, 0x40, 0x41, 0x07}); return b; }});
    v.push_back({"cbor", "typed-array-f64-in-map", [](int d) { Bytes b; rep(b, {0xa1, 0x61, 0x61}, d - 1); put(b, {0xd8, 0x56, 0x48, 0, 0, 0, 0, 0, 0, 0, 0}); return b; }});
    // arrays and maps alternating; phase p: the level i (0 = outermost) is an array when (i + p) is even.  Over d = L-1, L, L+1
    // and both phases each container kind is met as the deepest one, at the limit and one beyond it
    for (int p = 0; p < 2; ++p) {
        std::string pn = p ? "mixed-map-first" : "mixed-array-first";
        v.push_back({"cbor", pn, [p](int d) { Bytes b; for (int i = 0; i < d; ++i) { bool arr = (i + p) % 2 == 0, last = i + 1 == d; if (arr) put(b, {last ? 0x80 : 0x81}); else if (last) put(b, {0xa0}); else put(b, {0xa1, 0x61, 0x61}); } return b; }});
        v.push_back({"cbor", pn + "-indef", [p](int d) { Bytes b; for (int i = 0; i < d; ++i) { bool arr = (i + p) % 2 == 0, last = i + 1 == d; if (arr) put(b, {0x9f}); else if (last) put(b, {0xbf}); else put(b, {0xbf, 0x61, 0x61}); } rep(b, {0xff}, d); return b; }});
        v.push_back({"msgpack", pn, [p](int d) { Bytes b; for (int i = 0; i < d; ++i) { bool arr = (i + p) % 2 == 0, last = i + 1 == d; if (arr) put(b, {last ? 0x90 : 0x91}); else if (last) put(b, {0x80}); else put(b, {0x81, 0xa1, 0x61}); } return b; }});
        v.push_back({"ubjson", pn, [p](int d) { Bytes b, e; for (int i = 0; i < d; ++i) { bool arr = (i + p) % 2 == 0, last = i + 1 == d; if (arr) { put(b, {'['}); e.insert(e.begin(), ']'); } else { if (last) put(b, {'{'}); else put(b, {'{', 'i', 1, 'a'}); e.insert(e.begin(), '}'); } } b.insert(b.end(), e.begin(), e.end()); return b; }});
        v.push_back({"json", p ? "mixed-object-first" : "mixed-array-first", [p](int d) { std::string s, e; for (int i = 0; i < d; ++i) { bool arr = (i + p) % 2 == 0, last = i + 1 == d; if (arr) { s += "["; e = "]" + e; } else { s += last ? "{" : "{\"a\":"; e = "}" + e; } } return S(s + e); }});
    }
    v.push_back({"toon", "object", [](int d) { return S(toon_nest(d)); }});
    return v;
}

struct Res { bool ok = false; bool depth_err = false; std::string err; };

static Res decode(const std::string& fmt, const Bytes& b, int limit, int source /*0 bytes,1 stream,2 iter*/) {
    Res r;
    try {
        std::string text(b.begin(), b.end());
        std::istringstream is(text);
        if (fmt == "json") { jsoncons::json_options o; o.max_nesting_depth(limit); json j = source == 0 ? json::parse(text, o) : (source == 1 ? json::parse(is, o) : json::parse(text.begin(), text.end(), o)); r.ok = true; }
        else if (fmt == "cbor") { jsoncons::cbor::cbor_options o; o.max_nesting_depth(limit); json j = source == 0 ? jsoncons::cbor::decode_cbor<json>(b, o) : (source == 1 ? jsoncons::cbor::decode_cbor<json>(is, o) : jsoncons::cbor::decode_cbor<json>(b.begin(), b.end(), o)); r.ok = true; }
        else if (fmt == "msgpack") { jsoncons::msgpack::msgpack_options o; o.max_nesting_depth(limit); json j = source == 0 ? jsoncons::msgpack::decode_msgpack<json>(b, o) : (source == 1 ? jsoncons::msgpack::decode_msgpack<json>(is, o) : jsoncons::msgpack::decode_msgpack<json>(b.begin(), b.end(), o)); r.ok = true; }
        else if (fmt == "ubjson") { jsoncons::ubjson::ubjson_options o; o.max_nesting_depth(limit); json j = source == 0 ? jsoncons::ubjson::decode_ubjson<json>(b, o) : (source == 1 ? jsoncons::ubjson::decode_ubjson<json>(is, o) : jsoncons::ubjson::decode_ubjson<json>(b.begin(), b.end(), o)); r.ok = true; }
        else if (fmt == "bson") { jsoncons::bson::bson_options o; o.max_nesting_depth(limit); json j = source == 0 ? jsoncons::bson::decode_bson<json>(b, o) : (source == 1 ? jsoncons::bson::decode_bson<json>(is, o) : jsoncons::bson::decode_bson<json>(b.begin(), b.end(), o)); r.ok = true; }
        else if (fmt == "toon") { jsoncons::toon::toon_options o; o.max_nesting_depth(limit); json j = source == 1 ? jsoncons::toon::decode_toon<json>(is, o) : jsoncons::toon::decode_toon<json>(text, o); r.ok = true; }
    } catch (const jsoncons::ser_error& e) {
        r.err = e.code().message();
        r.depth_err = e.code() == jsoncons::json_errc::max_nesting_depth_exceeded || e.code() == jsoncons::cbor::cbor_errc::max_nesting_depth_exceeded ||
                      e.code() == jsoncons::msgpack::msgpack_errc::max_nesting_depth_exceeded || e.code() == jsoncons::ubjson::ubjson_errc::max_nesting_depth_exceeded ||
                      e.code() == jsoncons::bson::bson_errc::max_nesting_depth_exceeded || e.code() == jsoncons::toon::toon_errc::max_nesting_depth_exceeded;
    } catch (const std::exception& e) { r.err = std::string("EXC:") + e.what(); }
    return r;
}

static json nested_value(int d, int kind /*0 arrays,1 objects,2 mixed*/) {
    json cur = (kind == 1) ? json(jsoncons::json_object_arg) : json(jsoncons::json_array_arg);   // depth 1
    for (int i = 1; i < d; ++i) {
        bool obj = kind == 1 || (kind == 2 && i % 2 == 1);
        if (obj) { json o(jsoncons::json_object_arg); o.try_emplace("a", std::move(cur)); cur = std::move(o); }
        else { json a(jsoncons::json_array_arg); a.push_back(std::move(cur)); cur = std::move(a); }
    }
    return cur;
}
static Res encode(const std::string& fmt, const json& j, int limit) {
    Res r;
    try {
        if (fmt == "json") { jsoncons::json_options o; o.max_nesting_depth(limit); std::string s; j.dump(s, o); r.ok = true; }
        else if (fmt == "json-pretty") { jsoncons::json_options o; o.max_nesting_depth(limit); std::string s; j.dump_pretty(s, o); r.ok = true; }
        else if (fmt == "cbor") { jsoncons::cbor::cbor_options o; o.max_nesting_depth(limit); Bytes b; jsoncons::cbor::encode_cbor(j, b, o); r.ok = true; }
        else if (fmt == "msgpack") { jsoncons::msgpack::msgpack_options o; o.max_nesting_depth(limit); Bytes b; jsoncons::msgpack::encode_msgpack(j, b, o); r.ok = true; }
        else if (fmt == "ubjson") { jsoncons::ubjson::ubjson_options o; o.max_nesting_depth(limit); Bytes b; jsoncons::ubjson::encode_ubjson(j, b, o); r.ok = true; }
        else if (fmt == "bson") { jsoncons::bson::bson_options o; o.max_nesting_depth(limit); Bytes b; jsoncons::bson::encode_bson(j, b, o); r.ok = true; }
    } catch (const jsoncons::ser_error& e) {
        r.err = e.code().message();
        r.depth_err = e.code() == jsoncons::json_errc::max_nesting_depth_exceeded || e.code() == jsoncons::cbor::cbor_errc::max_nesting_depth_exceeded ||
                      e.code() == jsoncons::msgpack::msgpack_errc::max_nesting_depth_exceeded || e.code() == jsoncons::ubjson::ubjson_errc::max_nesting_depth_exceeded ||
                      e.code() == jsoncons::bson::bson_errc::max_nesting_depth_exceeded;
    } catch (const std::exception& e) { r.err = std::string("EXC:") + e.what(); }
    return r;
}

static void depth_case(const Shape& sh, int L, int d, int src) {
    if (d < 1) return;
    ++g_eval;
    Bytes b = sh.build(d);
    Res r = decode(sh.fmt, b, L, src);
    std::string sig = "DEP|dec|" + sh.fmt + "|" + sh.name + "|" + std::to_string(L) + "|" + std::to_string(d) + "|" + std::to_string(src);
    std::string what = sh.fmt + " decoder, shape " + sh.name + ", max_nesting_depth=" + std::to_string(L) + ", input nested " + std::to_string(d) + " deep, source " + std::to_string(src) + " :: ";
    if (d <= L) { if (!r.ok) out().viol(sig, what + "rejected although within the limit: " + r.err); else ++g_nontrivial; }
    else { if (r.ok) out().viol(sig, what + "accepted although deeper than the limit"); else if (!r.depth_err) out().viol(sig, what + "rejected with '" + r.err + "' instead of max_nesting_depth_exceeded"); }
    out().cls(std::string("dec:") + (r.ok ? "ok" : (r.depth_err ? "depth" : "other")));
    if ((g_eval % 97) == 1) out().sample(what + (r.ok ? "accepted" : "rejected: " + r.err));
}
static void enc_case(const std::string& fmt, int kind, int L, int d) {
    if (d < 1) return;
    if (fmt == "bson" && kind == 0) return;   // BSON root must be a document
    ++g_eval;
    json j = nested_value(d, kind);
    Res r = encode(fmt, j, L);
    std::string sig = "DEP|enc|" + fmt + "|" + std::to_string(kind) + "|" + std::to_string(L) + "|" + std::to_string(d);
    std::string what = fmt + " encoder, value kind " + std::to_string(kind) + ", max_nesting_depth=" + std::to_string(L) + ", value nested " + std::to_string(d) + " deep :: ";
    if (d <= L) { if (!r.ok) out().viol(sig, what + "refused although within the limit: " + r.err); else ++g_nontrivial; }
    else { if (r.ok) out().viol(sig, what + "wrote a value deeper than the limit"); else if (!r.depth_err) out().viol(sig, what + "failed with '" + r.err + "' instead of max_nesting_depth_exceeded"); }
    out().cls(std::string("enc:") + (r.ok ? "ok" : (r.depth_err ? "depth" : "other")));
    if ((g_eval % 97) == 1) out().sample(what + (r.ok ? "written" : "refused: " + r.err));
}

// ---- a reused cursor: after a parse that ended with containers open (truncated input, or input refused as too deep), reset(source)
// must give the limit back in full
template <class Cursor, class Options> static void reuse_case(const char* fmt, const Shape& sh, int L) {
    Options o; o.max_nesting_depth(L);
    auto drain = [](Cursor& c, std::error_code& ec) { int guard = 0; while (!ec && !c.done() && ++guard < 1000000) c.next(ec); };
    for (int bad = 0; bad < 2; ++bad) {
        ++g_eval;
        Bytes first = sh.build(bad ? L + 1 : L); if (!bad) first.resize(first.size() / 2 > 0 ? first.size() / 2 : 1);
        Bytes good = sh.build(L), deep = sh.build(L + 1);
        std::string sig = std::string("REU|") + fmt + "|" + sh.name + "|" + std::to_string(L) + "|" + std::to_string(bad);
        std::string what = std::string(fmt) + " cursor reused after " + (bad ? "an input refused as too deep" : "a truncated input") + ", shape " + sh.name + ", max_nesting_depth=" + std::to_string(L) + " :: ";
        try {
            std::error_code ec; Cursor c(first, o, ec); drain(c, ec);
            for (int round = 0; round < 3; ++round) {
                std::error_code e1; c.reset(good, e1); drain(c, e1);
                if (e1) { out().viol(sig, what + "input nested exactly to the limit is rejected after reset (round " + std::to_string(round) + "): " + e1.message()); return; }
                std::error_code e2; c.reset(deep, e2); drain(c, e2);
                if (!e2) { out().viol(sig, what + "input deeper than the limit is accepted after reset"); return; }
                std::error_code e3; c.reset(first, e3); drain(c, e3);
            }
            ++g_nontrivial;
        } catch (const std::exception& e) { out().viol(sig, what + "threw " + e.what()); }
        out().cls("reuse:ok");
    }
}
static void run_reuse(int slice, int nslices) {
    long long idx = 0;
    for (auto& sh : shapes()) for (int L : {1, 2, 3, 10, 64}) {
        if (sh.fmt == "json" || sh.fmt == "toon") continue;
        if ((int)(idx++ % nslices) != slice) continue;
        if (sh.fmt == "cbor") reuse_case<jsoncons::cbor::cbor_bytes_cursor, jsoncons::cbor::cbor_options>("cbor", sh, L);
        else if (sh.fmt == "msgpack") reuse_case<jsoncons::msgpack::msgpack_bytes_cursor, jsoncons::msgpack::msgpack_options>("msgpack", sh, L);
        else if (sh.fmt == "ubjson") reuse_case<jsoncons::ubjson::ubjson_bytes_cursor, jsoncons::ubjson::ubjson_options>("ubjson", sh, L);
        else if (sh.fmt == "bson") reuse_case<jsoncons::bson::bson_bytes_cursor, jsoncons::bson::bson_options>("bson", sh, L);
    }
}

static std::vector<int> limits(bool thorough) {
    std::vector<int> v;
    if (thorough) { for (int i = 1; i <= 300; ++i) v.push_back(i); for (int x : {1023, 1024, 1025, 5000, 20000, 50000}) v.push_back(x); }
    else v = {1, 2, 3, 10, 64, 65, 66, 1024};
    return v;
}
static void run_depth(bool thorough, int slice, int nslices) {
    auto sh = shapes(); auto Ls = limits(thorough);
    long long idx = 0;
    for (auto& s : sh) for (int L : Ls) {
        if (s.fmt == "toon" && L > 300) continue;
        if ((int)(idx++ % nslices) != slice) continue;
        for (int d : {L - 1, L, L + 1}) for (int src = 0; src < 3; ++src) { if (L > 2000 && src > 0) continue; depth_case(s, L, d, src); }
    }
    for (std::string fmt : {"json", "json-pretty", "cbor", "msgpack", "ubjson", "bson"}) for (int kind = 0; kind < 3; ++kind) for (int L : Ls) {
        if ((int)(idx++ % nslices) != slice) continue;
        for (int d : {L - 1, L, L + 1}) enc_case(fmt, kind, L, d);
    }
}

// ---- UBJSON max_items ------------------------------------------------------------------------
static void run_items(int slice) {
    if (slice != 0) return;
    for (int m : {1, 2, 3, 10, 100}) for (int cnt : {m - 1, m, m + 1}) {
        if (cnt < 0) continue;
        std::vector<std::pair<std::string, Bytes>> inputs;
        { Bytes b = {'[', '#', 'U', uint8_t(cnt)}; rep(b, {'Z'}, cnt); inputs.emplace_back("array-counted", b); }
        { Bytes b = {'[', '$', 'U', '#', 'U', uint8_t(cnt)}; rep(b, {7}, cnt); inputs.emplace_back("array-typed", b); }
        { Bytes b = {'{', '#', 'U', uint8_t(cnt)}; for (int i = 0; i < cnt; ++i) { put(b, {'U', 2, 'k', 'a' + i % 26}); b.back() = uint8_t('a' + i % 26); b[b.size() - 2] = uint8_t('a' + (i / 26) % 26); put(b, {'Z'}); } inputs.emplace_back("object-counted", b); }
        { Bytes b = {'{', '$', 'U', '#', 'U', uint8_t(cnt)}; for (int i = 0; i < cnt; ++i) { put(b, {'U', 2, 'a' + (i / 26) % 26, 'a' + i % 26, 7}); } inputs.emplace_back("object-typed", b); }
        { Bytes b = {'['}; rep(b, {'Z'}, cnt); put(b, {']'}); inputs.emplace_back("array-plain", b); }
        for (auto& in : inputs) {
            ++g_eval;
            jsoncons::ubjson::ubjson_options o; o.max_items(size_t(m));
            bool ok = false, items_err = false; std::string err;
            try { json j = jsoncons::ubjson::decode_ubjson<json>(in.second, o); ok = true; if (j.size() != (size_t)cnt) { out().viol("ITM|" + in.first + "|" + std::to_string(m) + "|" + std::to_string(cnt), "decoded container has " + std::to_string(j.size()) + " items, announced " + std::to_string(cnt)); } }
            catch (const jsoncons::ser_error& e) { err = e.code().message(); items_err = e.code() == jsoncons::ubjson::ubjson_errc::max_items_exceeded; }
            std::string sig = "ITM|" + in.first + "|" + std::to_string(m) + "|" + std::to_string(cnt);
            std::string what = "ubjson " + in.first + " with " + std::to_string(cnt) + " items, max_items=" + std::to_string(m) + " :: ";
            if (cnt <= m) { if (!ok) out().viol(sig, what + "refused although within the limit: " + err); else ++g_nontrivial; }
            else { if (ok) out().viol(sig, what + "accepted although it announces more than max_items"); else if (!items_err) out().viol(sig, what + "failed with '" + err + "' instead of max_items_exceeded"); }
            out().cls(std::string("items:") + (ok ? "ok" : (items_err ? "items" : "other")));
        }
    }
}

// ---- stack ---------------------------------------------------------------------------------------
static const size_t STACK_BYTES = 512 * 1024;
struct StackJob { std::function<void()> fn; };
static void* stack_thread(void* p) { ((StackJob*)p)->fn(); return nullptr; }
// runs fn on a thread with a painted 512 KiB stack inside a forked child; returns high-water mark in bytes, or -1 if the child died
static long long run_on_small_stack(const std::function<void()>& prepare_and_run) {
    int fds[2]; if (pipe(fds) != 0) return -2;
    fflush(stdout);
    pid_t pid = fork();
    if (pid == 0) {
        close(fds[0]);
        size_t page = 4096;
        char* mem = (char*)mmap(nullptr, STACK_BYTES + page, PROT_READ | PROT_WRITE, MAP_PRIVATE | MAP_ANONYMOUS, -1, 0);
        mprotect(mem, page, PROT_NONE);                      // guard page below the stack
        char* stack = mem + page;
        memset(stack, 0xA5, STACK_BYTES);
        pthread_attr_t at; pthread_attr_init(&at); pthread_attr_setstack(&at, stack, STACK_BYTES);
        StackJob job{prepare_and_run};
        pthread_t th; pthread_create(&th, &at, stack_thread, &job); pthread_join(th, nullptr);
        size_t untouched = 0; while (untouched < STACK_BYTES && (unsigned char)stack[untouched] == 0xA5) ++untouched;
        long long used = (long long)(STACK_BYTES - untouched);
        ssize_t w = write(fds[1], &used, sizeof used); (void)w;
        _exit(0);
    }
    close(fds[1]);
    long long used = -1; ssize_t n = read(fds[0], &used, sizeof used); close(fds[0]);
    int st = 0; waitpid(pid, &st, 0);
    if (n != (ssize_t)sizeof used || !WIFEXITED(st) || WEXITSTATUS(st) != 0) return -1;
    return used;
}

static void stack_case(const std::string& name, const std::function<void()>& fn) {
    ++g_eval;
    long long used = run_on_small_stack(fn);
    std::string sig = "STK|" + name;
    if (used < 0) out().viol(sig, name + " :: did not survive on a 512 KiB stack (process died: stack overflow)");
    else { ++g_nontrivial; out().gauge("stack_bytes_" + name, used); }
    out().cls(used < 0 ? "stack:died" : "stack:ok");
}

static void run_stack(int slice, int nslices) {
    int idx = 0;
    for (int kind = 0; kind < 3; ++kind) {
        std::string kn = kind == 0 ? "arrays" : (kind == 1 ? "objects" : "mixed");
        auto mine = [&]() { return (idx++ % nslices) == slice; };
        // the value is built iteratively on the (large) main stack of the child before the small-stack thread starts? no: everything inside fn runs on the small stack,
        // so values are built by parsing text (the parser is iterative)
        std::string text; { json v = nested_value(1024, kind); v.dump(text); }
        Bytes cb; { json v = nested_value(1024, kind); jsoncons::cbor::encode_cbor(v, cb); }
        if (mine()) stack_case("parse-destroy-1024-" + kn, [=] { json j = json::parse(text); });
        if (mine()) stack_case("copy-1024-" + kn, [=] { json j = json::parse(text); json c(j); json d; d = j; if (c.size() != j.size()) abort(); });
        if (mine()) stack_case("compare-1024-" + kn, [=] { json j = json::parse(text); json c = json::parse(text); if (!(j == c) || (j < c) || (j != c)) abort(); });
        if (mine()) stack_case("dump-1024-" + kn, [=] { json j = json::parse(text); std::string s; j.dump(s); if (s != text) abort(); });
        if (mine()) stack_case("dump_pretty-1024-" + kn, [=] { json j = json::parse(text); std::string s; j.dump_pretty(s); });
        if (mine()) stack_case("cbor-decode-encode-1024-" + kn, [=] { json j = jsoncons::cbor::decode_cbor<json>(cb); Bytes o; jsoncons::cbor::encode_cbor(j, o); if (o != cb) abort(); });
        if (mine()) stack_case("ojson-parse-copy-dump-1024-" + kn, [=] { ojson j = ojson::parse(text); ojson c(j); std::string s; c.dump(s); if (s != text) abort(); });
        if (mine()) stack_case("swap-move-1024-" + kn, [=] { json j = json::parse(text); json k = std::move(j); json l; l.swap(k); if (l.empty()) abort(); });
        if (mine()) stack_case("ojson-compare-1024-" + kn, [=] { ojson j = ojson::parse(text); ojson c = ojson::parse(text); if (!(j == c) || (j < c) || (j != c)) abort(); });
        if (mine()) stack_case("ojson-assign-swap-move-1024-" + kn, [=] { ojson j = ojson::parse(text); ojson d; d = j; ojson k = std::move(j); ojson l; l.swap(k); std::string s; l.dump_pretty(s); if (l.empty() || d.empty()) abort(); });
        if (mine()) stack_case("ojson-cbor-decode-encode-1024-" + kn, [=] { ojson j = jsoncons::cbor::decode_cbor<ojson>(cb); Bytes o; jsoncons::cbor::encode_cbor(j, o); if (o != cb) abort(); });
        for (int deep : {100000, 1000000}) {
            if (!mine()) continue;
            std::string t2; { std::string s, e; for (int i = 0; i < deep; ++i) { bool obj = kind == 1 || (kind == 2 && i % 2 == 1); if (obj) { s += "{\"a\":"; e.push_back('}'); } else { s += "["; e.push_back(']'); } } std::reverse(e.begin(), e.end()); t2 = s + ((kind == 1 || (kind == 2 && deep % 2 == 0)) ? "1" : "") + e; if (kind == 0) t2 = std::string(deep, '[') + std::string(deep, ']'); }
            stack_case("parse-destroy-" + std::to_string(deep) + "-" + kn, [=] { jsoncons::json_options o; o.max_nesting_depth(deep + 1); json j = json::parse(t2, o); });
            stack_case("ojson-parse-destroy-" + std::to_string(deep) + "-" + kn, [=] { jsoncons::json_options o; o.max_nesting_depth(deep + 1); ojson j = ojson::parse(t2, o); });
            if (deep == 100000) stack_case("move-assign-over-deep-" + std::to_string(deep) + "-" + kn, [=] { jsoncons::json_options o; o.max_nesting_depth(deep + 1); json j = json::parse(t2, o); j = json(1); ojson k = ojson::parse(t2, o); k = ojson(1); json a = json::parse(t2, o); a.clear(); });
        }
    }
}

// ---- memory ----------------------------------------------------------------------------------------
struct Claim { std::string fmt, name; std::function<Bytes(uint64_t)> build; int maxbits; };
static void be(Bytes& b, uint64_t n, int bytes) { for (int i = bytes - 1; i >= 0; --i) b.push_back(uint8_t(n >> (8 * i))); }
static void le32(Bytes& b, uint64_t n) { for (int i = 0; i < 4; ++i) b.push_back(uint8_t(n >> (8 * i))); }
static std::vector<Claim> claims() {
    std::vector<Claim> v;
    auto cb = [](int major, std::initializer_list<int> pre) { return [=](uint64_t n) { Bytes b; put(b, pre); b.push_back(uint8_t((major << 5) | 27)); be(b, n, 8); return b; }; };
    v.push_back({"cbor", "array64", cb(4, {}), 64}); v.push_back({"cbor", "map64", cb(5, {}), 64}); v.push_back({"cbor", "text64", cb(3, {}), 64}); v.push_back({"cbor", "bytes64", cb(2, {}), 64});
    v.push_back({"cbor", "typed-array-u8", cb(2, {0xd8, 0x40}), 64}); v.push_back({"cbor", "typed-array-f64", cb(2, {0xd8, 0x56}), 64}); v.push_back({"cbor", "bignum", cb(2, {0xc2}), 64});
    v.push_back({"cbor", "array32", [](uint64_t n) { Bytes b = {0x9a}; be(b, n, 4); return b; }, 32});
    v.push_back({"cbor", "multi-dim", [](uint64_t n) { Bytes b = {0xd8, 0x28, 0x82, 0x82, 0x1b}; be(b, n, 8); b.push_back(0x1b); be(b, n, 8); b.push_back(0x80); return b; }, 64});
    v.push_back({"cbor", "multi-dim-rank", [](uint64_t n) { Bytes b = {0xd8, 0x28, 0x82, 0x9b}; be(b, n, 8); return b; }, 64});
    v.push_back({"cbor", "multi-dim-rank-colmajor", [](uint64_t n) { Bytes b = {0xd9, 0x04, 0x10, 0x82, 0x9b}; be(b, n, 8); return b; }, 64});
    v.push_back({"cbor", "multi-dim-rank-then-dims", [](uint64_t n) { Bytes b = {0xd8, 0x28, 0x82, 0x9b}; be(b, n, 8); put(b, {0x02, 0x03}); return b; }, 64});
    v.push_back({"cbor", "array-in-array", [](uint64_t n) { Bytes b = {0x82, 0x01, 0x9b}; be(b, n, 8); return b; }, 64});
    // the same heads in every position a string or container can stand in
    v.push_back({"cbor", "text32", [](uint64_t n) { Bytes b = {0x7a}; be(b, n, 4); return b; }, 32}); v.push_back({"cbor", "bytes32", [](uint64_t n) { Bytes b = {0x5a}; be(b, n, 4); return b; }, 32}); v.push_back({"cbor", "map32", [](uint64_t n) { Bytes b = {0xba}; be(b, n, 4); return b; }, 32});
    v.push_back({"cbor", "text-chunk", cb(3, {0x7f}), 64}); v.push_back({"cbor", "bytes-chunk", cb(2, {0x5f}), 64});
    v.push_back({"cbor", "text-second-chunk", cb(3, {0x7f, 0x61, 0x61}), 64}); v.push_back({"cbor", "bytes-second-chunk", cb(2, {0x5f, 0x41, 0x61}), 64});
    v.push_back({"cbor", "text-chunk32", [](uint64_t n) { Bytes b = {0x7f, 0x7a}; be(b, n, 4); return b; }, 32});
    v.push_back({"cbor", "map-key-text", cb(3, {0xa1}), 64}); v.push_back({"cbor", "map-key-bytes", cb(2, {0xa1}), 64}); v.push_back({"cbor", "map-value-bytes", cb(2, {0xa1, 0x61, 0x61}), 64}); v.push_back({"cbor", "map-value-map", cb(5, {0xa1, 0x61, 0x61}), 64});
    v.push_back({"cbor", "text-in-indef-array", cb(3, {0x9f}), 64}); v.push_back({"cbor", "array-in-indef-array", cb(4, {0x9f}), 64}); v.push_back({"cbor", "map-in-indef-map", cb(5, {0xbf, 0x61, 0x61}), 64});
    v.push_back({"cbor", "negbignum", cb(2, {0xc3}), 64}); v.push_back({"cbor", "decfrac-mantissa", cb(2, {0xc4, 0x82, 0x00, 0xc2}), 64}); v.push_back({"cbor", "bigfloat-mantissa", cb(2, {0xc5, 0x82, 0x00, 0xc3}), 64});
    v.push_back({"cbor", "tagged-text", cb(3, {0xc0}), 64}); v.push_back({"cbor", "base64url-bytes", cb(2, {0xd5}), 64}); v.push_back({"cbor", "stringref-ns-text", cb(3, {0xd9, 0x01, 0x00, 0x82}), 64});
    for (int t = 0x40; t <= 0x57; ++t) { if (t == 0x40 || t == 0x56) continue; char nm[32]; snprintf(nm, sizeof nm, "typed-array-tag%02x", t); v.push_back({"cbor", nm, cb(2, {0xd8, t}), 64}); }
    v.push_back({"cbor", "typed-array-in-array", cb(2, {0x81, 0xd8, 0x45}), 64});
    auto mp = [](int code) { return [=](uint64_t n) { Bytes b = {uint8_t(code)}; be(b, n, 4); return b; }; };
    v.push_back({"msgpack", "array32", mp(0xdd), 32}); v.push_back({"msgpack", "map32", mp(0xdf), 32}); v.push_back({"msgpack", "str32", mp(0xdb), 32}); v.push_back({"msgpack", "bin32", mp(0xc6), 32});
    v.push_back({"msgpack", "ext32", [](uint64_t n) { Bytes b = {0xc9}; be(b, n, 4); b.push_back(5); return b; }, 32});
    v.push_back({"msgpack", "ext32-timestamp", [](uint64_t n) { Bytes b = {0xc9}; be(b, n, 4); b.push_back(0xff); return b; }, 32});
    auto mpin = [](std::initializer_list<int> pre, int code) { return [=](uint64_t n) { Bytes b; put(b, pre); b.push_back(uint8_t(code)); be(b, n, 4); return b; }; };
    v.push_back({"msgpack", "str32-in-array", mpin({0x91}, 0xdb), 32}); v.push_back({"msgpack", "bin32-in-array", mpin({0x91}, 0xc6), 32}); v.push_back({"msgpack", "array32-in-array", mpin({0x92, 0x01}, 0xdd), 32});
    v.push_back({"msgpack", "map-key-str32", mpin({0x81}, 0xdb), 32}); v.push_back({"msgpack", "map-value-bin32", mpin({0x81, 0xa1, 0x61}, 0xc6), 32}); v.push_back({"msgpack", "map-value-map32", mpin({0x81, 0xa1, 0x61}, 0xdf), 32});
    auto ub = [](std::initializer_list<int> pre) { return [=](uint64_t n) { Bytes b; put(b, pre); b.push_back('L'); be(b, n, 8); return b; }; };
    v.push_back({"ubjson", "array-counted", ub({'[', '#'}), 63}); v.push_back({"ubjson", "array-typed-i8", ub({'[', '$', 'i', '#'}), 63}); v.push_back({"ubjson", "array-typed-u8", ub({'[', '$', 'U', '#'}), 63});
    v.push_back({"ubjson", "array-typed-f64", ub({'[', '$', 'D', '#'}), 63}); v.push_back({"ubjson", "object-counted", ub({'{', '#'}), 63}); v.push_back({"ubjson", "string", ub({'S'}), 63}); v.push_back({"ubjson", "high-precision", ub({'H'}), 63});
    v.push_back({"ubjson", "object-key", ub({'{'}), 63}); v.push_back({"ubjson", "string-in-array", ub({'[', 'S'}), 63}); v.push_back({"ubjson", "counted-in-array", ub({'[', '[', '#'}), 63});
    v.push_back({"ubjson", "object-typed", ub({'{', '$', 'i', '#'}), 63}); v.push_back({"ubjson", "object-value-string", ub({'{', 'i', 1, 'a', 'S'}), 63}); v.push_back({"ubjson", "array-typed-in-object", ub({'{', 'i', 1, 'a', '[', '$', 'd', '#'}), 63});
    v.push_back({"ubjson", "typed-strings", ub({'[', '$', 'S', '#'}), 63}); v.push_back({"ubjson", "typed-arrays", ub({'[', '$', '[', '#'}), 63});
    v.push_back({"ubjson", "string-l32", [](uint64_t n) { Bytes b = {'S', 'l'}; be(b, n, 4); return b; }, 31}); v.push_back({"ubjson", "array-counted-l32", [](uint64_t n) { Bytes b = {'[', '#', 'l'}; be(b, n, 4); return b; }, 31});
    for (int t : {0x0d, 0x0e}) { char nm[32]; snprintf(nm, sizeof nm, "string-type%02x", t); v.push_back({"bson", nm, [t](uint64_t n) { Bytes b; le32(b, 64); put(b, {t, 'a', 0}); le32(b, n); return b; }, 31}); }
    v.push_back({"bson", "code-w-scope", [](uint64_t n) { Bytes b; le32(b, 64); put(b, {0x0f, 'a', 0}); le32(b, n); le32(b, n); return b; }, 31});
    v.push_back({"bson", "nested-array-size", [](uint64_t n) { Bytes b; le32(b, 64); put(b, {0x04, 'a', 0}); le32(b, n); return b; }, 31});
    v.push_back({"bson", "string-in-nested", [](uint64_t n) { Bytes b; le32(b, 64); put(b, {0x03, 'a', 0}); le32(b, 40); put(b, {0x02, 'b', 0}); le32(b, n); return b; }, 31});
    v.push_back({"bson", "document-size", [](uint64_t n) { Bytes b; le32(b, n); b.push_back(0); return b; }, 31});
    v.push_back({"bson", "string-length", [](uint64_t n) { Bytes b; le32(b, 64); put(b, {0x02, 'a', 0}); le32(b, n); return b; }, 31});
    v.push_back({"bson", "binary-length", [](uint64_t n) { Bytes b; le32(b, 64); put(b, {0x05, 'a', 0}); le32(b, n); b.push_back(0); return b; }, 31});
    v.push_back({"bson", "nested-size", [](uint64_t n) { Bytes b; le32(b, 64); put(b, {0x03, 'a', 0}); le32(b, n); return b; }, 31});
    return v;
}
static void mem_case(const Claim& c, uint64_t n, int trailing, int src) {
    ++g_eval;
    Bytes b = c.build(n);
    for (int i = 0; i < trailing; ++i) b.push_back(uint8_t(i == 0 ? 0x01 : 0x00));
    std::string text(b.begin(), b.end());
    long long produced = 0; bool ok = false; std::string err;
    g_live = 0; g_peak = 0; g_meter = true;
    try {
        std::istringstream is(text);
        json j;
        if (src >= 3) {
            // typed entry points: the element count announced by the input must not size the container either
            #define TYPED(NS, DEC) { if (src == 3) { auto r = jsoncons::NS::DEC<std::vector<double>>(b); produced = 8 * (long long)(r ? r->size() : 0); } \
                else if (src == 4) { auto r = jsoncons::NS::DEC<std::vector<uint8_t>>(b); produced = (long long)(r ? r->size() : 0); } \
                else if (src == 5) { auto r = jsoncons::NS::DEC<std::vector<std::string>>(b); produced = 32 * (long long)(r ? r->size() : 0); } \
                else { auto r = jsoncons::NS::DEC<std::map<std::string, int64_t>>(b); produced = 48 * (long long)(r ? r->size() : 0); } }
            if (c.fmt == "cbor") TYPED(cbor, try_decode_cbor) else if (c.fmt == "msgpack") TYPED(msgpack, try_decode_msgpack) else if (c.fmt == "ubjson") TYPED(ubjson, try_decode_ubjson) else TYPED(bson, try_decode_bson)
            #undef TYPED
            g_meter = false; ok = true;
        }
        else if (c.fmt == "cbor") j = src == 0 ? jsoncons::cbor::decode_cbor<json>(b) : (src == 1 ? jsoncons::cbor::decode_cbor<json>(is) : jsoncons::cbor::decode_cbor<json>(b.begin(), b.end()));
        else if (c.fmt == "msgpack") j = src == 0 ? jsoncons::msgpack::decode_msgpack<json>(b) : (src == 1 ? jsoncons::msgpack::decode_msgpack<json>(is) : jsoncons::msgpack::decode_msgpack<json>(b.begin(), b.end()));
        else if (c.fmt == "ubjson") { jsoncons::ubjson::ubjson_options o; o.max_items(SIZE_MAX); j = src == 0 ? jsoncons::ubjson::decode_ubjson<json>(b, o) : (src == 1 ? jsoncons::ubjson::decode_ubjson<json>(is, o) : jsoncons::ubjson::decode_ubjson<json>(b.begin(), b.end(), o)); }
        else if (src < 3) j = src == 0 ? jsoncons::bson::decode_bson<json>(b) : (src == 1 ? jsoncons::bson::decode_bson<json>(is) : jsoncons::bson::decode_bson<json>(b.begin(), b.end()));
        if (src < 3) { ok = true; g_meter = false; std::string s; j.dump(s); produced = (long long)s.size(); }
    } catch (const std::bad_alloc&) { err = "bad_alloc"; }
    catch (const std::length_error& e) { err = std::string("length_error:") + e.what(); }
    catch (const std::exception& e) { err = e.what(); }
    g_meter = false;
    long long peak = g_peak;
    long long bound = 128 * 1024 + 32 * ((long long)b.size() + produced);
    char nb[32]; snprintf(nb, sizeof nb, "%llx", (unsigned long long)n);
    std::string sig = "MEM|" + c.fmt + "|" + c.name + "|" + nb + "|" + std::to_string(trailing) + "|" + std::to_string(src);
    if (peak > bound) out().viol(sig, c.fmt + " " + c.name + " claiming 0x" + nb + " with " + std::to_string(trailing) + " trailing bytes (" + std::to_string(b.size()) + " bytes supplied, source " + std::to_string(src) + ") :: peak heap " + std::to_string(peak) + " bytes, bound " + std::to_string(bound) + (ok ? " (accepted)" : " (" + err + ")"));
    else if (err == "bad_alloc" || err.compare(0, 12, "length_error") == 0) out().viol(sig, c.fmt + " " + c.name + " claiming 0x" + nb + " :: the claimed length reached the allocator (" + err + ")");
    else ++g_nontrivial;
    out().gauge("mem_peak_max", peak);
    out().cls(std::string("mem:") + (ok ? "accepted" : "rejected"));
    if ((g_eval % 53) == 1) out().sample(c.fmt + " " + c.name + " claiming 0x" + nb + ", " + std::to_string(b.size()) + " bytes supplied -> peak heap " + std::to_string(peak) + " bytes (bound " + std::to_string(bound) + "), " + (ok ? "accepted" : err));
}
static void run_mem(bool thorough, int slice, int nslices) {
    auto cl = claims();
    std::vector<uint64_t> ns;
    for (int k = 20; k <= 63; k += (thorough ? 1 : 4)) { ns.push_back(1ULL << k); ns.push_back((1ULL << k) - 1); }
    ns.push_back(1ULL << 31); ns.push_back((1ULL << 32) - 1); ns.push_back((1ULL << 63) - 1); ns.push_back(1ULL << 63); ns.push_back(UINT64_MAX); ns.push_back(UINT64_MAX / 8); ns.push_back(UINT64_MAX / 8 + 1);
    long long idx = 0;
    for (auto& c : cl) for (uint64_t n : ns) {
        if (c.maxbits < 64 && n >= (1ULL << c.maxbits)) continue;
        if ((int)(idx++ % nslices) != slice) continue;
        for (int tr : {0, 1, 16}) for (int src = 0; src < 7; ++src) {
            // each case in a forked child with an address-space cap, so that a runaway allocation is a report, not a dead slice
            mem_case(c, n, tr, src);
        }
    }
}

int main(int argc, char** argv) {
    Args a(argc, argv);
    if (a.replay) {
        auto p = split(a.sig, '|');
        if (p[0] == "DEP" && p[1] == "dec" && p.size() >= 7) { for (auto& s : shapes()) if (s.fmt == p[2] && s.name == p[3]) depth_case(s, atoi(p[4].c_str()), atoi(p[5].c_str()), atoi(p[6].c_str())); }
        else if (p[0] == "DEP" && p[1] == "enc" && p.size() >= 6) enc_case(p[2], atoi(p[3].c_str()), atoi(p[4].c_str()), atoi(p[5].c_str()));
        else if (p[0] == "ITM") run_items(0);
        else if (p[0] == "REU") run_reuse(0, 1);
        else if (p[0] == "STK") run_stack(0, 1);
        else if (p[0] == "MEM" && p.size() >= 6) { for (auto& c : claims()) if (c.fmt == p[1] && c.name == p[2]) mem_case(c, strtoull(p[3].c_str(), nullptr, 16), atoi(p[4].c_str()), atoi(p[5].c_str())); }
        out().flush(); return 0;
    }
    std::string mode = a.a.empty() ? "" : a.a[0];
    bool thorough = a.get("tier", "quick") == "thorough";
    if (mode == "depth") run_depth(thorough, a.slice, a.nslices);
    else if (mode == "reuse") run_reuse(a.slice, a.nslices);
    else if (mode == "items") run_items(a.slice);
    else if (mode == "stack") run_stack(a.slice, a.nslices);
    else if (mode == "mem") run_mem(thorough, a.slice, a.nslices);
    out().count("evaluations", g_eval);
    out().count("nontrivial", g_nontrivial);
    out().flush();
    return 0;
}
