// C11 executor: JSON Schema verdicts of jsoncons for (dialect, schema, instances) lines.
//
// stdin, one case per line:   <dialect>[:q | :h<N>] <hex schema json> <hex json array of instances>
//   dialect in {4,6,7,2019,2020} selects evaluation_options::default_version (a "$schema" member in the
//   schema text, if the driver put one there, is honoured by jsoncons itself).
//   ":q" = verdict only (is_valid); used for the member-order variants.
//   ":h<N>" = history test over the first N instances only (default: all).
// stdout, one line per input line:
//   OK <verdict string of 0/1>[ MISMATCH <what>;<what>...]
//   SCHEMA_ERR <message>          make_json_schema threw schema_error (or another std::exception while compiling)
//   EXC <what>                    anything else (exception while validating, malformed line)
//   HANG <line index>             a line did not finish within the time limit (process exits)
// Full mode per instance i: is_valid(i); validate(i) throwing overload; validate(i, reporter) counting
// messages; validate(i, json_visitor) whose emitted array must be empty iff valid; walk(i) must terminate.
// Then history independence: for every j the call sequence j,i1,j,i2,j,... over all i > j (rotating entry
// points) so that every ordered pair (predecessor, successor) occurs; every verdict must equal the baseline.
// Finally walk(i) again: same keyword trace as the first walk.
#include <jsoncons/json.hpp>
#include <jsoncons_ext/jsonschema/jsonschema.hpp>
#include "common.hpp"
#include <iostream>

using jsoncons::ojson;
namespace js = jsoncons::jsonschema;

static char g_hang[64];
static void on_alarm(int) {
    ssize_t r = write(1, g_hang, strlen(g_hang)); (void)r;
    _exit(0);
}

static std::string version_of(const std::string& d) {
    if (d == "4") return js::schema_version::draft4();
    if (d == "6") return js::schema_version::draft6();
    if (d == "7") return js::schema_version::draft7();
    if (d == "2019") return js::schema_version::draft201909();
    if (d == "2020") return js::schema_version::draft202012();
    return "";
}

static std::string clean(const std::string& s) {
    std::string o = vf::show(s);
    if (o.size() > 300) o.resize(300);
    return o;
}

struct Mis {
    std::vector<std::string> items;
    void add(const std::string& s) { if (items.size() < 6) items.push_back(s); }
};

static bool v_is_valid(const js::json_schema<ojson>& sch, const ojson& inst) { return sch.is_valid(inst); }

static bool v_reporter(const js::json_schema<ojson>& sch, const ojson& inst, size_t* n = nullptr) {
    size_t count = 0;
    auto rep = [&count](const js::validation_message&) -> js::walk_state { ++count; return js::walk_state::advance; };
    sch.validate(inst, rep);
    if (n) *n = count;
    return count == 0;
}

static bool v_throwing(const js::json_schema<ojson>& sch, const ojson& inst) {
    try { sch.validate(inst); return true; }
    catch (const js::validation_error&) { return false; }
}

static bool v_visitor(const js::json_schema<ojson>& sch, const ojson& inst, std::string* shape) {
    jsoncons::json_decoder<ojson> dec;
    sch.validate(inst, dec);
    if (!dec.is_valid()) { *shape = "decoder not finished"; return false; }
    ojson r = dec.get_result();
    if (!r.is_array()) { *shape = "not an array"; return false; }
    for (const auto& m : r.array_range()) {
        if (!m.is_object() || !m.contains("valid") || !m.contains("error") || !m.contains("instanceLocation")) { *shape = "malformed message object"; break; }
    }
    return r.size() == 0;
}

static std::string v_walk(const js::json_schema<ojson>& sch, const ojson& inst) {
    std::string trace;
    size_t n = 0;
    auto rep = [&](const std::string& keyword, const ojson&, const jsoncons::uri& loc, const ojson&,
                   const jsoncons::jsonpointer::json_pointer& ip) -> js::walk_state {
        ++n;
        if (trace.size() < 4000) { trace += keyword; trace += '@'; trace += loc.string(); trace += '@'; trace += ip.string(); trace += ','; }
        return js::walk_state::advance;
    };
    sch.walk(inst, rep);
    return std::to_string(n) + ":" + trace;
}

static std::string run_line(const std::string& line) {
    auto p = vf::split(line, ' ');
    if (p.size() != 3) return "EXC malformed line";
    std::string dialect = p[0];
    bool quick = false;
    auto c = dialect.find(':');
    long hist_n = -1;
    if (c != std::string::npos) {
        quick = dialect.find('q', c) != std::string::npos;
        auto h = dialect.find('h', c);
        if (h != std::string::npos) hist_n = atol(dialect.c_str() + h + 1);
        dialect.resize(c);
    }
    std::string ver = version_of(dialect);
    if (ver.empty()) return "EXC unknown dialect";
    std::string stext = vf::unhex(p[1]), itext = vf::unhex(p[2]);
    ojson schema, instances;
    try { schema = ojson::parse(stext); instances = ojson::parse(itext); }
    catch (const std::exception& e) { return std::string("EXC parse: ") + clean(e.what()); }
    if (!instances.is_array()) return "EXC instances not an array";

    std::unique_ptr<js::json_schema<ojson>> sch;
    try {
        js::evaluation_options opts;
        opts.default_version(ver);
        sch.reset(new js::json_schema<ojson>(js::make_json_schema(schema, opts)));
    }
    catch (const js::schema_error& e) { return std::string("SCHEMA_ERR ") + clean(e.what()); }
    catch (const std::exception& e) { return std::string("SCHEMA_ERR [") + typeid(e).name() + "] " + clean(e.what()); }

    std::vector<ojson> inst;
    for (const auto& x : instances.array_range()) inst.push_back(x);
    size_t n = inst.size();
    std::string verdicts(n, '?');
    Mis mis;
    try {
        std::vector<std::string> walks(n);
        for (size_t i = 0; i < n; ++i) {
            bool a = v_is_valid(*sch, inst[i]);
            verdicts[i] = a ? '1' : '0';
            if (quick) continue;
            size_t cnt = 0;
            bool r = v_reporter(*sch, inst[i], &cnt);
            bool t = v_throwing(*sch, inst[i]);
            std::string shape;
            bool v = v_visitor(*sch, inst[i], &shape);
            if (!(a == t && a == r && a == v))
                mis.add("ep:i=" + std::to_string(i) + ":is_valid=" + std::to_string(a) + ",throwing=" + std::to_string(t) +
                        ",reporter=" + std::to_string(r) + "(" + std::to_string(cnt) + " msgs),visitor=" + std::to_string(v));
            if (!shape.empty()) mis.add("visitor:i=" + std::to_string(i) + ":" + shape);
            walks[i] = v_walk(*sch, inst[i]);
        }
        if (!quick) {
            unsigned k = 0;
            auto call = [&](size_t x, size_t pred) {
                bool got;
                const char* ep;
                switch (k++ % 3) {
                    case 0: got = v_is_valid(*sch, inst[x]); ep = "is_valid"; break;
                    case 1: got = v_reporter(*sch, inst[x]); ep = "reporter"; break;
                    default: got = v_throwing(*sch, inst[x]); ep = "throwing"; break;
                }
                if ((got ? '1' : '0') != verdicts[x])
                    mis.add("hist:i=" + std::to_string(x) + ":after=" + std::to_string(pred) + ":first=" + verdicts[x] +
                            ":now=" + (got ? "1" : "0") + ":ep=" + ep);
            };
            size_t hn = hist_n < 0 || (size_t)hist_n > n ? n : (size_t)hist_n;
            for (size_t j = 0; j < hn; ++j) {
                call(j, j ? hn - 1 : 0);
                for (size_t i = j + 1; i < hn; ++i) {
                    call(i, j);     // ordered pair (j, i)
                    call(j, i);     // ordered pair (i, j)
                }
            }
            for (size_t i = 0; i < n; ++i) {
                std::string w = v_walk(*sch, inst[i]);
                if (w != walks[i]) mis.add("walk:i=" + std::to_string(i) + ":first=" + clean(walks[i]) + ":now=" + clean(w));
            }
        }
    }
    catch (const std::exception& e) { return std::string("EXC [") + typeid(e).name() + "] " + clean(e.what()); }
    std::string out = "OK " + verdicts;
    if (!mis.items.empty()) {
        out += " MISMATCH ";
        for (size_t i = 0; i < mis.items.size(); ++i) { if (i) out += ';'; out += mis.items[i]; }
    }
    return out;
}

int main(int argc, char** argv) {
    unsigned limit = argc > 1 ? (unsigned)atoi(argv[1]) : 30;
    signal(SIGALRM, on_alarm);
    std::string line;
    size_t idx = 0;
    while (std::getline(std::cin, line)) {
        if (line.empty()) continue;
        snprintf(g_hang, sizeof g_hang, "HANG %zu\n", idx);
        fflush(stdout);
        alarm(limit);
        std::string r = run_line(line);
        alarm(0);
        for (char& ch : r) if (ch == '\n' || ch == '\r') ch = ' ';
        fputs(r.c_str(), stdout);
        fputc('\n', stdout);
        ++idx;
    }
    fflush(stdout);
    return 0;
}
