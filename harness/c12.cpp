// C12 — JSONPath queries select exactly the addressed nodes (DESIGN.md §4 C12).
//
// Bounded-exhaustive: expression ASTs of <= 3 steps (rendered to text and compiled by the real
// compiler) x documents (all trees with <= N nodes over a key/leaf alphabet + hand-shaped ones).
// Oracles per (expression, document):
//   pv        value / path / callback results agree; each path addresses (address identity) the value
//   opts      nodups / sort / sort_descending results are the de-duplicated / sorted plain result
//   forms     compiled jsonpath_expression (evaluate, select_paths), one-shot json_query (array and
//             callback overloads) agree
//   replace   json_replace (const char* prvalue, json rvalue, std::string rvalue, callback) changes exactly the selected nodes
//   ref       for core selectors the node list equals an independent reference evaluator (below,
//             written over the model value MV and the AST; it shares no code with jsoncons)
//   unchanged the queried document is not modified
// Stage G: every node's normalized path (rendered by the harness) resolves with
//   json_location::parse + jsonpath::get to that node, survives to_string, and selects exactly that
//   node when used as a query.
#include "mv.hpp"
#include "rfc8259_ref.hpp"
#include <jsoncons_ext/jsonpath/jsonpath.hpp>
#include <algorithm>
#include <deque>
#include <memory>
#include <unordered_map>

using namespace vf;
using jsoncons::json;
namespace jp = jsoncons::jsonpath;
using jp::result_options;

// ---------------------------------------------------------------------------------------------
// documents

struct Comp { bool is_name = false; std::string name; size_t idx = 0; };
typedef std::vector<Comp> Comps;

static std::string esc_name(const std::string& s) {   // normalized path escaping (documented: \' and \\)
    std::string o;
    for (char c : s) { if (c == '\'' || c == '\\') o.push_back('\\'); o.push_back(c); }
    return o;
}
static std::string render_path(const Comps& c) {
    std::string o = "$";
    for (auto& x : c) { if (x.is_name) { o += "['"; o += esc_name(x.name); o += "']"; } else { o += "["; o += std::to_string(x.idx); o += "]"; } }
    return o;
}
// own parser for normalized paths; returns false if the text is not of the form $(['..']|[n])*
static bool parse_npath(const std::string& p, Comps& out) {
    out.clear();
    size_t i = 0;
    if (p.empty() || p[0] != '$') return false;
    i = 1;
    while (i < p.size()) {
        if (p[i] != '[') return false;
        ++i;
        if (i >= p.size()) return false;
        Comp c;
        if (p[i] == '\'') {
            ++i; c.is_name = true;
            for (;;) {
                if (i >= p.size()) return false;
                if (p[i] == '\\') { if (i + 1 >= p.size()) return false; c.name.push_back(p[i + 1]); i += 2; continue; }
                if (p[i] == '\'') { ++i; break; }
                c.name.push_back(p[i++]);
            }
        } else {
            if (p[i] < '0' || p[i] > '9') return false;
            size_t v = 0;
            while (i < p.size() && p[i] >= '0' && p[i] <= '9') { v = v * 10 + size_t(p[i] - '0'); ++i; }
            c.idx = v;
        }
        if (i >= p.size() || p[i] != ']') return false;
        ++i;
        out.push_back(c);
    }
    return true;
}
// path order: component-wise, indices numerically, names bytewise, a prefix precedes its extensions.
// mixed = true if a name and an index meet at the same position (only possible with computed nodes)
static int cmp_comps(const Comps& a, const Comps& b, bool& mixed) {
    size_t n = std::min(a.size(), b.size());
    for (size_t i = 0; i < n; ++i) {
        if (a[i].is_name != b[i].is_name) { mixed = true; return a[i].is_name ? -1 : 1; }
        if (a[i].is_name) { int c = a[i].name.compare(b[i].name); if (c) return c < 0 ? -1 : 1; }
        else if (a[i].idx != b[i].idx) return a[i].idx < b[i].idx ? -1 : 1;
    }
    if (a.size() != b.size()) return a.size() < b.size() ? -1 : 1;
    return 0;
}

static void json_text(const MV& m, std::string& o) {
    char buf[40];
    switch (m.k) {
        case MV::Null: o += "null"; break;
        case MV::Bool: o += m.b ? "true" : "false"; break;
        case MV::Int: o += std::to_string((long long)m.i); break;
        case MV::UInt: o += std::to_string((unsigned long long)m.u); break;
        case MV::Dbl: snprintf(buf, sizeof buf, "%.17g", m.d()); o += buf; if (!strpbrk(buf, ".eE")) o += ".0"; break;
        case MV::Str: o += '"'; for (char c : m.s) { if (c == '"' || c == '\\') o += '\\'; o += c; } o += '"'; break;
        case MV::Arr: o += '['; for (size_t i = 0; i < m.a.size(); ++i) { if (i) o += ','; json_text(m.a[i], o); } o += ']'; break;
        case MV::Obj:
            o += '{';
            for (size_t i = 0; i < m.o.size(); ++i) { if (i) o += ','; o += '"'; for (char c : m.o[i].first) { if (c == '"' || c == '\\') o += '\\'; o += c; } o += "\":"; json_text(m.o[i].second, o); }
            o += '}'; break;
        default: o += "?"; break;
    }
}
static std::string json_text(const MV& m) { std::string o; json_text(m, o); return o; }

struct Node {
    const MV* mv = nullptr;
    Comps comps;
    std::string path;
    int parent = -1;
    std::vector<int> kids;
    const json* addr = nullptr;
    int last = 0;   // index of the last node of the subtree (preorder)
};

struct Doc {
    MV mv;
    std::string text, hextext;
    json root;
    std::vector<Node> nodes;
    std::unordered_map<const json*, int> by_addr;
    std::unordered_map<std::string, int> by_path;
    Doc() {}
    Doc(const Doc&) = delete;
};

static bool g_fatal = false;
static void fatal(const std::string& s) { if (!g_fatal) out().error(s); g_fatal = true; }

static int build_nodes(Doc& d, const MV* m, const json* j, int parent, const Comps& comps) {
    int me = (int)d.nodes.size();
    d.nodes.emplace_back();
    { Node& n = d.nodes[me]; n.mv = m; n.comps = comps; n.path = render_path(comps); n.parent = parent; n.addr = j; }
    d.by_addr[j] = me;
    d.by_path[d.nodes[me].path] = me;
    if (m->k == MV::Arr) {
        if (!j->is_array() || j->size() != m->a.size()) { fatal("doc construction: array mismatch"); return me; }
        for (size_t i = 0; i < m->a.size(); ++i) {
            Comps c = comps; Comp x; x.idx = i; c.push_back(x);
            int k = build_nodes(d, &m->a[i], &j->at(i), me, c);
            d.nodes[me].kids.push_back(k);
        }
    } else if (m->k == MV::Obj) {
        if (!j->is_object() || j->size() != m->o.size()) { fatal("doc construction: object mismatch"); return me; }
        size_t i = 0;
        for (const auto& kv : j->object_range()) {
            if (std::string(kv.key()) != m->o[i].first) { fatal("doc construction: key order mismatch in " + json_text(d.mv)); return me; }
            Comps c = comps; Comp x; x.is_name = true; x.name = m->o[i].first; c.push_back(x);
            int k = build_nodes(d, &m->o[i].second, &kv.value(), me, c);
            d.nodes[me].kids.push_back(k);
            ++i;
        }
    }
    d.nodes[me].last = (int)d.nodes.size() - 1;
    return me;
}

static void sort_keys(MV& m) {
    if (m.k == MV::Arr) for (auto& e : m.a) sort_keys(e);
    if (m.k == MV::Obj) {
        for (auto& kv : m.o) sort_keys(kv.second);
        std::stable_sort(m.o.begin(), m.o.end(), [](const std::pair<std::string, MV>& a, const std::pair<std::string, MV>& b) { return a.first < b.first; });
    }
}

static std::unique_ptr<Doc> make_doc(const MV& m) {
    std::unique_ptr<Doc> d(new Doc());
    d->mv = m;
    sort_keys(d->mv);     // jsoncons::json keeps members sorted by key (bytewise); the model mirrors that
    d->text = json_text(d->mv);
    d->hextext = hex(d->text);
    d->root = from_mv<json>(d->mv);
    const json& cr = d->root;
    build_nodes(*d, &d->mv, &cr, -1, Comps());
    return d;
}

// all trees with exactly n nodes
struct TreeGen {
    std::vector<std::string> keys;   // sorted bytewise
    std::vector<MV> leaves;
    std::map<int, std::vector<MV>> memo;
    std::map<int, std::vector<std::vector<const MV*>>> smemo;
    const std::vector<MV>& trees(int n) {
        auto it = memo.find(n);
        if (it != memo.end()) return it->second;
        std::vector<MV> r;
        if (n == 1) { r = leaves; r.push_back(MV::arr()); r.push_back(MV::obj()); }
        else {
            const auto& ss = seqs(n - 1);
            for (auto& s : ss) { MV a = MV::arr(); for (auto* c : s) a.a.push_back(*c); r.push_back(a); }
            for (auto& s : ss) {
                size_t k = s.size();
                if (k > keys.size()) continue;
                std::vector<size_t> ix(k);
                for (size_t i = 0; i < k; ++i) ix[i] = i;
                for (;;) {
                    MV o = MV::obj();
                    for (size_t i = 0; i < k; ++i) o.o.emplace_back(keys[ix[i]], *s[i]);
                    r.push_back(o);
                    int p = (int)k - 1;
                    while (p >= 0 && ix[p] == keys.size() - k + p) --p;
                    if (p < 0) break;
                    ++ix[p];
                    for (size_t q = p + 1; q < k; ++q) ix[q] = ix[q - 1] + 1;
                }
            }
        }
        return memo[n] = r;
    }
    // sequences of >= 1 trees with m nodes in total
    const std::vector<std::vector<const MV*>>& seqs(int m) {
        auto it = smemo.find(m);
        if (it != smemo.end()) return it->second;
        std::vector<std::vector<const MV*>> r;
        for (int s = 1; s <= m; ++s) {
            const auto& first = trees(s);
            if (s == m) { for (auto& t : first) r.push_back({&t}); }
            else {
                const auto& rest = seqs(m - s);
                for (auto& t : first) for (auto& q : rest) { std::vector<const MV*> v; v.push_back(&t); v.insert(v.end(), q.begin(), q.end()); r.push_back(v); }
            }
        }
        return smemo[m] = r;
    }
};

static MV parse_doc_text(const std::string& t) {
    RefResult r = ref_parse(t);
    if (!r.ok) { fatal("cannot parse document text " + t); return MV(); }
    return r.v;
}

static const char* HAND_DOCS[] = {
    "{\"a\":[{\"k\":1,\"x\":5},{\"k\":\"x\"},{\"k\":true},{\"k\":null},{\"j\":1},7],\"b\":{\"a\":2,\"0\":3}}",
    "[[1,2,[3,4,[5]]],[],[[6]],7]",
    "[{\"k\":1,\"a\":[1,2]},{\"k\":2,\"a\":{\"k\":1}},{\"k\":\"x\",\"a\":null},{\"k\":1.5},{\"k\":false},{\"k\":[1]}]",
    "{\"a\":{\"a\":{\"a\":{\"a\":1,\"b\":[1,2,3,4,5,6,7]}}},\"b\":[{\"a\":1},{\"a\":\"x\"},{\"a\":null}]}",
    "{\"\":{\"'\":{\"\\\"\":{\"\\\\\":{\"\xc3\xa9\":{\"0\":[1,2,\"x\",null]}}}}},\"0\":[0,1,2,3,4,5,6]}",
    "[1,2,\"x\",null,true,1.5,\"y\",\"\",[],{}]",
    "{\"k\":1,\"a\":\"xyz\",\"b\":[1,1,1],\"x\":{\"k\":1,\"a\":[{\"k\":1},{\"k\":1}]}}",
};

static std::vector<std::unique_ptr<Doc>> g_docs;

static void make_docs(const std::string& kind, int maxn, int minn) {
    if (kind == "H") {
        for (auto* t : HAND_DOCS) g_docs.push_back(make_doc(parse_doc_text(t)));
        return;
    }
    TreeGen g;
    if (kind == "S") g.keys = {"a", "b"};
    else g.keys = {"a", "b", "", "'", "\"", "\\", "\xc3\xa9", "0"};
    std::sort(g.keys.begin(), g.keys.end());
    g.leaves = {MV::uint64(1), MV::uint64(2), MV::str("x"), MV::null()};
    // docs=K keeps only documents with a key outside {a,b}: the others are exactly the docs=S documents
    std::function<bool(const MV&)> special = [&](const MV& m) {
        if (m.k == MV::Arr) { for (auto& e : m.a) if (special(e)) return true; return false; }
        if (m.k == MV::Obj) { for (auto& kv : m.o) if ((kv.first != "a" && kv.first != "b") || special(kv.second)) return true; return false; }
        return false;
    };
    for (int n = minn; n <= maxn; ++n) for (auto& t : g.trees(n)) if (kind == "S" || special(t)) g_docs.push_back(make_doc(t));
}

// ---------------------------------------------------------------------------------------------
// expression ASTs

enum { OP_EQ, OP_NE, OP_LT, OP_LE, OP_GT, OP_GE };
static const char* OP_TEXT[] = {"==", "!=", "<", "<=", ">", ">="};

struct Operand { int k = 0; /*0 @, 1 @.name, 2 @[idx], 3 literal*/ std::string name; long idx = 0; MV lit; std::string text; };
struct FNode { int k = 0; /*0 cmp, 1 and, 2 or, 3 not*/ Operand l, r; int op = 0; std::vector<FNode> ch; };
struct Sel {
    int k = 0;  // 0 name, 1 index, 2 slice, 3 wildcard, 4 filter
    std::string name; long idx = 0;
    bool hs = false, he = false, hst = false; long s = 0, e = 0, st = 1;
    std::shared_ptr<FNode> f;
    std::string text;   // text inside brackets
};
struct Step {
    int k = 0;  // 0 child segment, 1 descendant segment, 2 opaque (checked by the consistency oracles only)
    std::vector<Sel> sels;
    std::string text;
    bool core = true;
};

static Operand o_cur() { Operand o; o.k = 0; o.text = "@"; return o; }
static Operand o_name(const std::string& n, const std::string& text) { Operand o; o.k = 1; o.name = n; o.text = text; return o; }
static Operand o_idx(long i) { Operand o; o.k = 2; o.idx = i; o.text = "@[" + std::to_string(i) + "]"; return o; }
static Operand o_lit(const MV& v, const std::string& text) { Operand o; o.k = 3; o.lit = v; o.text = text; return o; }
static FNode f_cmp(const Operand& l, int op, const Operand& r) { FNode f; f.k = 0; f.l = l; f.r = r; f.op = op; return f; }
static FNode f_and(const FNode& a, const FNode& b) { FNode f; f.k = 1; f.ch = {a, b}; return f; }
static FNode f_or(const FNode& a, const FNode& b) { FNode f; f.k = 2; f.ch = {a, b}; return f; }
static FNode f_not(const FNode& a) { FNode f; f.k = 3; f.ch = {a}; return f; }
static std::string f_text(const FNode& f, int parent /*0 top, 1 inside &&, 2 inside ||*/, bool tight) {
    const char* sp = tight ? "" : " ";
    switch (f.k) {
        case 0: return f.l.text + sp + OP_TEXT[f.op] + sp + f.r.text;
        case 1: return f_text(f.ch[0], 1, tight) + sp + "&&" + sp + f_text(f.ch[1], 1, tight);
        case 2: { std::string s = f_text(f.ch[0], 2, tight) + sp + "||" + sp + f_text(f.ch[1], 2, tight); return parent == 1 ? "(" + s + ")" : s; }
        default: return "!(" + f_text(f.ch[0], 0, tight) + ")";
    }
}

static Sel s_name(const std::string& n, const std::string& text) { Sel s; s.k = 0; s.name = n; s.text = text; return s; }
static Sel s_index(long i) { Sel s; s.k = 1; s.idx = i; s.text = std::to_string(i); return s; }
static Sel s_slice(bool hs, long st, bool he, long e, bool hstep, long step) {
    Sel s; s.k = 2; s.hs = hs; s.s = st; s.he = he; s.e = e; s.hst = hstep; s.st = hstep ? step : 1;
    s.text = (hs ? std::to_string(st) : "") + ":" + (he ? std::to_string(e) : "") + (hstep ? ":" + std::to_string(step) : "");
    return s;
}
static Sel s_wild() { Sel s; s.k = 3; s.text = "*"; return s; }
static Sel s_filter(const FNode& f, int style = 0) {
    Sel s; s.k = 4; s.f = std::make_shared<FNode>(f);
    if (style == 0) s.text = "?(" + f_text(f, 0, false) + ")";
    else if (style == 1) s.text = "?(" + f_text(f, 0, true) + ")";
    else s.text = "?" + f_text(f, 0, false);
    return s;
}
static Step st_child(const Sel& s, const std::string& text = "") { Step t; t.k = 0; t.sels = {s}; t.text = text.empty() ? "[" + s.text + "]" : text; return t; }
static Step st_union(const std::vector<Sel>& v) { Step t; t.k = 0; t.sels = v; t.text = "["; for (size_t i = 0; i < v.size(); ++i) { if (i) t.text += ","; t.text += v[i].text; } t.text += "]"; return t; }
static Step st_desc(const std::vector<Sel>& v, const std::string& text = "") {
    Step t = st_union(v); t.k = 1; t.text = text.empty() ? ".." + t.text : text; return t;
}
static Step st_opaque(const std::string& text) { Step t; t.k = 2; t.text = text; t.core = false; return t; }

static const std::string EA = "\xc3\xa9";

struct Alphabets {
    std::vector<Step> names, indices, wilds, slices, unions, descs, filters, opaque;
    std::vector<Step> full, mid, core, core_s, pre, suf;
    Step byname(const std::string& t) const {
        for (auto& s : full) if (s.text == t) return s;
        fatal("alphabet: no step " + t);
        return Step();
    }
    Alphabets() {
        // names: every key of the document alphabet in every notation that can spell it
        names = {
            st_child(s_name("a", "'a'"), ".a"), st_child(s_name("a", "'a'")), st_child(s_name("a", "\"a\"")),
            st_child(s_name("a", "'a'"), ".'a'"), st_child(s_name("a", "\"a\""), ".\"a\""),
            st_child(s_name("b", "'b'"), ".b"), st_child(s_name("b", "'b'")),
            st_child(s_name("", "''")), st_child(s_name("", "\"\"")), st_child(s_name("", "''"), ".''"), st_child(s_name("", "\"\""), ".\"\""),
            st_child(s_name("'", "'\\''")), st_child(s_name("'", "\"'\"")),
            st_child(s_name("\"", "'\"'")), st_child(s_name("\"", "\"\\\"\"")),
            st_child(s_name("\\", "'\\\\'")), st_child(s_name("\\", "\"\\\\\"")),
            st_child(s_name(EA, "'" + EA + "'"), "." + EA), st_child(s_name(EA, "'" + EA + "'")), st_child(s_name(EA, "\"\\u00e9\"")),
            st_child(s_name("0", "'0'"), ".0"), st_child(s_name("0", "'0'")),
        };
        for (long i : {0L, -1L, 5L, 1L}) indices.push_back(st_child(s_index(i)));
        wilds = {st_child(s_wild(), ".*"), st_child(s_wild())};
        {
            const long V[] = {0, 0, 1, -1, -5, 5};          // index 0 = absent
            const long ST[] = {0, 1, 2, -1, -2};            // index 0 = absent
            for (int a = 0; a < 6; ++a) for (int b = 0; b < 6; ++b) for (int c = 0; c < 5; ++c)
                slices.push_back(st_child(s_slice(a > 0, V[a], b > 0, V[b], c > 0, ST[c])));
            Step t = st_child(s_slice(true, 0, true, 2, false, 1), "[0:2:]"); slices.push_back(t);
        }
        {
            std::vector<Sel> m = {s_name("a", "'a'"), s_name("b", "\"b\""), s_name("0", "'0'"), s_index(0), s_index(-1),
                                  s_slice(true, 1, false, 0, false, 1), s_slice(false, 0, false, 0, true, -1), s_slice(false, 0, true, 1, false, 1), s_wild()};
            for (auto& x : m) for (auto& y : m) unions.push_back(st_union({x, y}));
            unions.push_back(st_union({s_index(0), s_index(1), s_index(0)}));
            unions.push_back(st_union({s_name("a", "'a'"), s_name("b", "'b'"), s_name("a", "'a'")}));
            unions.push_back(st_union({s_wild(), s_wild(), s_index(0)}));
            unions.push_back(st_union({s_index(0), s_index(1)}));
            unions.push_back(st_union({s_index(1), s_index(0)}));
            unions.push_back(st_union({s_name("a", "'a'"), s_name("b", "'b'")}));
            unions.push_back(st_union({s_name("a", "'a'"), s_name("a", "'a'")}));
            unions.push_back(st_union({s_name("a", "'a'"), s_slice(true, 1, false, 0, false, 1)}));
            FNode c1 = f_cmp(o_cur(), OP_EQ, o_lit(MV::uint64(1), "1"));
            unions.push_back(st_union({s_filter(c1), s_index(0)}));
            unions.push_back(st_union({s_index(0), s_filter(c1)}));
            Step sp = st_union({s_index(0), s_index(1)}); sp.text = "[ 0 , 1 ]"; unions.push_back(sp);
        }
        {
            FNode c1 = f_cmp(o_cur(), OP_EQ, o_lit(MV::uint64(1), "1"));
            FNode c2 = f_cmp(o_name("a", "@.a"), OP_EQ, o_lit(MV::uint64(1), "1"));
            descs = {
                st_desc({s_name("a", "'a'")}, "..a"), st_desc({s_name("a", "'a'")}), st_desc({s_name("b", "'b'")}, "..b"),
                st_desc({s_wild()}, "..*"), st_desc({s_wild()}), st_desc({s_index(0)}), st_desc({s_index(-1)}),
                st_desc({s_slice(true, 1, false, 0, false, 1)}), st_desc({s_slice(false, 0, false, 0, true, -1)}),
                st_desc({s_index(0), s_index(1)}), st_desc({s_name("a", "'a'"), s_name("b", "'b'")}),
                st_desc({s_filter(c1)}), st_desc({s_filter(c2)}),
                st_desc({s_name("", "''")}), st_desc({s_name("'", "'\\''")}), st_desc({s_name(EA, "'" + EA + "'")}, ".." + EA),
                st_desc({s_name("k", "'k'")}, "..k"),
            };
        }
        {
            std::vector<Operand> paths = {o_cur(), o_name("a", "@.a"), o_name("k", "@.k"), o_idx(0), o_name("b", "@['b']")};
            std::vector<Operand> lits = {o_lit(MV::uint64(1), "1"), o_lit(MV::str("x"), "'x'"), o_lit(MV::boolean(true), "true"), o_lit(MV::null(), "null")};
            for (auto& p : paths) for (int op = 0; op < 6; ++op) for (auto& l : lits) filters.push_back(st_child(s_filter(f_cmp(p, op, l))));
            filters.push_back(st_child(s_filter(f_cmp(lits[0], OP_LT, paths[1]))));
            filters.push_back(st_child(s_filter(f_cmp(lits[1], OP_EQ, paths[0]))));
            filters.push_back(st_child(s_filter(f_cmp(lits[3], OP_EQ, paths[1]))));
            filters.push_back(st_child(s_filter(f_cmp(lits[2], OP_NE, paths[2]))));
            filters.push_back(st_child(s_filter(f_cmp(paths[0], OP_EQ, o_lit(MV::uint64(2), "2")))));
            filters.push_back(st_child(s_filter(f_cmp(paths[0], OP_LT, o_lit(MV::str("y"), "\"y\"")))));
            filters.push_back(st_child(s_filter(f_cmp(paths[2], OP_GT, o_lit(MV::dbl(1.5), "1.5")))));
            filters.push_back(st_child(s_filter(f_cmp(paths[1], OP_EQ, paths[2]))));
            std::vector<FNode> C = {f_cmp(paths[0], OP_EQ, lits[0]), f_cmp(paths[1], OP_EQ, lits[0]), f_cmp(paths[0], OP_NE, lits[1]), f_cmp(paths[2], OP_GT, lits[0])};
            for (auto& x : C) for (auto& y : C) { filters.push_back(st_child(s_filter(f_and(x, y)))); filters.push_back(st_child(s_filter(f_or(x, y)))); }
            for (auto& x : C) filters.push_back(st_child(s_filter(f_not(x))));
            filters.push_back(st_child(s_filter(f_or(C[0], f_and(C[1], C[2])))));
            filters.push_back(st_child(s_filter(f_or(f_and(C[0], C[1]), C[2]))));
            filters.push_back(st_child(s_filter(f_and(f_or(C[0], C[1]), C[2]))));
            filters.push_back(st_child(s_filter(f_and(C[2], f_or(C[0], C[3])))));
            filters.push_back(st_child(s_filter(f_and(f_not(C[0]), C[2]))));
            filters.push_back(st_child(s_filter(f_not(f_or(C[0], C[1])))));
            filters.push_back(st_child(s_filter(f_not(f_not(C[0])))));
            filters.push_back(st_child(s_filter(C[1], 1)));
            filters.push_back(st_child(s_filter(C[0], 2)));
            filters.push_back(st_child(s_filter(f_and(C[0], C[2]), 1)));
        }
        for (const char* t : {"[?(@.a)]", "[?(!@.a)]", "[?(@)]", "[?(@.length == 2)]", "[?(length(@) == 2)]", "[?(@.a.length == 1)]", ".length", "[(@.length - 1)]", "[?(@.k)]"})
            opaque.push_back(st_opaque(t));
        for (auto* v : {&names, &indices, &wilds, &slices, &unions, &descs, &filters, &opaque}) full.insert(full.end(), v->begin(), v->end());
        {   // de-duplicate by text, keep first
            std::set<std::string> seen; std::vector<Step> u;
            for (auto& s : full) if (seen.insert(s.text).second) u.push_back(s);
            full = u;
        }
        // mid: alphabet of the complete 2-step product
        mid = names;
        mid.insert(mid.end(), indices.begin(), indices.end());
        mid.insert(mid.end(), wilds.begin(), wilds.end());
        for (const char* t : {"[:]", "[1:]", "[:1]", "[-1:]", "[:-1]", "[0:5]", "[5:]", "[-5:]", "[::2]", "[::-1]", "[::-2]", "[1::-1]", "[:0:-1]", "[5:0:-2]",
                              "[-1:-5:-1]", "[0:1:1]", "[1:5:2]", "[-5:5:1]", "[1:-1]", "[-1:1:-1]"}) mid.push_back(byname(t));
        for (const char* t : {"[0,1]", "[0,0]", "[1,0]", "['a','b']", "[\"b\",'a']", "['a','a']", "[0,'a']", "['a',0]", "[*,0]", "[0,*]", "[*,*]", "['a',*]",
                              "[1:,0]", "[0,::-1]", "[:1,1:]", "['0',0]", "[?(@ == 1),0]"}) mid.push_back(byname(t));
        mid.insert(mid.end(), descs.begin(), descs.end());
        for (const char* t : {"[?(@ == 1)]", "[?(@ != 1)]", "[?(@ < 1)]", "[?(@ <= 1)]", "[?(@ > 1)]", "[?(@ >= 1)]", "[?(@.a == 1)]", "[?(@.a != 1)]", "[?(@.a < 1)]",
                              "[?(@.a <= 1)]", "[?(@.a > 1)]", "[?(@.a >= 1)]", "[?(@ == 'x')]", "[?(@ != 'x')]", "[?(@ == null)]", "[?(@ != null)]", "[?(@.a == null)]",
                              "[?(@.k == 1)]", "[?(@[0] == 1)]", "[?(@ >= 'x')]", "[?(@ == 1 && @ != 'x')]", "[?(@ == 1 || @.a == 1)]", "[?(!(@ == 1))]",
                              "[?(@ == 1 || @.a == 1 && @ != 'x')]", ".length", "[?(@.a)]", "[?(@.length == 2)]"}) mid.push_back(byname(t));
        for (const char* t : {".a", "['b']", "[0]", "[-1]", "[1]", ".*", "[*]", "[1:]", "[::-1]", "[:5:2]", "[0,1]", "['a','b']", "[0,0]", "[*,0]", "['a',1:]",
                              "..a", "..*", "..[0]", "..[*]", "[?(@.a == 1)]", "[?(@ == 1)]", "[?(@ != 'x')]", "[?(@.a)]", ".length"}) core.push_back(byname(t));
        for (const char* t : {".a", "['b']", "[0]", "[-1]", ".*", "[1:]", "[::-1]", "[0,0]", "['a','b']", "..a", "..*", "[?(@ == 1)]"}) core_s.push_back(byname(t));
        for (const char* t : {".a", "[0]", ".*", "..*"}) pre.push_back(byname(t));
        for (const char* t : {".a", "[0]", "[*]"}) suf.push_back(byname(t));
    }
};

struct Expr { std::vector<Step> steps; std::string text, hextext; bool core = true; };

static Expr mk_expr(const std::vector<Step>& steps) {
    Expr e; e.steps = steps; e.text = "$";
    for (auto& s : steps) { e.text += s.text; if (!s.core) e.core = false; }
    e.hextext = hex(e.text);
    return e;
}

static void expr_set(const Alphabets& A, const std::string& name, std::vector<Expr>& out_list, std::set<std::string>& seen) {
    auto add = [&](const std::vector<Step>& s) { Expr e = mk_expr(s); if (seen.insert(e.text).second) out_list.push_back(std::move(e)); };
    Step up1 = st_opaque("^"), up2 = st_opaque("^^");
    if (name == "one") {
        add({});
        for (auto& s : A.full) add({s});
        add({up1});
    } else if (name == "prefull") {
        for (auto& p : A.pre) for (auto& s : A.full) add({p, s});
        for (auto& s : A.full) for (auto& q : A.suf) add({s, q});
    } else if (name == "mid2") {
        for (auto& a : A.mid) for (auto& b : A.mid) add({a, b});
    } else if (name == "core2") {
        for (auto& a : A.core) for (auto& b : A.core) add({a, b});
    } else if (name == "core3s" || name == "core3") {
        const std::vector<Step>& C = name == "core3" ? A.core : A.core_s;
        for (auto& a : C) for (auto& b : C) for (auto& c : C) add({a, b, c});
        for (auto& a : C) { add({a, up1}); add({a, up2}); }
        for (auto& a : C) for (auto& b : C) { add({a, b, up1}); add({a, b, up2}); }
    } else if (name == "keys") {
        for (auto& a : A.names) for (auto& b : A.names) add({a, b});
        std::vector<Step> w = {A.byname(".*"), A.byname("[*]"), A.byname("..*"), A.byname("[?(@ == 1)]"), A.byname("[0]"), A.byname("[::-1]")};
        for (auto& a : A.names) for (auto& b : w) { add({a, b}); add({b, a}); }
        for (auto& a : A.names) { add({a, up1}); add({A.byname(".*"), a, up1}); add({a, A.byname(".*"), up2}); }
        for (auto& a : w) for (auto& b : w) add({a, b});
    } else fatal("unknown expression set " + name);
}

// ---------------------------------------------------------------------------------------------
// reference evaluator (RFC 9535 semantics for the core selectors) over the node table of a Doc

struct RefFlags { bool abst_name_on_array = false, abst_filter = false, obj_iter = false; };

static bool int_like(const std::string& s) {
    if (s.empty()) return false;
    size_t i = s[0] == '-' ? 1 : 0;
    if (i >= s.size()) return false;
    for (; i < s.size(); ++i) if (s[i] < '0' || s[i] > '9') return false;
    return true;
}
static bool is_num(const MV& m) { return m.k == MV::Int || m.k == MV::UInt || m.k == MV::Dbl; }
static long double numval(const MV& m) { return m.k == MV::Int ? (long double)m.i : m.k == MV::UInt ? (long double)m.u : (long double)m.d(); }
static bool deep_eq(const MV& a, const MV& b) {
    if (is_num(a) && is_num(b)) return numval(a) == numval(b);
    if (a.k != b.k) return false;
    switch (a.k) {
        case MV::Null: return true;
        case MV::Bool: return a.b == b.b;
        case MV::Str: return a.s == b.s;
        case MV::Arr: if (a.a.size() != b.a.size()) return false; for (size_t i = 0; i < a.a.size(); ++i) if (!deep_eq(a.a[i], b.a[i])) return false; return true;
        case MV::Obj:
            if (a.o.size() != b.o.size()) return false;
            for (auto& kv : a.o) { bool f = false; for (auto& kw : b.o) if (kw.first == kv.first) { f = deep_eq(kv.second, kw.second); break; } if (!f) return false; }
            return true;
        default: return false;
    }
}
enum Tri { TF = 0, TT = 1, TA = 2 };
struct RefEval {
    const Doc& d;
    RefFlags fl;
    RefEval(const Doc& doc) : d(doc) {}
    int kid_by_name(int n, const std::string& name) const { const Node& x = d.nodes[n]; for (int k : x.kids) if (d.nodes[k].comps.back().name == name) return k; return -1; }
    // operand value: present + pointer
    bool operand(const Operand& o, int cur, const MV*& v) {
        switch (o.k) {
            case 0: v = d.nodes[cur].mv; return true;
            case 1: {
                const MV* m = d.nodes[cur].mv;
                if (m->k == MV::Obj) { int k = kid_by_name(cur, o.name); if (k < 0) return false; v = d.nodes[k].mv; return true; }
                if (m->k == MV::Arr && int_like(o.name)) fl.abst_name_on_array = true;
                return false;
            }
            case 2: {
                const MV* m = d.nodes[cur].mv;
                if (m->k != MV::Arr) return false;
                long n = (long)m->a.size(), i = o.idx >= 0 ? o.idx : n + o.idx;
                if (i < 0 || i >= n) return false;
                v = &m->a[i]; return true;
            }
            default: v = &o.lit; return true;
        }
    }
    Tri test(const FNode& f, int cur) {
        switch (f.k) {
            case 0: {
                const MV *l = nullptr, *r = nullptr;
                bool lp = operand(f.l, cur, l), rp = operand(f.r, cur, r);
                int op = f.op;
                if (!lp || !rp) {
                    if (op == OP_LT || op == OP_GT) return TF;
                    // jsoncons turns a missing member into null before comparing; RFC 9535 keeps "Nothing" distinct from null
                    if (!lp && !rp) return TA;
                    const MV* other = lp ? l : r;
                    if (other->k == MV::Null) return TA;
                    return op == OP_NE ? TT : TF;
                }
                bool eq = deep_eq(*l, *r);
                if (op == OP_EQ) return eq ? TT : TF;
                if (op == OP_NE) return eq ? TF : TT;
                bool lt, gt;
                if (is_num(*l) && is_num(*r)) { lt = numval(*l) < numval(*r); gt = numval(*l) > numval(*r); }
                else if (l->k == MV::Str && r->k == MV::Str) { int c = l->s.compare(r->s); lt = c < 0; gt = c > 0; }
                else {
                    if (op == OP_LT || op == OP_GT) return TF;
                    return eq ? TA : TF;      // null <= null, true >= true: RFC 9535 says true, jsoncons documents ordering for numbers and strings only
                }
                switch (op) { case OP_LT: return lt ? TT : TF; case OP_LE: return (lt || eq) ? TT : TF; case OP_GT: return gt ? TT : TF; default: return (gt || eq) ? TT : TF; }
            }
            case 1: { Tri a = test(f.ch[0], cur), b = test(f.ch[1], cur); if (a == TA || b == TA) return TA; return (a == TT && b == TT) ? TT : TF; }
            case 2: { Tri a = test(f.ch[0], cur), b = test(f.ch[1], cur); if (a == TA || b == TA) return TA; return (a == TT || b == TT) ? TT : TF; }
            default: { Tri a = test(f.ch[0], cur); if (a == TA) return TA; return a == TT ? TF : TT; }
        }
    }
    void apply_sel(const Sel& s, int n, std::vector<int>& out_nodes) {
        const Node& x = d.nodes[n];
        const MV* m = x.mv;
        switch (s.k) {
            case 0:
                if (m->k == MV::Obj) { int k = kid_by_name(n, s.name); if (k >= 0) out_nodes.push_back(k); }
                else if (m->k == MV::Arr && int_like(s.name)) fl.abst_name_on_array = true;   // jsoncons: $.book.0 indexes arrays (Goessner/JavaScript heritage, in its own test data)
                break;
            case 1:
                if (m->k == MV::Arr) { long len = (long)x.kids.size(), i = s.idx >= 0 ? s.idx : len + s.idx; if (i >= 0 && i < len) out_nodes.push_back(x.kids[i]); }
                break;
            case 2:
                if (m->k == MV::Arr) {
                    long len = (long)x.kids.size(), step = s.st;
                    if (step == 0) break;
                    long start = s.hs ? s.s : (step > 0 ? 0 : len - 1);
                    long end = s.he ? s.e : (step > 0 ? len : -len - 1);
                    long ns = start >= 0 ? start : len + start, ne = end >= 0 ? end : len + end;
                    long lower, upper;
                    if (step > 0) { lower = std::min(std::max(ns, 0L), len); upper = std::min(std::max(ne, 0L), len); for (long i = lower; i < upper; i += step) out_nodes.push_back(x.kids[i]); }
                    else { upper = std::min(std::max(ns, -1L), len - 1); lower = std::min(std::max(ne, -1L), len - 1); for (long i = upper; lower < i; i += step) out_nodes.push_back(x.kids[i]); }
                }
                break;
            case 3:
                if (m->k == MV::Obj && x.kids.size() > 1) fl.obj_iter = true;
                for (int k : x.kids) out_nodes.push_back(k);
                break;
            case 4:
                if (m->k == MV::Obj && x.kids.size() > 1) fl.obj_iter = true;
                for (int k : x.kids) { Tri t = test(*s.f, k); if (t == TA) fl.abst_filter = true; else if (t == TT) out_nodes.push_back(k); }
                break;
        }
    }
    std::vector<int> run(const Expr& e) {
        std::vector<int> cur = {0};
        for (auto& st : e.steps) {
            std::vector<int> next;
            for (int n : cur) {
                if (st.k == 0) { for (auto& s : st.sels) apply_sel(s, n, next); }
                else {
                    for (int v = n; v <= d.nodes[n].last; ++v) {        // preorder over the subtree
                        if (d.nodes[v].mv->k == MV::Obj && d.nodes[v].kids.size() > 1) fl.obj_iter = true;
                        for (auto& s : st.sels) apply_sel(s, v, next);
                    }
                }
            }
            cur.swap(next);
        }
        return cur;
    }
};

// ---------------------------------------------------------------------------------------------
// the check

static long long g_eval = 0;
static const std::string* volatile g_cur_expr_hex = nullptr;
static const std::string* volatile g_cur_doc_hex = nullptr;
static void put(const char* s, size_t n) { ssize_t r = write(1, s, n); (void)r; }
static void on_alarm(int) {   // a pair did not terminate: report it as a violation (async-signal-safe) and end this slice
    static const char a[] = "V\tP|", b[] = "|", c[] = "|hang\tevaluation did not terminate within the watchdog period\nS\thangs\t1\n";
    const std::string* e = g_cur_expr_hex; const std::string* d = g_cur_doc_hex;
    if (e && d) { put(a, sizeof a - 1); put(e->data(), e->size()); put(b, 1); put(d->data(), d->size()); put(c, sizeof c - 1); }
    _exit(0);
}
static void watchdog(unsigned seconds) { static bool inst = false; if (!inst) { signal(SIGALRM, on_alarm); inst = true; } fflush(stdout); alarm(seconds); }
static std::map<std::string, int> g_vcount;
static int g_cap = 8;
static bool g_replay = false;
static bool g_tally = true;   // tally=0: a stage that re-runs pairs another stage already counts (sanitizer build): evaluations only

// at most g_cap violations per oracle id and process are listed (the rest are counted), so that one failing family cannot hide another
static bool listed(const std::string& oracle) {
    int& c = g_vcount[oracle];
    ++c;
    if (c > g_cap && !g_replay) { out().count("violations_not_listed:" + oracle); return false; }
    return true;
}
static void viol_emit(const Expr& e, const Doc& d, const std::string& oracle, const std::string& detail) {
    std::string doc = d.text.size() > 300 ? d.text.substr(0, 300) + "..." : d.text;
    out().viol("P|" + e.hextext + "|" + d.hextext + "|" + oracle, "expr=" + e.text + " doc=" + doc + " :: " + (detail.size() > 900 ? detail.substr(0, 900) + "..." : detail));
}
static void viol(const Expr& e, const Doc& d, const std::string& oracle, const std::string& detail) { if (listed(oracle)) viol_emit(e, d, oracle, detail); }
template <class F> static void viol_lazy(const Expr& e, const Doc& d, const std::string& oracle, F detail) { if (listed(oracle)) viol_emit(e, d, oracle, detail()); }

struct Item {
    std::string path; int node = -1; MV val;
    const MV& value(const Doc& d) const { return node >= 0 ? *d.nodes[node].mv : val; }
};
typedef std::vector<Item> Items;

static bool item_eq(const Doc& d, const Item& a, const Item& b) {
    if (a.path != b.path || a.node != b.node) return false;
    return a.node >= 0 || mv_eq(a.val, b.val);
}
static bool items_eq(const Doc& d, const Items& a, const Items& b) {
    if (a.size() != b.size()) return false;
    for (size_t i = 0; i < a.size(); ++i) if (!item_eq(d, a[i], b[i])) return false;
    return true;
}
static std::string items_text(const Doc& d, const Items& a) {
    std::string o = "[";
    for (size_t i = 0; i < a.size(); ++i) { if (i) o += ", "; o += a[i].path; o += a[i].node >= 0 ? "=" : "~"; o += json_text(a[i].value(d)); if (o.size() > 400) { o += " ..."; break; } }
    return o + "]";
}
static std::string paths_text(const std::vector<std::string>& v) {
    std::string o = "[";
    for (size_t i = 0; i < v.size(); ++i) { if (i) o += ", "; o += v[i]; if (o.size() > 400) { o += " ..."; break; } }
    return o + "]";
}

struct Collector {
    const Doc& d; Items& L;
    void operator()(const std::string& p, const json& v) const {
        Item it; it.path = p;
        auto f = d.by_addr.find(&v);
        if (f != d.by_addr.end()) it.node = f->second; else { it.node = -1; it.val = to_mv(v); }
        L.push_back(std::move(it));
    }
};

// values / paths arrays against a callback list
static std::string cmp_values(const Doc& d, const json& arr, const Items& L) {
    if (!arr.is_array()) return "result is not an array";
    if (arr.size() != L.size()) return "value result has " + std::to_string(arr.size()) + " elements, callback form " + std::to_string(L.size());
    for (size_t i = 0; i < L.size(); ++i)
        if (!mv_eq(to_mv(arr[i]), L[i].value(d))) return "value[" + std::to_string(i) + "]=" + json_text(to_mv(arr[i])) + " but callback form gave " + L[i].path + " = " + json_text(L[i].value(d));
    return "";
}
static std::string cmp_paths(const json& arr, const Items& L) {
    if (!arr.is_array()) return "result is not an array";
    if (arr.size() != L.size()) return "path result has " + std::to_string(arr.size()) + " elements, callback form " + std::to_string(L.size());
    for (size_t i = 0; i < L.size(); ++i) {
        if (!arr[i].is_string() || arr[i].as_string() != L[i].path) return "path[" + std::to_string(i) + "]=" + arr[i].to_string() + " but callback form gave " + L[i].path;
    }
    return "";
}

static const int OPT_N = 1, OPT_S = 2, OPT_D = 4;
static result_options mkopt(int bits) {
    result_options o = result_options();
    if (bits & OPT_N) o = o | result_options::nodups;
    if (bits & OPT_S) o = o | result_options::sort;
    if (bits & OPT_D) o = o | result_options::sort_descending;
    return o;
}
static const char* OPT_NAME[] = {"plain", "nodups", "sort", "nodups_sort", "sortdesc", "nodups_sortdesc"};
static int opt_index(int bits) { switch (bits) { case 0: return 0; case 1: return 1; case 2: return 2; case 3: return 3; case 4: return 4; default: return 5; } }

static const std::string LONGV = "REPLACED-VALUE-0123456789-abcdefghijklmnopqrstuvwxyz";   // > 30 chars: heap string, moves are observable

static MV replaced_copy(const Doc& d, int n, const std::vector<char>& sel) {
    if (sel[n]) return MV::str(LONGV);
    const Node& x = d.nodes[n];
    MV m = *x.mv;
    if (m.k == MV::Arr) for (size_t i = 0; i < x.kids.size(); ++i) m.a[i] = replaced_copy(d, x.kids[i], sel);
    else if (m.k == MV::Obj) for (size_t i = 0; i < x.kids.size(); ++i) m.o[i].second = replaced_copy(d, x.kids[i], sel);
    return m;
}

// what went wrong with a replaced document, in words
static std::string diff_docs(const Doc& d, const json& got, const std::vector<char>& sel, bool& only_selected_wrong, int& n_right) {
    only_selected_wrong = true; n_right = 0;
    std::string o;
    MVCmp c;
    // walk the original shape as far as it survives
    std::function<void(int, const json*)> walk = [&](int n, const json* j) {
        const Node& x = d.nodes[n];
        if (sel[n]) {
            if (j && mv_eq(to_mv(*j), MV::str(LONGV))) ++n_right;
            else { o += " " + x.path + " is selected but now holds " + (j ? json_text(to_mv(*j)) : std::string("<missing>")) + ";"; }
            return;
        }
        if (!j) { only_selected_wrong = false; o += " " + x.path + " is missing;"; return; }
        MV m = to_mv(*j);
        if (x.mv->k != m.k) { only_selected_wrong = false; o += " " + x.path + " not selected but changed to " + json_text(m) + ";"; return; }
        if (m.k == MV::Arr) {
            if (m.a.size() != x.kids.size()) { only_selected_wrong = false; o += " " + x.path + " changed size;"; return; }
            for (size_t i = 0; i < x.kids.size(); ++i) walk(x.kids[i], &j->at(i));
        } else if (m.k == MV::Obj) {
            if (m.o.size() != x.kids.size()) { only_selected_wrong = false; o += " " + x.path + " changed size;"; return; }
            for (size_t i = 0; i < x.kids.size(); ++i) {
                const std::string& key = d.nodes[x.kids[i]].comps.back().name;
                walk(x.kids[i], j->contains(key) ? &j->at(key) : nullptr);
            }
        } else if (!mv_eq(m, *x.mv, c)) { only_selected_wrong = false; o += " " + x.path + " not selected but changed to " + json_text(m) + ";"; }
    };
    walk(0, &got);
    return o;
}

struct Compiled {
    std::unique_ptr<jp::jsonpath_expression<json>> ex;
    bool rejected = false; std::string err;
};

static Compiled compile(const Expr& e) {
    Compiled c;
    try { ++g_eval; c.ex.reset(new jp::jsonpath_expression<json>(jp::make_expression<json>(e.text))); }
    catch (const jp::jsonpath_error& x) { c.rejected = true; c.err = x.what(); }
    return c;
}

static void check_pair(const Expr& e, Compiled& C, Doc& d, bool full) {
    if (g_fatal) return;
    const json& root = d.root;
    g_cur_expr_hex = &e.hextext; g_cur_doc_hex = &d.hextext;
    try {
        if (C.rejected) {
            // one-shot must reject too
            bool threw = false;
            try { ++g_eval; json r = jp::json_query(root, e.text); } catch (const jp::jsonpath_error&) { threw = true; }
            if (!threw) viol(e, d, "forms_reject", "make_expression rejects (" + C.err + ") but json_query accepts");
            return;
        }
        auto& ex = *C.ex;
        // ---- plain result in its three shapes
        Items L0;
        ++g_eval; ex.evaluate(root, Collector{d, L0});
        ++g_eval; json V0 = ex.evaluate(root);
        ++g_eval; json P0 = ex.evaluate(root, result_options::path);
        { std::string w = cmp_values(d, V0, L0); if (!w.empty()) viol(e, d, "pv_value", w); }
        { std::string w = cmp_paths(P0, L0); if (!w.empty()) viol(e, d, "pv_path", w); }
        // ---- each path addresses the value delivered with it
        std::vector<Comps> comps0(L0.size());
        bool has_computed = false;
        for (size_t i = 0; i < L0.size(); ++i) {
            const Item& it = L0[i];
            if (it.node >= 0) {
                comps0[i] = d.nodes[it.node].comps;
                if (d.nodes[it.node].path != it.path)
                    viol(e, d, "pv_identity", "result " + std::to_string(i) + ": path " + it.path + " was delivered with the node at " + d.nodes[it.node].path);
                continue;
            }
            has_computed = true;
            if (!parse_npath(it.path, comps0[i])) { viol(e, d, "pv_pathsyntax", "result " + std::to_string(i) + ": " + it.path + " is not a normalized path"); continue; }
            auto f = d.by_path.find(render_path(comps0[i]));
            if (f != d.by_path.end()) {
                // a copy of a document node: equality is enough
                if (!mv_eq(*d.nodes[f->second].mv, it.val)) viol(e, d, "pv_copy", "result " + std::to_string(i) + ": value " + json_text(it.val) + " is not the value at " + it.path);
                else out().count("results_copy_equal");
            } else {
                // documented extension: length of arrays and strings
                bool ok = false;
                if (!comps0[i].empty() && comps0[i].back().is_name && comps0[i].back().name == "length") {
                    Comps par(comps0[i].begin(), comps0[i].end() - 1);
                    auto g = d.by_path.find(render_path(par));
                    if (g != d.by_path.end()) {
                        const MV* pm = d.nodes[g->second].mv;
                        long long len = -1;
                        if (pm->k == MV::Arr) len = (long long)pm->a.size();
                        else if (pm->k == MV::Str) { len = 0; for (unsigned char ch : pm->s) if ((ch & 0xC0) != 0x80) ++len; }
                        if (len >= 0 && is_num(it.val) && numval(it.val) == (long double)len) ok = true;
                    }
                }
                if (ok) out().count("results_computed_length");
                else viol(e, d, "pv_unresolvable", "result " + std::to_string(i) + ": path " + it.path + " (value " + json_text(it.val) + ") does not address anything in the document");
            }
        }
        // ---- nodups / sort / sort_descending
        // level=lite and nothing selected: the option variants are still evaluated in callback form, the array forms and the
        // one-shot form (a fresh compilation of the same text) are left to the level=full stages
        const bool slim = !full && L0.empty();
        Items LNS;
        for (int bits : {OPT_N, OPT_S, OPT_N | OPT_S, OPT_D, OPT_N | OPT_D}) {
            Items want = L0;
            std::vector<size_t> ord(L0.size());
            for (size_t i = 0; i < ord.size(); ++i) ord[i] = i;
            bool mixed = false;
            if (bits & (OPT_S | OPT_D)) {
                bool desc = (bits & OPT_D) != 0;
                std::stable_sort(ord.begin(), ord.end(), [&](size_t a, size_t b) { int c = cmp_comps(comps0[a], comps0[b], mixed); return desc ? c > 0 : c < 0; });
            }
            if (bits & OPT_N) {
                std::set<std::string> seen; std::vector<size_t> u;
                for (size_t i : ord) if (seen.insert(L0[i].path).second) u.push_back(i);
                ord = u;
            }
            want.clear();
            for (size_t i : ord) want.push_back(L0[i]);
            Items got;
            ++g_eval; ex.evaluate(root, Collector{d, got}, mkopt(bits));
            const char* on = OPT_NAME[opt_index(bits)];
            if (mixed) out().count("abstain_sort_name_vs_index");
            else if (!items_eq(d, got, want)) viol_lazy(e, d, std::string("opts_") + on, [&] { return "plain=" + items_text(d, L0) + " with " + on + " got " + items_text(d, got) + " expected " + items_text(d, want); });
            if (!slim) {
                ++g_eval; json Vo = ex.evaluate(root, mkopt(bits));
                ++g_eval; json Po = ex.evaluate(root, mkopt(bits) | result_options::path);
                { std::string w = cmp_values(d, Vo, got); if (!w.empty()) viol(e, d, std::string("forms_value_") + on, w); }
                { std::string w = cmp_paths(Po, got); if (!w.empty()) viol(e, d, std::string("forms_path_") + on, w); }
            }
            if (bits == (OPT_N | OPT_S)) LNS = got;
            if (full) {
                Items g1;
                ++g_eval; jp::json_query(root, e.text, Collector{d, g1}, mkopt(bits));
                if (!items_eq(d, g1, got)) viol(e, d, std::string("forms_oneshot_cb_") + on, "one-shot callback " + items_text(d, g1) + " compiled " + items_text(d, got));
                {
                    ++g_eval; json v1 = jp::json_query(root, e.text, mkopt(bits));
                    ++g_eval; json p1 = jp::json_query(root, e.text, mkopt(bits) | result_options::path);
                    { std::string w = cmp_values(d, v1, got); if (!w.empty()) viol(e, d, std::string("forms_oneshot_value_") + on, w); }
                    { std::string w = cmp_paths(p1, got); if (!w.empty()) viol(e, d, std::string("forms_oneshot_path_") + on, w); }
                }
            }
        }
        // ---- one-shot forms, plain
        if (!slim) {
            Items g1;
            ++g_eval; jp::json_query(root, e.text, Collector{d, g1});
            if (!items_eq(d, g1, L0)) viol(e, d, "forms_oneshot_cb_plain", "one-shot callback " + items_text(d, g1) + " compiled " + items_text(d, L0));
            if (full) {
                ++g_eval; json v1 = jp::json_query(root, e.text);
                ++g_eval; json p1 = jp::json_query(root, e.text, result_options::path);
                { std::string w = cmp_values(d, v1, L0); if (!w.empty()) viol(e, d, "forms_oneshot_value_plain", w); }
                { std::string w = cmp_paths(p1, L0); if (!w.empty()) viol(e, d, "forms_oneshot_path_plain", w); }
            }
        }
        // ---- select_paths (default nodups|sort) and to_string(json_location)
        {
            ++g_eval; std::vector<jp::json_location> locs = ex.select_paths(root);
            bool ok = locs.size() == LNS.size();
            std::vector<std::string> got;
            for (auto& l : locs) got.push_back(jp::to_string(l));
            for (size_t i = 0; ok && i < got.size(); ++i) if (got[i] != LNS[i].path) ok = false;
            if (!ok) viol(e, d, "forms_select_paths", "select_paths gave " + paths_text(got) + " but nodups|sort gave " + items_text(d, LNS));
        }
        // ---- the queried document is unchanged
        if (!mv_eq(to_mv(root), d.mv)) { viol(e, d, "unchanged", "document after the queries: " + json_text(to_mv(root))); fatal("document modified by a query; stopping this slice"); }
        // ---- json_replace
        std::vector<char> sel(d.nodes.size(), 0);
        std::set<std::string> dpaths;
        int nsel = 0;
        for (auto& it : L0) { dpaths.insert(it.path); if (it.node >= 0 && !sel[it.node]) { sel[it.node] = 1; ++nsel; } }
        // outermost selected locations decide the final document
        MV want_doc = replaced_copy(d, 0, sel);
        const json NV(LONGV);
        // The value overload is `T&& new_value` guarded by is_json_traits_specialized<Json,T>: T deduced from an lvalue is a
        // reference type and is rejected at compile time, so only prvalues / xvalues can be passed.  Forms exercised:
        // const char* prvalue (copy semantics), json xvalue, callback, std::string xvalue.
        for (int mode = 0; mode < 4; ++mode) {
            if (mode > 0 && L0.empty() && !full) continue;      // nothing selected: the overloads cannot differ observably; one is enough
            if (mode == 3 && !full) continue;
            json copy = from_mv<json>(d.mv);
            std::vector<std::string> cbpaths;
            const char* mname = mode == 0 ? "cstr" : mode == 1 ? "rvalue" : mode == 2 ? "callback" : "string";
            ++g_eval;
            if (mode == 0) {
                jp::json_replace(copy, e.text, static_cast<const char*>(LONGV.c_str()));
            } else if (mode == 1) {
                json nv(LONGV);
                jp::json_replace(copy, e.text, std::move(nv));
            } else if (mode == 2) {
                jp::json_replace(copy, e.text, [&](const std::string& p, json& v) { cbpaths.push_back(p); v = NV; });
            } else {
                std::string sv(LONGV);
                jp::json_replace(copy, e.text, std::move(sv));
            }
            MV got = to_mv(copy);
            if (!mv_eq(got, want_doc)) {
                bool only_sel = false; int nright = 0;
                std::string w = diff_docs(d, copy, sel, only_sel, nright);
                std::string id = std::string("replace_") + mname;
                // the family "an rvalue new value is moved into the first match, the other matches receive what was moved out":
                // >= 2 selected locations, nothing outside the selected locations differs
                if ((mode == 1 || mode == 3) && only_sel && nsel >= 2) id = std::string("replace_") + mname + "_moved";
                viol_lazy(e, d, id, [&] { return "selected " + paths_text(std::vector<std::string>(dpaths.begin(), dpaths.end())) + " after json_replace(" + mname + "): " + json_text(got) + " expected " + json_text(want_doc) + " ::" + w; });
            }
            if (mode == 2) {
                std::set<std::string> cs(cbpaths.begin(), cbpaths.end());
                if (cs != dpaths) viol(e, d, "replace_callback_paths", "callback called for " + paths_text(cbpaths) + " but the query selects " + paths_text(std::vector<std::string>(dpaths.begin(), dpaths.end())));
                if (cbpaths.size() != cs.size()) out().count("replace_callback_repeated_path");
            }
        }
        // ---- reference evaluator
        if (e.core) {
            RefEval R(d);
            std::vector<int> want = R.run(e);
            if (R.fl.abst_name_on_array) out().count("abstain_ref_integer_name_on_array");
            else if (R.fl.abst_filter) out().count("abstain_ref_filter_missing_vs_null_or_unordered");
            else {
                std::vector<std::string> wp, gp;
                for (int n : want) wp.push_back(d.nodes[n].path);
                for (auto& it : L0) gp.push_back(it.path);
                out().count("ref_compared");
                if (wp != gp) {
                    std::vector<std::string> ws = wp, gs = gp;
                    std::sort(ws.begin(), ws.end()); std::sort(gs.begin(), gs.end());
                    if (ws == gs && R.fl.obj_iter) out().count("ref_equal_as_multiset_only");
                    else viol(e, d, "ref", "jsoncons selects " + paths_text(gp) + " the selector semantics define " + paths_text(wp));
                }
            }
        } else out().count("ref_not_core");
        if (!g_tally) out().count("pairs_rechecked_in_another_build_or_level");
        else {
            if (has_computed) out().count("pairs_with_computed_results");
            if (!L0.empty()) { out().count("nontrivial"); if (dpaths.size() != L0.size()) out().count("pairs_with_duplicates"); }
            else out().count("pairs_empty_selection");
            out().count("pairs");
        }
    } catch (const std::exception& x) {
        viol(e, d, "exception", std::string("exception escaped: ") + x.what());
    }
}

// Stage G: every node's normalized path resolves to the node
static void check_node_paths(Doc& d) {
    const json& root = d.root;
    for (size_t n = 0; n < d.nodes.size(); ++n) {
        const Node& x = d.nodes[n];
        Expr e; e.text = x.path; e.hextext = hex(x.path); e.core = false;
        try {
            ++g_eval;
            jp::json_location loc = jp::json_location::parse(x.path);
            std::string back = jp::to_string(loc);
            if (back != x.path) viol(e, d, "loc_to_string", "to_string(json_location::parse(p)) = " + back);
            ++g_eval;
            auto r = jp::get(root, loc);
            if (!r.second) viol(e, d, n == 0 ? "get_root" : "get", "jsonpath::get reports not found");
            else if (r.first != x.addr) viol(e, d, "get", "jsonpath::get returns another node");
            json copy = from_mv<json>(d.mv);
            auto r2 = jp::get(copy, loc);
            if (r2.second && !mv_eq(to_mv(*r2.first), *x.mv)) viol(e, d, "get", "jsonpath::get on a copy returns " + json_text(to_mv(*r2.first)));
            // a normalized path is itself a query that selects exactly this node
            Items L;
            ++g_eval; jp::json_query(root, x.path, Collector{d, L});
            if (L.size() != 1 || L[0].node != (int)n || L[0].path != x.path) viol(e, d, "npath_query", "used as a query it selects " + items_text(d, L));
            out().count("node_paths");
            if (g_tally) out().count("nontrivial");
        } catch (const std::exception& ex) { viol(e, d, "exception", std::string("exception escaped: ") + ex.what()); }
    }
}

static std::vector<Expr> build_exprs(const std::string& spec, const std::string& minus = "") {
    static Alphabets A;
    std::vector<Expr> v, drop; std::set<std::string> seen;
    for (auto& n : split(minus, ',')) if (!n.empty()) expr_set(A, n, drop, seen);     // expressions another stage covers
    for (auto& n : split(spec, ',')) if (!n.empty()) expr_set(A, n, v, seen);
    return v;
}

int main(int argc, char** argv) {
    Args args(argc, argv);
    out().viol_cap = 1000000;
    if (args.replay) {
        g_replay = true;
        auto parts = split(args.sig, '|');
        if (parts.size() != 4 || parts[0] != "P") { out().error("bad signature"); out().flush(); return 0; }
        std::string etext = unhex(parts[1]);
        std::unique_ptr<Doc> d = make_doc(parse_doc_text(unhex(parts[2])));
        const std::string& oracle = parts[3];
        if (oracle == "get" || oracle == "get_root" || oracle == "npath_query" || oracle == "loc_to_string") { check_node_paths(*d); }
        else {
            std::vector<Expr> all = build_exprs("one,prefull,mid2,core2,core3,keys");
            const Expr* f = nullptr;
            for (auto& e : all) if (e.text == etext) { f = &e; break; }
            Expr tmp;
            if (!f) { tmp.text = etext; tmp.hextext = hex(etext); tmp.core = false; f = &tmp; }   // unknown expression: consistency oracles only
            Compiled C = compile(*f);
            watchdog(120);
            check_pair(*f, C, *d, true);
            alarm(0);
        }
        out().count("evaluations", g_eval);
        out().flush();
        return 0;
    }
    std::string mode = args.a.empty() ? "" : args.a[0];
    std::string docs = args.get("docs", "S");
    int maxn = (int)args.geti("n", 3), minn = (int)args.geti("from", 1);
    make_docs(docs, maxn, minn);
    if (g_fatal) { out().flush(); return 0; }
    out().gauge("documents_" + docs, (long long)g_docs.size());
    if (mode == "G") {
        g_tally = args.geti("tally", 1) != 0;
        for (size_t i = 0; i < g_docs.size(); ++i) if ((int)(i % args.nslices) == args.slice) check_node_paths(*g_docs[i]);
    } else if (mode == "P") {
        std::vector<Expr> ex = build_exprs(args.get("exprs", "one"), args.get("minus", ""));
        g_tally = args.geti("tally", 1) != 0;
        bool full = args.get("level", "full") == "full";
        out().gauge("expressions_" + args.get("exprs", "one") + (args.get("minus", "").empty() ? "" : "-" + args.get("minus", "")), (long long)ex.size());
        long long ncore = 0, nrej = 0, nexpr = 0;
        for (size_t i = 0; i < ex.size(); ++i) {
            if ((int)(i % args.nslices) != args.slice) continue;
            const Expr& e = ex[i];
            ++nexpr;
            Compiled C = compile(e);
            if (C.rejected) { ++nrej; out().cls("rejected:" + e.text); }
            if (e.core) ++ncore;
            for (auto& s : e.steps) out().cls(std::string("step:") + (s.k == 2 ? "opaque" : s.k == 1 ? "descendant" : s.sels.size() > 1 ? "union" : s.sels[0].k == 0 ? "name" : s.sels[0].k == 1 ? "index" : s.sels[0].k == 2 ? "slice" : s.sels[0].k == 3 ? "wildcard" : "filter"));
            watchdog(300);
            for (auto& d : g_docs) { check_pair(e, C, *d, full); if (g_fatal) break; }
            alarm(0);
            if (g_fatal) break;
            if (i % 997 == 0 && !g_docs.empty()) out().sample("P expr=" + e.text + " doc=" + g_docs[i % g_docs.size()]->text);
        }
        if (g_tally) out().count("expressions_x_stages", nexpr);
        out().count("expressions_core", ncore);
        out().count("expressions_rejected_by_compiler", nrej);
    } else out().error("usage: c12 P|G docs=S|K|H n=<max nodes> [from=<min nodes>] exprs=<sets> level=full|lite <slice> <nslices> | replay <sig>");
    out().count("evaluations", g_eval);
    out().flush();
    return 0;
}
