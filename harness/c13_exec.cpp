// C13 executor: evaluates JMESPath expressions with the real jsoncons code, batch mode.
//
// stdin : one case per line   "<hex expression> <hex document json>"
// stdout: one line per case, tab separated
//           OK   <compact json result>            [ MISMATCH <what> ...]
//           ERR  <class>  <errc value>  <message> [ MISMATCH <what> ...]
//           EXC  <what>
//           HANG                                   (then the process exits with status 3)
//         class in {syntax, invalid-type, invalid-arity, unknown-function, invalid-value, other}
// For every case the expression is run through
//   (a) jmespath::search(doc, expr, ec)
//   (b) jmespath::make_expression<json>(expr, ec) then evaluate(doc, ec) twice on the same compiled expression
//   (c) search of "(expr)" and of "expr | @"      (skipped when (a) is a syntax error)
//   (d) the throwing overload search(doc, expr)
// and the document is compared (compact dump and MV text) before/after.  Disagreements among (a)-(d) are
// appended as MISMATCH fields; the Python driver compares (a) with the reference interpreter.
#include <jsoncons/json.hpp>
#include <jsoncons_ext/jmespath/jmespath.hpp>
#include "common.hpp"
#include <iostream>

using jsoncons::json;
namespace jmespath = jsoncons::jmespath;

static std::string obuf;

static void flush_out() {
    size_t off = 0;
    while (off < obuf.size()) {
        ssize_t r = write(1, obuf.data() + off, obuf.size() - off);
        if (r <= 0) break;
        off += size_t(r);
    }
    obuf.clear();
}

static void on_alarm(int) {
    static const char msg[] = "HANG\n";
    ssize_t r = write(1, msg, sizeof msg - 1); (void)r;
    _exit(3);
}

static const char* err_class(const std::error_code& ec) {
    if (ec.category() != jmespath::jmespath_error_category()) return "other";
    switch (static_cast<jmespath::jmespath_errc>(ec.value())) {
        case jmespath::jmespath_errc::invalid_type:
        case jmespath::jmespath_errc::invalid_argument: return "invalid-type";
        case jmespath::jmespath_errc::invalid_arity: return "invalid-arity";
        case jmespath::jmespath_errc::unknown_function: return "unknown-function";
        case jmespath::jmespath_errc::step_cannot_be_zero: return "invalid-value";
        case jmespath::jmespath_errc::undefined_variable:
        case jmespath::jmespath_errc::identifier_not_found:
        case jmespath::jmespath_errc::unknown_error: return "other";
        default: return "syntax";
    }
}

static std::string clean(std::string s) {
    for (auto& c : s) if (c == '\t' || c == '\n' || c == '\r') c = ' ';
    return s;
}

struct Outcome {
    bool ok = false;
    std::string text;   // "OK\t<json>" or "ERR\t<class>\t<value>\t<message>"
    std::string cls;    // error class, empty if ok
    std::string key() const { return ok ? text : "ERR\t" + cls; }
};

static Outcome from_value(const json& v) {
    Outcome o; o.ok = true;
    std::string s;
    v.dump(s);
    o.text = "OK\t" + s;
    return o;
}

static Outcome from_error(const std::error_code& ec) {
    Outcome o; o.ok = false; o.cls = err_class(ec);
    o.text = "ERR\t" + o.cls + "\t" + std::to_string(ec.value()) + "\t" + clean(ec.message());
    return o;
}

static Outcome one_shot(const json& doc, const std::string& expr) {
    std::error_code ec;
    json r = jmespath::search(doc, expr, ec);
    return ec ? from_error(ec) : from_value(r);
}

static void run_case(const std::string& expr, const std::string& doctext) {
    json doc = json::parse(doctext);
    std::string before;
    doc.dump(before);

    Outcome a = one_shot(doc, expr);
    std::string mism;
    auto differ = [&](const char* what, const Outcome& o) {
        if (o.key() != a.key()) { mism += "\tMISMATCH "; mism += what; mism += " -> "; mism += clean(o.text); }
    };

    {   // (b) compiled
        std::error_code ec;
        auto compiled = jmespath::make_expression<json>(expr, ec);
        if (ec) differ("make_expression", from_error(ec));
        else {
            for (int round = 0; round < 2; ++round) {
                std::error_code ec2;
                json r = compiled.evaluate(doc, ec2);
                differ(round == 0 ? "compiled.evaluate" : "compiled.evaluate(2nd)", ec2 ? from_error(ec2) : from_value(r));
            }
        }
    }
    if (a.ok || a.cls != "syntax") {   // (c) algebraic identities
        differ("(e)", one_shot(doc, "(" + expr + ")"));
        differ("e | @", one_shot(doc, expr + " | @"));
    }
    {   // (d) throwing overload
        Outcome t;
        try { t = from_value(jmespath::search(doc, expr)); }
        catch (const jmespath::jmespath_error& e) { t = from_error(e.code()); }
        differ("search (throwing)", t);
    }
    std::string after;
    doc.dump(after);
    if (after != before) { mism += "\tMISMATCH document modified -> " + clean(after); }

    obuf += a.text;
    obuf += mism;
    obuf += "\n";
}

int main() {
    signal(SIGALRM, on_alarm);
    std::string line;
    while (std::getline(std::cin, line)) {
        if (line.empty()) continue;
        size_t sp = line.find(' ');
        std::string expr = vf::unhex(line.substr(0, sp));
        std::string doc = sp == std::string::npos ? std::string("null") : vf::unhex(line.substr(sp + 1));
        alarm(20);
        try {
            run_case(expr, doc);
        } catch (const std::exception& e) {
            obuf += "EXC\t" + clean(e.what()) + "\n";
        } catch (...) {
            obuf += "EXC\tunknown\n";
        }
        alarm(0);
        flush_out();
    }
    return 0;
}
