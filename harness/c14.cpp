// C14 — JSON Pointer operations follow RFC 6901.
//  syntax : every string over {/ ~ 0 1 a} up to a length: parse accepts exactly the RFC 6901 grammar, to_string(parse(s)) == s,
//           tokens equal the reference un-escaping, escape / escape_string / operator/= / append agree with the reference escaping.
//  edit   : breadth-first search over edit histories.  State = document (canonical text), transition = one real call of
//           add / add_if_absent / replace / remove (pointer x value alphabet); in every state every pointer is also looked up with
//           get / contains.  Oracle = reference resolution written from RFC 6901 over the model value MV (below).
//  flat   : every tree up to a node bound whose member names are not array-index-like: unflatten(flatten(d)) == d.
// Signatures:  PS|<hex pointer string>
//              PE|<json|ojson>|<hex start document>|<op>;<op>;...   op = <name>:<hex pointer string>:<hex value json>
//                   names: add aia rep rem (+ 'c' = create_if_missing, + '!' = json_pointer object + throwing overload), get
//              PF|<json|ojson>|<hex document>
#include "rfc8259_ref.hpp"
#include "tree_enum.hpp"
#include <jsoncons/json.hpp>
#include <jsoncons_ext/jsonpointer/jsonpointer.hpp>
#include <unordered_set>

using namespace vf;
using jsoncons::json; using jsoncons::ojson;
namespace jp = jsoncons::jsonpointer;

// ---------------------------------------------------------------------------
// Reference: RFC 6901
//   json-pointer = *( "/" reference-token ) ; reference-token = *( unescaped / escaped ) ; escaped = "~" ( "0" / "1" )
//   unescaped = any character except "/" and "~"
static bool ref_syntax_ok(const std::string& s) {
    if (s.empty()) return true;
    if (s[0] != '/') return false;
    for (size_t i = 0; i < s.size(); ++i)
        if (s[i] == '~' && !(i + 1 < s.size() && (s[i + 1] == '0' || s[i + 1] == '1'))) return false;
    return true;
}
static std::string replace_all(std::string s, const std::string& from, const std::string& to) {
    std::string o; size_t i = 0;
    while (i < s.size()) { if (s.compare(i, from.size(), from) == 0) { o += to; i += from.size(); } else o.push_back(s[i++]); }
    return o;
}
// section 4: "first transforming any occurrence of the sequence '~1' to '/', and then transforming any occurrence of '~0' to '~'"
static std::string ref_unescape(const std::string& t) { return replace_all(replace_all(t, "~1", "/"), "~0", "~"); }
// section 3: '~' is encoded as '~0' and '/' as '~1' ('~' first, so that the '~' of '~1' is not encoded again)
static std::string ref_escape(const std::string& t) { return replace_all(replace_all(t, "~", "~0"), "/", "~1"); }
static std::vector<std::string> ref_tokens(const std::string& s) {   // s is syntactically valid
    std::vector<std::string> v;
    if (s.empty()) return v;
    std::string cur;
    for (size_t i = 1; i <= s.size(); ++i) {
        if (i == s.size() || s[i] == '/') { v.push_back(ref_unescape(cur)); cur.clear(); } else cur.push_back(s[i]);
    }
    return v;
}
static std::string ref_pointer(const std::vector<std::string>& toks) {
    std::string s; for (auto& t : toks) { s.push_back('/'); s += ref_escape(t); } return s;
}
// section 4: array-index = %x30 / ( %x31-39 *(%x30-39) ).  Values that do not fit 64 bits are larger than any array.
static bool ref_index(const std::string& t, uint64_t& v) {
    if (t.empty()) return false;
    for (char c : t) if (c < '0' || c > '9') return false;
    if (t.size() > 1 && t[0] == '0') return false;
    unsigned __int128 acc = 0;
    for (char c : t) { acc = acc * 10 + unsigned(c - '0'); if (acc > (unsigned __int128)UINT64_MAX) { v = UINT64_MAX; return true; } }
    v = (uint64_t)acc;
    return true;
}
static MV* obj_find(MV& o, const std::string& k) { for (auto& kv : o.o) if (kv.first == k) return &kv.second; return nullptr; }

// evaluation (section 4); '-' never names an existing element
static MV* ref_resolve(MV& doc, const std::vector<std::string>& toks, size_t n, bool create_missing = false) {
    MV* cur = &doc;
    for (size_t i = 0; i < n; ++i) {
        const std::string& t = toks[i];
        if (cur->k == MV::Obj) {
            MV* nx = obj_find(*cur, t);
            if (!nx) {
                if (!create_missing) return nullptr;
                cur->o.emplace_back(t, MV::obj());
                nx = &cur->o.back().second;
            }
            cur = nx;
        } else if (cur->k == MV::Arr) {
            uint64_t v;
            if (!ref_index(t, v) || v >= cur->a.size()) return nullptr;
            cur = &cur->a[(size_t)v];
        } else return nullptr;
    }
    return cur;
}

enum Op { ADD = 0, AIA, REP, REM, NOPS };
static const char* OPNAME[] = {"add", "aia", "rep", "rem"};
enum RefStatus { RS_OK, RS_ERR, RS_UNSPEC };

// edits: jsoncons documentation (doc/ref/jsonpointer/*.md) + RFC 6901 resolution.  Works on a copy; `doc` is only replaced on success.
static RefStatus ref_edit(MV& doc, int op, const std::vector<std::string>& toks, const MV& val, bool cim) {
    if (toks.empty()) {
        if (op == ADD || op == REP) { doc = val; return RS_OK; }   // the whole document is the addressed location
        return RS_UNSPEC;   // add_if_absent at the root (it always exists, but it is not "an object member"), remove of the root: not fixed by the documentation
    }
    MV work = doc;
    MV* parent = ref_resolve(work, toks, toks.size() - 1, cim && op != REM);
    if (!parent) return RS_ERR;
    const std::string& t = toks.back();
    if (parent->k == MV::Arr) {
        if (t == "-") {
            if (op == ADD || op == AIA) parent->a.push_back(val); else return RS_ERR;   // past-the-end: nothing to replace/remove
        } else {
            uint64_t v;
            if (!ref_index(t, v)) return RS_ERR;
            if (op == ADD || op == AIA) { if (v > parent->a.size()) return RS_ERR; parent->a.insert(parent->a.begin() + (size_t)v, val); }
            else if (op == REP) { if (v >= parent->a.size()) return RS_ERR; parent->a[(size_t)v] = val; }
            else { if (v >= parent->a.size()) return RS_ERR; parent->a.erase(parent->a.begin() + (size_t)v); }
        }
    } else if (parent->k == MV::Obj) {
        MV* ex = obj_find(*parent, t);
        if (op == ADD) { if (ex) *ex = val; else parent->o.emplace_back(t, val); }
        else if (op == AIA) { if (ex) return RS_ERR; parent->o.emplace_back(t, val); }
        else if (op == REP) { if (ex) *ex = val; else if (cim) parent->o.emplace_back(t, val); else return RS_ERR; }
        else {
            if (!ex) return RS_ERR;
            for (size_t i = 0; i < parent->o.size(); ++i) if (parent->o[i].first == t) { parent->o.erase(parent->o.begin() + i); break; }
        }
    } else return RS_ERR;
    doc = work;
    return RS_OK;
}

static MVCmp value_cmp() { MVCmp c; c.order_insensitive = true; c.num_by_value = true; return c; }
static MV parse_or_die(const std::string& text) {
    RefResult r = ref_parse(text);
    if (!r.ok) { out().error("cannot parse JSON text: " + text); out().flush(); exit(0); }
    return r.v;
}

// ---------------------------------------------------------------------------
// syntax
static long long g_eval = 0, g_nontrivial = 0;
static std::set<std::string> g_classes;

static void check_syntax(const std::string& s) {
    std::string sig = "PS|" + hex(s);
    bool rok = ref_syntax_ok(s);
    std::string why;
    ++g_eval;
    try {
        std::error_code ec;
        jp::json_pointer p = jp::json_pointer::parse(s, ec);
        bool iok = !ec;
        bool cok = true; try { jp::json_pointer q(s); if (rok && q != p) why = "constructor and parse() give different pointers"; } catch (const jp::jsonpointer_error&) { cok = false; }
        std::error_code ec2; jp::json_pointer q2(s, ec2);
        if (iok != rok) why = iok ? "parse() accepts a string that is not an RFC 6901 pointer" : ("parse() rejects a valid RFC 6901 pointer: " + ec.message());
        else if (cok != rok) why = cok ? "constructor accepts an invalid pointer" : "constructor throws on a valid pointer";
        else if ((!ec2) != rok) why = "json_pointer(s, ec) disagrees with parse()";
        else if (rok) {
            std::vector<std::string> rt = ref_tokens(s);
            if (p.tokens() != rt) { why = "tokens differ from the RFC 6901 un-escaping: impl ["; for (auto& t : p.tokens()) why += t + ","; why += "] ref ["; for (auto& t : rt) why += t + ","; why += "]"; }
            else if (p.to_string() != s) why = "to_string(parse(s)) = " + p.to_string();
            else if (jp::to_string(p) != s) why = "jsonpointer::to_string differs";
            else if (p.empty() != rt.empty()) why = "empty() wrong";
            else {
                jp::json_pointer q, q3, q4;
                for (auto& t : rt) { q /= t; q3.append(jsoncons::string_view(t)); q4 = q4 / t; }
                if (q != p || q.to_string() != s) why = "pointer built with operator/= from the reference tokens prints as " + q.to_string();
                else if (q3 != p || q4 != p) why = "append / operator/ disagree with operator/=";
                std::ostringstream os; os << p;
                if (why.empty() && os.str() != s) why = "operator<< prints " + os.str();
            }
        }
    } catch (const std::exception& ex) { why = std::string("unexpected exception ") + ex.what(); }
    // s as a raw (unescaped) reference token
    if (why.empty()) {
        try {
            std::string e1 = jp::escape(jsoncons::string_view(s));
            std::string e2; jp::escape(s, e2);
            std::string e3 = jp::escape_string(s);
            std::string re = ref_escape(s);
            if (e1 != re || e2 != re || e3 != re) why = "escape of raw token gives '" + e1 + "'/'" + e2 + "'/'" + e3 + "', RFC 6901 gives '" + re + "'";
            else {
                std::error_code ec;
                jp::json_pointer p = jp::json_pointer::parse("/" + e1, ec);
                if (ec || p.tokens().size() != 1 || p.tokens()[0] != s) why = "parse('/' + escape(token)) does not give back the token";
                jp::json_pointer q; q /= s;
                if (why.empty() && q.to_string() != "/" + re) why = "operator/= with raw token prints " + q.to_string();
            }
        } catch (const std::exception& ex) { why = std::string("unexpected exception ") + ex.what(); }
    }
    if (!why.empty()) out().viol(sig, "pointer/token '" + s + "': " + why);
    if (rok) { ++g_nontrivial; if (g_nontrivial % 3001 == 1) out().sample("PS valid pointer " + s); }
    g_classes.insert(rok ? (s.empty() ? "syntax:empty" : (s.find('~') != std::string::npos ? "syntax:valid-with-escape" : "syntax:valid")) : (s[0] != '/' ? "syntax:no-leading-slash" : "syntax:bad-escape"));
}

static void run_syntax(int L, int slice, int nslices) {
    static const char SIG[] = {'/', '~', '0', '1', 'a'};
    long long idx = 0;
    for (int len = 0; len <= L; ++len) {
        long long n = 1; for (int k = 0; k < len; ++k) n *= 5;
        for (long long i = 0; i < n; ++i, ++idx) {
            if (idx % nslices != slice) continue;
            std::string s; long long x = i;
            for (int k = 0; k < len; ++k) { s.push_back(SIG[x % 5]); x /= 5; }
            check_syntax(s);
        }
    }
}

// ---------------------------------------------------------------------------
// edit BFS
struct Ptr { std::string s; bool valid; std::vector<std::string> toks; };
static std::vector<Ptr> g_ptrs;
static std::vector<MV> g_vals;
static const char* START_DOCS[] = {"{}", "[]", R"({"a":[1,2],"b":{"c":1}})", R"([[1],{"a":1}])"};

static void init_alphabet() {
    static const char* TOK[] = {"a", "b", "c", "0", "1", "2", "-", "01", "-1", "+1", "1e0", "", "a/b", "m~n", "\xc3\xa9", "18446744073709551616", "00", "-0"};
    std::vector<std::string> toks(TOK, TOK + 18);
    g_ptrs.push_back(Ptr{"", true, {}});
    for (auto& a : toks) g_ptrs.push_back(Ptr{ref_pointer({a}), true, {a}});
    for (auto& a : toks) for (auto& b : toks) g_ptrs.push_back(Ptr{ref_pointer({a, b}), true, {a, b}});
    for (const char* bad : {"a", "/~", "/a~2"}) g_ptrs.push_back(Ptr{bad, false, {}});
    MV o = MV::obj(); o.o.emplace_back("x", MV::uint64(1));
    MV a = MV::arr(); a.a.push_back(MV::uint64(1));
    g_vals = {MV::uint64(1), o, a};
}

template <class Json> struct TypeName;
template <> struct TypeName<json> { static const char* name() { return "json"; } };
template <> struct TypeName<ojson> { static const char* name() { return "ojson"; } };

// one real edit call.  form 0: pointer string + error_code overload; form 1: json_pointer object + throwing overload
template <class Json>
static bool impl_edit(Json& d, int op, bool cim, int form, const std::string& ps, const MV& val, std::string& err) {
    try {
        if (form == 0) {
            std::error_code ec;
            switch (op) {
                case ADD: if (cim) jp::add(d, ps, from_mv<Json>(val), true, ec); else jp::add(d, ps, from_mv<Json>(val), ec); break;
                case AIA: if (cim) jp::add_if_absent(d, ps, from_mv<Json>(val), true, ec); else jp::add_if_absent(d, ps, from_mv<Json>(val), ec); break;
                case REP: if (cim) jp::replace(d, ps, from_mv<Json>(val), true, ec); else jp::replace(d, ps, from_mv<Json>(val), ec); break;
                default: jp::remove(d, ps, ec); break;
            }
            if (ec) { err = ec.message(); return false; }
            return true;
        }
        jp::json_pointer p(ps);
        switch (op) {
            case ADD: jp::add(d, p, from_mv<Json>(val), cim); break;
            case AIA: jp::add_if_absent(d, p, from_mv<Json>(val), cim); break;
            case REP: jp::replace(d, p, from_mv<Json>(val), cim); break;
            default: jp::remove(d, p); break;
        }
        return true;
    } catch (const jp::jsonpointer_error& e) { err = e.what(); return false; }
    catch (const std::exception& e) { err = std::string("exception: ") + e.what(); return false; }
}

static std::string op_text(int op, bool cim, int form, const std::string& ps, const MV* val) {
    std::string s = OPNAME[op];
    if (cim) s += "c";
    if (form) s += "!";
    return s + ":" + hex(ps) + ":" + (val ? hex(mv_json(*val)) : "");
}

struct Counters {
    long long transitions = 0, queries = 0, ok = 0, unspec = 0, alt = 0;
    bool cls[NOPS][2][3] = {};   // op, cim, ref status
    bool qcls[2] = {};
};
static Counters g_c;

// Check one transition on a copy of the state's document.  Returns true iff reference and implementation agree on a successful edit
// (then `d` holds the successor document and `after` its model value).
template <class Json>
static bool check_edit(const Json& base, const MV& before, int op, bool cim, int form, const Ptr& p, const MV& val,
                       const std::string& sigprefix, const std::string& hist, Json& d, MV& after, RefStatus& rs_out) {
    MV expect = before;
    RefStatus rs = p.valid ? ref_edit(expect, op, p.toks, val, cim) : RS_ERR;
    rs_out = rs;
    d = base;
    std::string err;
    bool iok = impl_edit(d, op, cim, form, p.s, val, err);
    ++g_eval;
    after = to_mv(d);
    std::string why;
    if (rs == RS_OK) {
        if (!iok) why = "reports '" + err + "' but the location is addressable: expected " + mv_json(expect);
        else if (!mv_eq(after, expect, value_cmp())) why = "document becomes " + mv_json(after) + ", expected " + mv_json(expect);
    } else if (rs == RS_ERR) {
        if (iok) why = "succeeds (document becomes " + mv_json(after) + ") although " + (p.valid ? "the pointer does not address a location valid for this operation (RFC 6901 resolution)" : "the pointer is syntactically invalid");
        else if (!mv_eq(after, before, value_cmp())) why = "reports '" + err + "' but the document was modified: " + mv_json(after);
    } else {
        if (!iok && !mv_eq(after, before, value_cmp())) why = "reports '" + err + "' but the document was modified: " + mv_json(after);
    }
    if (!why.empty()) {
        out().viol(sigprefix + hist + (hist.empty() ? "" : ";") + op_text(op, cim, form, p.s, op == REM ? nullptr : &val),
                   std::string(OPNAME[op]) + (cim ? "(create_if_missing)" : "") + (form ? "[json_pointer,throwing]" : "") + " '" + p.s + "'" + (op == REM ? "" : " value " + mv_json(val)) + " on " + mv_json(before) + ": " + why);
        return false;
    }
    return rs == RS_OK && iok;
}

template <class Json>
static void check_query(const Json& base, const MV& before, const Ptr& p, bool alt, const std::string& sigprefix, const std::string& hist) {
    MV tmp = before;
    MV* node = p.valid ? ref_resolve(tmp, p.toks, p.toks.size()) : nullptr;
    std::string why;
    try {
        const Json& cd = base;
        bool c = jp::contains(cd, p.s);
        std::error_code ec;
        const Json& r = jp::get(cd, p.s, ec);
        g_eval += 2;
        if (c != (node != nullptr)) why = std::string("contains() = ") + (c ? "true" : "false") + " but the location " + (node ? "exists" : "does not exist");
        else if ((!ec) != (node != nullptr)) why = std::string("get() ") + (ec ? "fails with '" + ec.message() + "'" : "succeeds") + " but the location " + (node ? "exists" : "does not exist");
        else if (node && !mv_eq(to_mv(r), *node, value_cmp())) why = "get() returns " + mv_json(to_mv(r)) + ", expected " + mv_json(*node);
        if (why.empty() && alt) {   // json_pointer object, throwing and non-const overloads
            bool threw = false; MV got;
            try { jp::json_pointer jpn(p.s); bool c2 = jp::contains(cd, jpn); const Json& r2 = jp::get(cd, jpn); got = to_mv(r2); if (!c2) why = "contains(json_pointer) false but get(json_pointer) succeeds"; }
            catch (const jp::jsonpointer_error&) { threw = true; }
            g_eval += 2;
            if (why.empty() && threw != (node == nullptr)) why = std::string("get(json_pointer) ") + (threw ? "throws" : "succeeds") + " but the location " + (node ? "exists" : "does not exist");
            else if (why.empty() && node && !mv_eq(got, *node, value_cmp())) why = "get(json_pointer) returns " + mv_json(got);
            if (why.empty()) {
                Json d = base; std::error_code ec3;
                Json& r3 = jp::get(d, p.s, ec3);
                if ((!ec3) != (node != nullptr)) why = "non-const get() disagrees with const get()";
                else if (node && !mv_eq(to_mv(r3), *node, value_cmp())) why = "non-const get() returns " + mv_json(to_mv(r3));
                else if (!mv_eq(to_mv(d), before, value_cmp())) why = "non-const get() modified the document";
                ++g_eval;
            }
        }
    } catch (const std::exception& ex) { why = std::string("unexpected exception ") + ex.what(); }
    g_c.qcls[node ? 1 : 0] = true;
    ++g_c.queries;
    if (!why.empty()) out().viol(sigprefix + hist + (hist.empty() ? "" : ";") + "get:" + hex(p.s) + ":", "lookup '" + p.s + "' in " + mv_json(before) + ": " + why);
}

template <class Json>
struct State { Json doc; MV mv; std::string sigprefix; std::string hist; };

template <class Json>
static std::string state_key(const MV& m) { return mv_json(m); }   // json: members come out sorted; ojson: insertion order is part of the state

// cimmode 0: the four operations without create_if_missing; 1: add/add_if_absent/replace with create_if_missing = true
template <class Json>
static void run_edit(int depth, int cimmode, bool finalq, int slice, int nslices) {
    std::vector<std::vector<State<Json>>> level(depth + 1);
    std::unordered_set<std::string> seen;
    for (const char* sd : START_DOCS) {
        MV m = parse_or_die(sd);
        State<Json> st; st.doc = from_mv<Json>(m); st.mv = to_mv(st.doc);
        st.sigprefix = std::string("PE|") + TypeName<Json>::name() + "|" + hex(sd) + "|";
        if (seen.insert(state_key<Json>(st.mv)).second) level[0].push_back(st);
    }
    long long expanded = 0, final_seen = 0;
    size_t maxdepth_states = 0;
    for (int lvl = 0; lvl < depth; ++lvl) {
        bool last = lvl == depth - 1;
        auto& fr = level[lvl];
        for (size_t si = 0; si < fr.size(); ++si) {
            bool mine = last ? ((int)(si % (size_t)nslices) == slice) : true;
            if (!mine) continue;
            bool full = last || slice == 0;     // shared prefix levels are fully checked and counted by slice 0 only
            const State<Json>& st = fr[si];
            if (full) {
                ++expanded;
                for (auto& p : g_ptrs) check_query(st.doc, st.mv, p, !last, st.sigprefix, st.hist);
            }
            for (int op = 0; op < NOPS; ++op) {
                if (cimmode && op == REM) continue;
                bool cim = cimmode != 0;
                for (auto& p : g_ptrs) {
                    for (size_t vi = 0; vi < (op == REM ? 1 : g_vals.size()); ++vi) {
                        const MV& val = g_vals[vi];
                        if (!full) {   // other slices only need the successors: skip what the reference rejects
                            MV e = st.mv;
                            if (!p.valid || ref_edit(e, op, p.toks, val, cim) != RS_OK) continue;
                        }
                        Json d; MV after; RefStatus rs;
                        bool succ = check_edit(st.doc, st.mv, op, cim, 0, p, val, st.sigprefix, st.hist, d, after, rs);
                        if (full) {
                            ++g_c.transitions;
                            g_c.cls[op][cim][rs] = true;
                            if (rs == RS_OK) { ++g_c.ok; if (g_c.ok % 20011 == 1) out().sample(st.sigprefix + " " + OPNAME[op] + " '" + p.s + "' on " + mv_json(st.mv) + " -> " + mv_json(after)); }
                            if (rs == RS_UNSPEC) ++g_c.unspec;
                            if (!last) {   // the other overload family, on the cheap levels
                                Json d2; MV after2; RefStatus rs2;
                                check_edit(st.doc, st.mv, op, cim, 1, p, val, st.sigprefix, st.hist, d2, after2, rs2);
                                ++g_c.alt;
                            }
                        }
                        if (succ) {
                            std::string key = state_key<Json>(after);
                            if (seen.insert(key).second) {
                                State<Json> ns; ns.doc = d; ns.mv = after; ns.sigprefix = st.sigprefix;
                                ns.hist = st.hist + (st.hist.empty() ? "" : ";") + op_text(op, cim, 0, p.s, op == REM ? nullptr : &val);
                                if (lvl + 1 == depth) {   // final level: looked up (finalq), not expanded (and not kept)
                                    ++final_seen;
                                    if (finalq) for (auto& q : g_ptrs) check_query(ns.doc, ns.mv, q, false, ns.sigprefix, ns.hist);
                                } else level[lvl + 1].push_back(std::move(ns));
                            }
                        }
                    }
                }
            }
        }
        maxdepth_states = std::max(maxdepth_states, fr.size());
    }
    out().count("states", expanded);
    out().count(finalq ? "final_level_states_looked_up_not_expanded_per_slice_sum" : "final_level_states_reached_not_expanded_per_slice_sum", final_seen);
    out().gauge(std::string("edit_frontier_") + TypeName<Json>::name() + (cimmode ? "_cim" : "") + "_depth" + std::to_string(depth - 1), (long long)level[depth - 1].size());
}

// replay of an edit history: all steps but the last must agree with the reference (as they did during the search)
template <class Json>
static void replay_edit(const std::string& sig, const std::vector<std::string>& parts) {
    MV m = parse_or_die(unhex(parts[2]));
    Json doc = from_mv<Json>(m);
    MV mv = to_mv(doc);
    std::string sigprefix = parts[0] + "|" + parts[1] + "|" + parts[2] + "|";
    std::string hist;
    auto ops = split(parts[3], ';');
    for (size_t i = 0; i < ops.size(); ++i) {
        auto f = split(ops[i], ':');
        if (f.size() != 3) { out().error("bad op in signature " + sig); return; }
        std::string name = f[0];
        Ptr p; p.s = unhex(f[1]); p.valid = ref_syntax_ok(p.s); if (p.valid) p.toks = ref_tokens(p.s);
        if (name == "get") { check_query(doc, mv, p, true, sigprefix, hist); return; }
        int form = 0; bool cim = false;
        if (!name.empty() && name.back() == '!') { form = 1; name.pop_back(); }
        if (!name.empty() && name.back() == 'c') { cim = true; name.pop_back(); }
        int op = -1; for (int k = 0; k < NOPS; ++k) if (name == OPNAME[k]) op = k;
        if (op < 0) { out().error("bad op name in signature " + sig); return; }
        MV val = op == REM ? MV::null() : parse_or_die(unhex(f[2]));
        Json d; MV after; RefStatus rs;
        bool succ = check_edit(doc, mv, op, cim, form, p, val, sigprefix, hist, d, after, rs);
        if (i + 1 == ops.size()) return;
        if (!succ) { out().error("history prefix does not replay as an agreed successful edit: " + sig); return; }
        doc = d; mv = after;
        hist += (hist.empty() ? "" : ";") + ops[i];
    }
}

// ---------------------------------------------------------------------------
// flatten / unflatten
static void ref_flatten(const MV& v, const std::string& path, std::vector<std::pair<std::string, MV>>& outv) {
    if (v.k == MV::Arr && !v.a.empty()) { for (size_t i = 0; i < v.a.size(); ++i) ref_flatten(v.a[i], path + "/" + std::to_string(i), outv); return; }
    if (v.k == MV::Obj && !v.o.empty()) { for (auto& kv : v.o) ref_flatten(kv.second, path + "/" + ref_escape(kv.first), outv); return; }
    outv.emplace_back(path, v);
}

template <class Json>
static void check_flat_type(const MV& d) {
    std::string why;
    g_eval += 2;
    try {
        Json j = from_mv<Json>(d);
        Json f = jp::flatten(j);
        MV fm = to_mv(f);
        MV rf = MV::obj(); ref_flatten(d, "", rf.o);
        if (!mv_eq(fm, rf, value_cmp())) why = "flatten gives " + mv_json(fm) + ", expected one member per leaf: " + mv_json(rf);
        else {
            Json u = jp::unflatten(f);
            MV um = to_mv(u);
            if (!mv_eq(um, d, value_cmp())) why = "unflatten(flatten(d)) = " + mv_json(um) + " (flatten(d) = " + mv_json(fm) + ")";
        }
    } catch (const std::exception& ex) { why = std::string("threw ") + ex.what(); }
    if (!why.empty()) out().viol(std::string("PF|") + TypeName<Json>::name() + "|" + hex(mv_json(d)), std::string(TypeName<Json>::name()) + " d=" + mv_json(d) + ": " + why);
}

static void check_flat(const MV& d, bool count_case) {
    check_flat_type<json>(d);
    check_flat_type<ojson>(d);
    if (count_case && (!d.a.empty() || !d.o.empty())) { ++g_nontrivial; if (g_nontrivial % 20011 == 1) out().sample("PF " + mv_json(d)); }
}

static TreeAlphabet flat_alphabet() {
    TreeAlphabet al;
    al.keys = {"a", "b/~", "", "~1", "p/q"};   // none of them array-index-like; '~' and '/' together, each alone, and a name that reads like an escape
    al.leaves = {MV::null(), MV::uint64(1), MV::str("x"), MV::obj(), MV::arr()};
    return al;
}

static void run_flat(int N, int slice, int nslices) {
    TreeEnum te(flat_alphabet(), N);
    long long n = 0;
    te.for_slice(slice, nslices, [&](uint64_t, const MV& d) { check_flat(d, true); ++n; });
    if (slice == 0) {   // arrays longer than ten elements (index tokens "10" < "2" as strings), beyond the node bound
        MV a = MV::arr(); for (int i = 0; i < 12; ++i) a.a.push_back(MV::uint64(i));
        MV o = MV::obj(); o.o.emplace_back("a", a);
        MV aa = MV::arr(); aa.a.push_back(a); aa.a.push_back(o);
        for (const MV* x : {&a, &o, &aa}) { check_flat(*x, true); ++n; }
    }
    out().count("flat_documents", n);
    out().gauge("flat_trees_total", (long long)te.size());
    g_classes.insert("flat:roundtrip");
}

int main(int argc, char** argv) {
    Args a(argc, argv);
    init_alphabet();
    if (a.replay) {
        auto parts = split(a.sig, '|');
        // during a run every case comes after rejected pointers have been parsed in the same process; a replay starts from that
        // history too (state kept between calls would otherwise only show in the run, not in the replay)
        for (const char* bad : {"a", "/~", "/a~2", "/m~", "/foo/ba~2r"}) { std::error_code ec; auto p = jp::json_pointer::parse(bad, ec); (void)p; }
        if (parts[0] == "PS" && parts.size() == 2) check_syntax(unhex(parts[1]));
        else if (parts[0] == "PE" && parts.size() == 4) { if (parts[1] == "json") replay_edit<json>(a.sig, parts); else replay_edit<ojson>(a.sig, parts); }
        else if (parts[0] == "PF" && parts.size() == 3) { MV d = parse_or_die(unhex(parts[2])); if (parts[1] == "json") check_flat_type<json>(d); else check_flat_type<ojson>(d); }
        out().flush();
        return 0;
    }
    std::string mode = a.a.empty() ? "" : a.a[0];
    if (mode == "syntax") run_syntax((int)a.geti("L", 7), a.slice, a.nslices);
    else if (mode == "edit") {
        int depth = (int)a.geti("depth", 2), cim = (int)a.geti("cim", 0);
        unsigned types = (unsigned)a.geti("types", 3);
        bool finalq = a.geti("finalq", 1) != 0;
        if (types & 1) run_edit<json>(depth, cim, finalq, a.slice, a.nslices);
        if (types & 2) run_edit<ojson>(depth, cim, finalq, a.slice, a.nslices);
        out().count("transitions", g_c.transitions + g_c.queries);
        out().count("traces_validated", g_c.transitions + g_c.queries);
        out().count("edit_transitions", g_c.transitions);
        out().count("edit_transitions_other_overloads", g_c.alt);
        out().count("lookup_queries", g_c.queries);
        out().count("edit_unspecified_abstained", g_c.unspec);
        g_nontrivial += g_c.ok;
        static const char* RS[] = {"ok", "error", "unspecified"};
        for (int op = 0; op < NOPS; ++op) for (int c = 0; c < 2; ++c) for (int r = 0; r < 3; ++r)
            if (g_c.cls[op][c][r]) g_classes.insert(std::string("edit:") + OPNAME[op] + (c ? "+create" : "") + ":" + RS[r]);
        if (g_c.qcls[0]) g_classes.insert("lookup:absent");
        if (g_c.qcls[1]) g_classes.insert("lookup:found");
    } else if (mode == "flat") run_flat((int)a.geti("N", 5), a.slice, a.nslices);
    else { fprintf(stderr, "usage: c14 syntax L= | edit depth= [cim=] [finalq=] [types=] | flat N=  slice nslices\n"); return 2; }
    for (auto& c : g_classes) out().cls(c);
    out().count("evaluations", g_eval);
    out().count("nontrivial", g_nontrivial);
    out().flush();
    return 0;
}
