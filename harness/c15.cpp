// C15 — JSON Patch is RFC 6902-conformant and atomic.
//  jp : for each start document, every sequence of <= L operations drawn from an alphabet that follows the evolving document
//       (successful prefixes are extended by every operation of the alphabet of the document they produce, including one failing
//       operation of each malformed kind, with and without a trailing operation); each sequence is one real call of
//       jsonpatch::apply_patch on a fresh copy of the start document, for json and ojson.
//       Oracle = RFC 6902 interpreter over the model value MV written from the RFC text (below):
//         reference succeeds  => no error and the target equals the reference result;
//         reference fails     => an error is reported (error_code or exception) and the target equals its pre-call value;
//         reference abstains  => only "error => target unchanged" is demanded.
//  jd : every ordered pair (a, b) of trees within a node bound: apply_patch(a, from_diff(a, b)) == b, and the generated patch also
//       turns a into b under the reference interpreter.
// Signatures:  JP|<json|ojson>|<hex document json>|<hex patch json>      JD|<hex a json>|<hex b json>
#include "rfc8259_ref.hpp"
#include "tree_enum.hpp"
#include <jsoncons/json.hpp>
#include <jsoncons_ext/jsonpatch/jsonpatch.hpp>
#include <unordered_map>

using namespace vf;
using jsoncons::json; using jsoncons::ojson;
namespace jpatch = jsoncons::jsonpatch;

// ---------------------------------------------------------------------------
// Reference: RFC 6901 (pointer) + RFC 6902 (patch)
static bool ptr_syntax_ok(const std::string& s) {
    if (s.empty()) return true;
    if (s[0] != '/') return false;
    for (size_t i = 0; i < s.size(); ++i)
        if (s[i] == '~' && !(i + 1 < s.size() && (s[i + 1] == '0' || s[i + 1] == '1'))) return false;
    return true;
}
static std::string replace_all(const std::string& s, const std::string& from, const std::string& to) {
    std::string o; size_t i = 0;
    while (i < s.size()) { if (s.compare(i, from.size(), from) == 0) { o += to; i += from.size(); } else o.push_back(s[i++]); }
    return o;
}
static std::string ptr_unescape(const std::string& t) { return replace_all(replace_all(t, "~1", "/"), "~0", "~"); }
static std::string ptr_escape(const std::string& t) { return replace_all(replace_all(t, "~", "~0"), "/", "~1"); }
static std::vector<std::string> ptr_tokens(const std::string& s) {
    std::vector<std::string> v;
    if (s.empty()) return v;
    std::string cur;
    for (size_t i = 1; i <= s.size(); ++i) { if (i == s.size() || s[i] == '/') { v.push_back(ptr_unescape(cur)); cur.clear(); } else cur.push_back(s[i]); }
    return v;
}
static bool ptr_index(const std::string& t, uint64_t& v) {   // array-index = "0" / ( %x31-39 *DIGIT )
    if (t.empty()) return false;
    for (char c : t) if (c < '0' || c > '9') return false;
    if (t.size() > 1 && t[0] == '0') return false;
    unsigned __int128 acc = 0;
    for (char c : t) { acc = acc * 10 + unsigned(c - '0'); if (acc > (unsigned __int128)UINT64_MAX) { v = UINT64_MAX; return true; } }
    v = (uint64_t)acc; return true;
}
static MV* obj_find(MV& o, const std::string& k) { for (auto& kv : o.o) if (kv.first == k) return &kv.second; return nullptr; }
static const MV* obj_find(const MV& o, const std::string& k) { for (auto& kv : o.o) if (kv.first == k) return &kv.second; return nullptr; }
static MV* ptr_resolve(MV& doc, const std::vector<std::string>& toks, size_t n) {
    MV* cur = &doc;
    for (size_t i = 0; i < n; ++i) {
        if (cur->k == MV::Obj) { cur = obj_find(*cur, toks[i]); if (!cur) return nullptr; }
        else if (cur->k == MV::Arr) { uint64_t v; if (!ptr_index(toks[i], v) || v >= cur->a.size()) return nullptr; cur = &cur->a[(size_t)v]; }
        else return nullptr;
    }
    return cur;
}
static MVCmp value_cmp() { MVCmp c; c.order_insensitive = true; c.num_by_value = true; return c; }

enum PStatus { P_OK = 0, P_ERR, P_UNSPEC };

// RFC 6902 4.1 add
static bool ref_add(MV& doc, const std::vector<std::string>& toks, const MV& val, std::string& why) {
    if (toks.empty()) { doc = val; return true; }                       // "the specified value becomes the entire content of the target document"
    MV* parent = ptr_resolve(doc, toks, toks.size() - 1);
    if (!parent) { why = "add: the object/array that would contain the target does not exist"; return false; }
    const std::string& t = toks.back();
    if (parent->k == MV::Arr) {
        if (t == "-") { parent->a.push_back(val); return true; }
        uint64_t v;
        if (!ptr_index(t, v)) { why = "add: '" + t + "' is not an array index"; return false; }
        if (v > parent->a.size()) { why = "add: index greater than the number of elements"; return false; }
        parent->a.insert(parent->a.begin() + (size_t)v, val);
        return true;
    }
    if (parent->k == MV::Obj) { MV* ex = obj_find(*parent, t); if (ex) *ex = val; else parent->o.emplace_back(t, val); return true; }
    why = "add: the parent of the target is neither object nor array";
    return false;
}
// 4.2 remove (target must exist); the empty pointer is handled by the caller
static bool ref_remove(MV& doc, const std::vector<std::string>& toks, std::string& why) {
    MV* parent = ptr_resolve(doc, toks, toks.size() - 1);
    if (!parent || !ptr_resolve(*parent, std::vector<std::string>(1, toks.back()), 1)) { why = "remove: target location does not exist"; return false; }
    const std::string& t = toks.back();
    if (parent->k == MV::Arr) { uint64_t v; ptr_index(t, v); parent->a.erase(parent->a.begin() + (size_t)v); }
    else for (size_t i = 0; i < parent->o.size(); ++i) if (parent->o[i].first == t) { parent->o.erase(parent->o.begin() + i); break; }
    return true;
}
static bool is_prefix(const std::vector<std::string>& a, const std::vector<std::string>& b) {   // a proper prefix of b
    if (a.size() >= b.size()) return false;
    for (size_t i = 0; i < a.size(); ++i) if (a[i] != b[i]) return false;
    return true;
}
static bool get_pointer_member(const MV& op, const char* name, std::vector<std::string>& toks, std::string& why) {
    const MV* m = obj_find(op, name);
    if (!m) { why = std::string("operation has no '") + name + "' member"; return false; }
    if (m->k != MV::Str) { why = std::string("'") + name + "' is not a string"; return false; }
    if (!ptr_syntax_ok(m->s)) { why = std::string("'") + name + "' is not a JSON Pointer"; return false; }
    toks = ptr_tokens(m->s);
    return true;
}

// One operation (RFC 6902 section 4).  `doc` is only changed on P_OK.
static PStatus ref_apply_op(MV& doc, const MV& op, std::string& why) {
    if (op.k != MV::Obj) { why = "operation is not an object"; return P_ERR; }
    const MV* opn = obj_find(op, "op");
    if (!opn) { why = "operation has no 'op' member"; return P_ERR; }
    if (opn->k != MV::Str) { why = "'op' is not a string"; return P_ERR; }
    const std::string& name = opn->s;
    if (name != "add" && name != "remove" && name != "replace" && name != "move" && name != "copy" && name != "test") { why = "'op' value '" + name + "' is not one of add/remove/replace/move/copy/test"; return P_ERR; }
    std::vector<std::string> path;
    if (!get_pointer_member(op, "path", path, why)) return P_ERR;
    const MV* value = obj_find(op, "value");
    MV work = doc;
    if (name == "add") {
        if (!value) { why = "add without 'value'"; return P_ERR; }
        if (!ref_add(work, path, *value, why)) return P_ERR;
    } else if (name == "remove") {
        if (path.empty()) { why = "removing the whole document: result not defined"; return P_UNSPEC; }
        if (!ref_remove(work, path, why)) return P_ERR;
    } else if (name == "replace") {
        if (!value) { why = "replace without 'value'"; return P_ERR; }
        MV* t = ptr_resolve(work, path, path.size());
        if (!t) { why = "replace: target location does not exist"; return P_ERR; }
        MV v = *value; *t = v;
    } else if (name == "test") {
        if (!value) { why = "test without 'value'"; return P_ERR; }
        MV* t = ptr_resolve(work, path, path.size());
        if (!t) { why = "test: target location does not exist"; return P_ERR; }
        if (!mv_eq(*t, *value, value_cmp())) { why = "test: values differ"; return P_ERR; }
    } else {   // move, copy
        std::vector<std::string> from;
        if (!get_pointer_member(op, "from", from, why)) return P_ERR;
        MV* f = ptr_resolve(work, from, from.size());
        if (!f) { why = name + ": 'from' location does not exist"; return P_ERR; }
        MV v = *f;
        if (name == "move") {
            if (is_prefix(from, path)) { why = "move: 'from' is a proper prefix of 'path'"; return P_ERR; }
            if (from.empty()) { why = "move of the whole document onto itself: result not defined"; return P_UNSPEC; }
            if (!ref_remove(work, from, why)) return P_ERR;
        }
        if (!ref_add(work, path, v, why)) return P_ERR;
    }
    doc = work;
    return P_OK;
}

// Whole patch (section 3: "evaluation ... as if" sequential; section 5: on error the document is not changed - the property's atomicity)
static PStatus ref_apply_patch(MV& doc, const MV& patch, std::string& why, int& evaluated) {
    evaluated = 0;
    if (patch.k != MV::Arr) { why = "patch document is not an array"; return P_ERR; }
    MV work = doc;
    for (auto& op : patch.a) {
        ++evaluated;
        PStatus s = ref_apply_op(work, op, why);
        if (s != P_OK) return s;
    }
    doc = work;
    return P_OK;
}

static MV parse_or_die(const std::string& text) {
    RefResult r = ref_parse(text);
    if (!r.ok) { out().error("cannot parse JSON text: " + text); out().flush(); exit(0); }
    return r.v;
}

// ---------------------------------------------------------------------------
// running the real code
template <class Json> struct TypeName;
template <> struct TypeName<json> { static const char* name() { return "json"; } };
template <> struct TypeName<ojson> { static const char* name() { return "ojson"; } };

static long long g_eval = 0, g_nontrivial = 0, g_calls = 0, g_ops_evaluated = 0, g_unspec = 0;
static long long g_expect[3] = {0, 0, 0};
static std::set<std::string> g_classes;

// form 0: error_code overload, form 1: throwing overload
template <class Json>
static void check_patch(const MV& doc0, const MV& patch, PStatus rs, const MV& expect, const std::string& refwhy, int form) {
    ++g_eval;
    std::string why, msg;
    bool err = false;
    MV after;
    try {
        Json t = from_mv<Json>(doc0);
        Json p = from_mv<Json>(patch);
        try {
            if (form == 0) { std::error_code ec; jpatch::apply_patch(t, p, ec); if (ec) { err = true; msg = ec.message(); } }
            else jpatch::apply_patch(t, p);
        } catch (const std::exception& ex) { err = true; msg = std::string("exception: ") + ex.what(); }
        after = to_mv(t);
    } catch (const std::exception& ex) { why = std::string("unexpected exception outside apply_patch: ") + ex.what(); }
    if (why.empty()) {
        if (rs == P_OK) {
            if (err) why = "reports '" + msg + "' but RFC 6902 evaluation succeeds with " + mv_json(expect);
            else if (!mv_eq(after, expect, value_cmp())) why = "target becomes " + mv_json(after) + ", RFC 6902 gives " + mv_json(expect);
        } else if (rs == P_ERR) {
            if (!err) why = "no error reported (target " + mv_json(after) + ") but the patch must fail: " + refwhy;
            else if (!mv_eq(after, doc0, value_cmp())) why = "reports '" + msg + "' and leaves the target changed: " + mv_json(after) + " (failing step: " + refwhy + ")";
        } else {
            if (err && !mv_eq(after, doc0, value_cmp())) why = "reports '" + msg + "' and leaves the target changed: " + mv_json(after);
        }
    }
    if (!why.empty())
        out().viol(std::string("JP|") + TypeName<Json>::name() + "|" + hex(mv_json(doc0)) + "|" + hex(mv_json(patch)),
                   std::string(TypeName<Json>::name()) + (form ? " [throwing overload]" : "") + " target=" + mv_json(doc0) + " patch=" + mv_json(patch) + ": " + why);
}

// ---------------------------------------------------------------------------
// operation alphabet of a document
static MV mk_op(const char* name, const std::string* path, const std::string* from, const MV* value) {
    MV o = MV::obj();
    o.o.emplace_back("op", MV::str(name));
    if (path) o.o.emplace_back("path", MV::str(*path));
    if (from) o.o.emplace_back("from", MV::str(*from));
    if (value) o.o.emplace_back("value", *value);
    return o;
}
static void locations(const MV& v, const std::string& path, std::vector<std::string>& outv) {
    outv.push_back(path);
    for (size_t i = 0; i < v.a.size(); ++i) locations(v.a[i], path + "/" + std::to_string(i), outv);
    for (auto& kv : v.o) locations(kv.second, path + "/" + ptr_escape(kv.first), outv);
}
static MV reversed_members(const MV& v) {
    MV r = v;
    for (auto& e : r.a) e = reversed_members(e);
    for (auto& kv : r.o) kv.second = reversed_members(kv.second);
    std::reverse(r.o.begin(), r.o.end());
    return r;
}
struct Op { MV mv; bool ojson_only = false; bool trailer = false; };   // trailer: followed by a would-succeed replace of the whole document

static MV g_v1, g_vx, g_trailer;
static void init_values() {
    g_v1 = MV::uint64(1);
    g_vx = MV::obj(); g_vx.o.emplace_back("x", MV::uint64(1));
    std::string root; MV seven = MV::uint64(7);
    g_trailer = mk_op("replace", &root, nullptr, &seven);
}

static std::vector<Op> alphabet(const MV& doc) {
    std::vector<Op> ops;
    std::vector<std::string> locs;
    locations(doc, "", locs);
    std::vector<std::string> P = locs;
    auto addp = [&](const std::string& p) { if (std::find(P.begin(), P.end(), p) == P.end()) P.push_back(p); };
    std::vector<std::string> Q;   // array index with a leading zero (RFC 6901 forbids it)
    addp("/-"); addp("/zz");
    MV d = doc;
    for (auto& l : locs) {
        MV* n = ptr_resolve(d, ptr_tokens(l), ptr_tokens(l).size());
        if (n->k == MV::Arr) { addp(l + "/-"); addp(l + "/" + std::to_string(n->a.size() + 1)); if (n->a.size() >= 2) Q.push_back(l + "/01"); }
        else if (n->k == MV::Obj) addp(l + "/zz");
    }
    auto push = [&](const MV& m, bool oo = false) { Op o; o.mv = m; o.ojson_only = oo; ops.push_back(o); };
    for (auto& p : P) {
        push(mk_op("add", &p, nullptr, &g_v1)); push(mk_op("add", &p, nullptr, &g_vx));
        push(mk_op("remove", &p, nullptr, nullptr));
        push(mk_op("replace", &p, nullptr, &g_v1)); push(mk_op("replace", &p, nullptr, &g_vx));
        push(mk_op("test", &p, nullptr, &g_v1)); push(mk_op("test", &p, nullptr, &g_vx));
        MV* n = ptr_syntax_ok(p) ? ptr_resolve(d, ptr_tokens(p), ptr_tokens(p).size()) : nullptr;
        if (n) {
            if (!mv_eq(*n, g_v1) && !mv_eq(*n, g_vx)) push(mk_op("test", &p, nullptr, n));
            MV r = reversed_members(*n);
            if (mv_json(r) != mv_json(*n)) push(mk_op("test", &p, nullptr, &r), true);   // same value, members listed in another order
        }
    }
    for (auto& f : P) {
        MV* n = ptr_resolve(d, ptr_tokens(f), ptr_tokens(f).size());
        std::string child = f + ((n && n->k == MV::Arr) ? "/0" : "/x");
        std::vector<std::string> targets;
        if (n) { targets = P; if (std::find(targets.begin(), targets.end(), child) == targets.end()) targets.push_back(child); }
        else targets.push_back("/zz");   // a `from` that does not exist fails before `path` is looked at: one representative path
        for (auto& p : targets) { push(mk_op("move", &p, &f, nullptr)); push(mk_op("copy", &p, &f, nullptr)); }
    }
    for (auto& q : Q) {
        std::string arr = q.substr(0, q.size() - 3), dash = arr + "/-", first = arr + "/0";
        push(mk_op("add", &q, nullptr, &g_v1)); push(mk_op("remove", &q, nullptr, nullptr)); push(mk_op("replace", &q, nullptr, &g_v1));
        MV* n1 = ptr_resolve(d, ptr_tokens(arr + "/1"), ptr_tokens(arr + "/1").size());
        push(mk_op("test", &q, nullptr, n1));
        push(mk_op("copy", &dash, &q, nullptr)); push(mk_op("move", &dash, &q, nullptr));
        push(mk_op("copy", &q, &first, nullptr)); push(mk_op("move", &q, &first, nullptr));
    }
    // one failing operation of each malformed kind, alone and followed by an operation that would succeed
    std::vector<MV> bad;
    std::string root, zz2 = "/q/q", qk = "/q", noslash = "q";   // no operation of the alphabet ever creates a member named q
    MV nosuch = MV::str("no such value");
    bad.push_back(mk_op("test", &root, nullptr, &nosuch));          // failing test
    bad.push_back(mk_op("remove", &zz2, nullptr, nullptr));          // missing path
    bad.push_back(mk_op("foo", &root, nullptr, &g_v1));              // unknown op
    bad.push_back(mk_op("add", &qk, nullptr, nullptr));              // missing value
    bad.push_back(mk_op("replace", &root, nullptr, nullptr));
    bad.push_back(mk_op("test", &root, nullptr, nullptr));
    bad.push_back(mk_op("add", nullptr, nullptr, &g_v1));            // missing path member
    bad.push_back(mk_op("move", &qk, nullptr, nullptr));             // missing from
    bad.push_back(mk_op("copy", &qk, nullptr, nullptr));
    { MV o = MV::obj(); o.o.emplace_back("path", MV::str("")); o.o.emplace_back("value", g_v1); bad.push_back(o); }   // missing op member
    { MV o = MV::obj(); o.o.emplace_back("op", MV::uint64(1)); o.o.emplace_back("path", MV::str("")); o.o.emplace_back("value", g_v1); bad.push_back(o); }   // op not a string
    bad.push_back(mk_op("add", &noslash, nullptr, &g_v1));           // path is not a JSON Pointer
    bad.push_back(mk_op("copy", &qk, &noslash, nullptr));            // from is not a JSON Pointer
    bad.push_back(MV::uint64(1)); bad.push_back(MV::null()); bad.push_back(MV::arr()); bad.push_back(MV::str("add"));   // operation is not an object
    for (auto& b : bad) { push(b); Op o; o.mv = b; o.trailer = true; ops.push_back(o); }
    return ops;
}

// ---------------------------------------------------------------------------
// exploration graph over reference documents (memoised on the canonical document)
struct Node {
    MV doc;
    bool expanded = false;
    std::vector<Op> ops;
    std::vector<PStatus> st;
    std::vector<int> succ;          // node id for P_OK
    std::vector<std::string> why;
    int mindepth = 1 << 30;
};
static std::vector<Node> g_nodes;
static std::unordered_map<std::string, int> g_index;

static int node_of(const MV& doc) {
    std::string key = mv_json(mv_sorted(doc));
    auto it = g_index.find(key);
    if (it != g_index.end()) return it->second;
    Node n; n.doc = doc;
    g_nodes.push_back(n);
    g_index[key] = (int)g_nodes.size() - 1;
    return (int)g_nodes.size() - 1;
}
static void expand_node(int id) {
    if (g_nodes[id].expanded) return;
    std::vector<Op> ops = alphabet(g_nodes[id].doc);
    std::vector<PStatus> st; std::vector<int> succ; std::vector<std::string> whys;
    for (auto& o : ops) {
        MV d = g_nodes[id].doc; std::string why;
        PStatus s = ref_apply_op(d, o.mv, why);
        if (o.trailer && s == P_OK) { out().error("a malformed operation was accepted by the reference: " + mv_json(o.mv)); out().flush(); exit(0); }
        st.push_back(s); whys.push_back(why);
        succ.push_back(s == P_OK ? node_of(d) : -1);
    }
    Node& n = g_nodes[id];
    n.ops = ops; n.st = st; n.succ = succ; n.why = whys; n.expanded = true;
}

struct Explorer {
    int L, slice, nslices;
    unsigned types;
    MV doc0;
    long long counter = 0;
    std::vector<MV> prefix;

    void run_node(int id) {
        expand_node(id);
        const Node& n = g_nodes[id];
        bool alt = (int)prefix.size() + 1 < L;   // the throwing overload too, except on the (dominant) longest patches
        for (size_t i = 0; i < n.ops.size(); ++i) {
            const Op& o = n.ops[i];
            MV patch = MV::arr(); patch.a = prefix; patch.a.push_back(o.mv);
            if (o.trailer) patch.a.push_back(g_trailer);
            PStatus rs = n.st[i];
            const MV& expect = rs == P_OK ? g_nodes[n.succ[i]].doc : doc0;
            if (prefix.size() <= 1) {   // self-consistency of the incremental reference against the whole-patch interpreter
                MV d = doc0; std::string w; int ev;
                PStatus s2 = ref_apply_patch(d, patch, w, ev);
                if (s2 != rs || (rs == P_OK && !mv_eq(d, expect, value_cmp()))) { out().error("reference interpreter inconsistent on " + mv_json(patch)); out().flush(); exit(0); }
            }
            for (int ty = 0; ty < 2; ++ty) {
                if (!(types & (1u << ty))) continue;
                if (ty == 0 && o.ojson_only) continue;
                for (int form = 0; form <= (alt ? 1 : 0); ++form) {
                    if (ty == 0) check_patch<json>(doc0, patch, rs, expect, n.why[i], form); else check_patch<ojson>(doc0, patch, rs, expect, n.why[i], form);
                }
                ++g_calls; g_ops_evaluated += (long long)prefix.size() + 1;
                ++g_expect[rs];
                if (prefix.size() >= 1 || rs == P_OK) ++g_nontrivial;
            }
            if (rs == P_UNSPEC) ++g_unspec;
            const MV* opn = o.mv.k == MV::Obj ? obj_find(o.mv, "op") : nullptr;
            g_classes.insert(std::string("jp:") + (o.trailer ? "malformed+trailer" : (opn && opn->k == MV::Str ? opn->s : "malformed")) + (rs == P_OK ? ":ok" : rs == P_ERR ? ":fail" : ":unspecified") + "@" + std::to_string(prefix.size()));
            if (g_calls % 300007 == 1) out().sample("JP target=" + mv_json(doc0) + " patch=" + mv_json(patch) + " -> " + (rs == P_OK ? mv_json(expect) : rs == P_ERR ? "error, unchanged" : "unspecified"));
        }
    }
    void dfs(int id, int depth) {
        long long idx = counter++;
        if ((int)(idx % nslices) == slice) run_node(id);
        if (depth + 1 >= L) return;
        expand_node(id);
        size_t nops = g_nodes[id].ops.size();
        for (size_t i = 0; i < nops; ++i) {
            if (g_nodes[id].st[i] != P_OK || g_nodes[id].ops[i].ojson_only) continue;   // ojson-only operations are tests (no effect): not used as prefixes
            prefix.push_back(g_nodes[id].ops[i].mv);
            dfs(g_nodes[id].succ[i], depth + 1);
            prefix.pop_back();
        }
    }
};

// distinct (document, remaining patch) pairs: sum over distinct reachable documents D (first reached after k operations) of the number of
// operation sequences of length <= L-k enumerated from D
static std::map<std::pair<int, int>, long long> g_fmemo;
static long long count_seq(int id, int m, bool ojson) {
    if (m == 0) return 1;
    auto key = std::make_pair(id * 2 + (ojson ? 1 : 0), m);
    auto it = g_fmemo.find(key);
    if (it != g_fmemo.end()) return it->second;
    expand_node(id);
    long long t = 1;
    size_t nops = g_nodes[id].ops.size();
    for (size_t i = 0; i < nops; ++i) {
        if (g_nodes[id].ops[i].ojson_only && !ojson) continue;
        if (g_nodes[id].st[i] == P_OK && !g_nodes[id].ops[i].ojson_only) t += count_seq(g_nodes[id].succ[i], m - 1, ojson);
        else t += 1;
    }
    g_fmemo[key] = t;
    return t;
}
static long long count_states(int root, int L, bool ojson) {
    std::map<int, int> depth; std::vector<int> frontier{root}; depth[root] = 0;
    for (int k = 0; k < L; ++k) {
        std::vector<int> next;
        for (int id : frontier) {
            expand_node(id);
            size_t nops = g_nodes[id].ops.size();
            for (size_t i = 0; i < nops; ++i) {
                if (g_nodes[id].st[i] != P_OK || g_nodes[id].ops[i].ojson_only) continue;
                int s = g_nodes[id].succ[i];
                if (!depth.count(s)) { depth[s] = k + 1; next.push_back(s); }
            }
        }
        frontier = next;
    }
    long long total = 0;
    for (auto& kv : depth) total += count_seq(kv.first, L - kv.second, ojson);
    return total;
}

static const char* START_DOCS[] = {"{}", "[]", R"({"a":1})", "[1,2,3]", R"({"a":[1,2],"b":{"c":1}})", R"([[1],{"a":1}])", "1", "null"};

static void run_jp(int L, unsigned types, int slice, int nslices, int only_doc) {
    long long counter = 0;
    for (int di = 0; di < 8; ++di) {
        if (only_doc >= 0 && di != only_doc) continue;
        MV doc0 = parse_or_die(START_DOCS[di]);
        g_nodes.clear(); g_index.clear(); g_fmemo.clear();
        int root = node_of(doc0);
        Explorer ex; ex.L = L; ex.slice = slice; ex.nslices = nslices; ex.types = types; ex.doc0 = doc0; ex.counter = counter;
        ex.dfs(root, 0);
        counter = ex.counter;
        if (slice == 0) {
            // the patch document itself is not an array
            std::string q = "/q";
            std::vector<MV> notarr = {MV::obj(), mk_op("add", &q, nullptr, &g_v1), MV::uint64(1), MV::null(), MV::str("x")};
            for (auto& p : notarr) for (int form = 0; form < 2; ++form) {
                if (types & 1) check_patch<json>(doc0, p, P_ERR, doc0, "patch document is not an array", form);
                if (types & 2) check_patch<ojson>(doc0, p, P_ERR, doc0, "patch document is not an array", form);
                g_calls += 2; g_expect[P_ERR] += 2;
            }
            g_classes.insert("jp:patch-not-an-array:fail");
            long long st = 0;
            if (types & 1) st += count_states(root, L, false);
            if (types & 2) st += count_states(root, L, true);
            out().count("states", st);
            out().gauge("jp_distinct_documents_max_per_start", (long long)g_nodes.size());
        }
    }
    out().count("transitions", g_ops_evaluated);
    out().count("traces_validated", g_calls);
    out().count("jp_patches_expected_ok", g_expect[P_OK]);
    out().count("jp_patches_expected_fail", g_expect[P_ERR]);
    out().count("jp_patches_unspecified_abstained", g_expect[P_UNSPEC]);
    out().gauge("jp_prefix_nodes", counter);
}

// ---------------------------------------------------------------------------
// from_diff
static long long g_jd_pairs = 0;
template <class Json>
static void check_jd_type(const MV& A, const MV& B) {
    ++g_eval;
    std::string why;
    MV pm;
    bool have_patch = false;
    try {
        Json a = from_mv<Json>(A), b = from_mv<Json>(B);
        Json patch = jpatch::from_diff(a, b);
        pm = to_mv(patch); have_patch = true;
        std::error_code ec;
        jpatch::apply_patch(a, patch, ec);
        MV got = to_mv(a);
        if (ec) why = "from_diff gives " + mv_json(pm) + "; applying it reports '" + ec.message() + "'";
        else if (!mv_eq(got, B, value_cmp())) why = "from_diff gives " + mv_json(pm) + "; applying it to a gives " + mv_json(got);
    } catch (const std::exception& ex) { why = std::string("threw ") + ex.what(); }
    if (!why.empty()) { out().viol("JD|" + hex(mv_json(A)) + "|" + hex(mv_json(B)), std::string(TypeName<Json>::name()) + " a=" + mv_json(A) + " b=" + mv_json(B) + ": " + why); return; }
    if (have_patch) {   // the generated patch under the reference interpreter
        MV d = A; std::string w; int ev;
        PStatus s = ref_apply_patch(d, pm, w, ev);
        if (s != P_OK || !mv_eq(d, B, value_cmp()))
            check_patch<Json>(A, pm, s, s == P_OK ? d : A, w, 0);   // reported as a conformance case of apply_patch on (a, from_diff(a,b))
    }
}
static void check_jd(const MV& A, const MV& B, unsigned types, bool count_case) {
    if (types & 1) check_jd_type<json>(A, B);
    if (types & 2) check_jd_type<ojson>(A, B);
    if (count_case) {
        ++g_jd_pairs;
        if (!mv_eq(A, B, value_cmp())) { ++g_nontrivial; if (g_nontrivial % 100003 == 1) out().sample("JD a=" + mv_json(A) + " b=" + mv_json(B)); }
    }
}
static TreeAlphabet jd_alphabet() {
    TreeAlphabet al;
    al.keys = {"a", "~/"};     // the second name needs both escapes in a path
    al.leaves = {MV::uint64(1), MV::uint64(2), MV::obj(), MV::arr()};
    return al;
}
static void run_jd(int N, unsigned types, int slice, int nslices) {
    TreeEnum te(jd_alphabet(), N);
    std::vector<MV> trees = te.all();
    for (size_t i = 0; i < trees.size(); ++i) {
        if ((int)(i % (size_t)nslices) != slice) continue;
        for (size_t j = 0; j < trees.size(); ++j) check_jd(trees[i], trees[j], types, true);
    }
    out().count("jd_pairs", g_jd_pairs);
    out().gauge("jd_trees", (long long)trees.size());
    g_classes.insert("jd:pair");
}

int main(int argc, char** argv) {
    Args a(argc, argv);
    init_values();
    if (a.replay) {
        auto parts = split(a.sig, '|');
        if (parts[0] == "JP" && parts.size() == 4) {
            MV doc = parse_or_die(unhex(parts[2])), patch = parse_or_die(unhex(parts[3]));
            MV d = doc; std::string w; int ev;
            PStatus s = ref_apply_patch(d, patch, w, ev);
            for (int form = 0; form < 2; ++form) {
                if (parts[1] == "json") check_patch<json>(doc, patch, s, s == P_OK ? d : doc, w, form); else check_patch<ojson>(doc, patch, s, s == P_OK ? d : doc, w, form);
            }
        } else if (parts[0] == "JD" && parts.size() == 3) check_jd(parse_or_die(unhex(parts[1])), parse_or_die(unhex(parts[2])), 3, false);
        out().flush();
        return 0;
    }
    std::string mode = a.a.empty() ? "" : a.a[0];
    unsigned types = (unsigned)a.geti("types", 3);
    if (mode == "jp") run_jp((int)a.geti("L", 2), types, a.slice, a.nslices, (int)a.geti("doc", -1));
    else if (mode == "jd") run_jd((int)a.geti("N", 4), types, a.slice, a.nslices);
    else { fprintf(stderr, "usage: c15 jp L= [doc=] [types=] | jd N= [types=]  slice nslices\n"); return 2; }
    for (auto& c : g_classes) out().cls(c);
    out().count("evaluations", g_eval);
    out().count("nontrivial", g_nontrivial);
    out().flush();
    return 0;
}
