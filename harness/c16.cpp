// C16 — JSON Merge Patch follows RFC 7386.
//  mp: every ordered pair (target, patch) of trees within node bounds: mergepatch::apply_merge_patch on the real
//      code versus the RFC 7386 MergePatch pseudo-code executed over the model value MV (written from the RFC text).
//  md: every ordered pair (source, target), target without null object members:
//      apply_merge_patch(source, from_diff(source, target)) == target.
//  The RFC's fifteen Appendix A examples are run through the reference first (model self-test; a failure is a
//  harness error, not a verdict) and through the real code.
// Signatures:  MP|<hex target json>|<hex patch json>     MD|<hex source json>|<hex target json>
#include "rfc8259_ref.hpp"
#include "tree_enum.hpp"
#include <jsoncons/json.hpp>
#include <jsoncons_ext/mergepatch/mergepatch.hpp>

using namespace vf;
using jsoncons::json; using jsoncons::ojson;

// ---------------------------------------------------------------------------
// Reference: RFC 7386 section 2
//   define MergePatch(Target, Patch):
//     if Patch is an Object:
//       if Target is not an Object: Target = {}
//       for each Name/Value pair in Patch:
//         if Value is null: if Name exists in Target: remove the Name/Value pair from Target
//         else: Target[Name] = MergePatch(Target[Name], Value)
//       return Target
//     else: return Patch
struct RefStats { bool reset = false, del_hit = false, del_miss = false, recurse = false, add_new = false, replace = false; };

static MV ref_merge(MV target, const MV& patch, RefStats& st) {
    if (patch.k != MV::Obj) return patch;
    if (target.k != MV::Obj) { target = MV::obj(); st.reset = true; }
    for (auto& nv : patch.o) {
        size_t pos = target.o.size();
        for (size_t i = 0; i < target.o.size(); ++i) if (target.o[i].first == nv.first) { pos = i; break; }
        if (nv.second.k == MV::Null) {
            if (pos < target.o.size()) { target.o.erase(target.o.begin() + pos); st.del_hit = true; } else st.del_miss = true;
        } else if (pos < target.o.size()) {
            if (nv.second.k == MV::Obj) st.recurse = true; else st.replace = true;
            MV sub = ref_merge(target.o[pos].second, nv.second, st);
            target.o[pos].second = sub;
        } else {
            st.add_new = true;
            MV sub = ref_merge(MV::null() /* undefined: not an Object */, nv.second, st);
            target.o.emplace_back(nv.first, sub);
        }
    }
    return target;
}

static bool has_null_member(const MV& m) {
    for (auto& kv : m.o) if (kv.second.k == MV::Null || has_null_member(kv.second)) return true;
    for (auto& e : m.a) if (has_null_member(e)) return true;
    return false;
}

static MVCmp value_cmp() { MVCmp c; c.order_insensitive = true; c.num_by_value = true; return c; }

static MV parse_or_die(const std::string& text) {
    RefResult r = ref_parse(text);
    if (!r.ok) { out().error("cannot parse JSON text in signature/self-test: " + text); out().flush(); exit(0); }
    return r.v;
}

static const char* RFC_EXAMPLES[15][3] = {
    {R"({"a":"b"})", R"({"a":"c"})", R"({"a":"c"})"},
    {R"({"a":"b"})", R"({"b":"c"})", R"({"a":"b","b":"c"})"},
    {R"({"a":"b"})", R"({"a":null})", R"({})"},
    {R"({"a":"b","b":"c"})", R"({"a":null})", R"({"b":"c"})"},
    {R"({"a":["b"]})", R"({"a":"c"})", R"({"a":"c"})"},
    {R"({"a":"c"})", R"({"a":["b"]})", R"({"a":["b"]})"},
    {R"({"a":{"b":"c"}})", R"({"a":{"b":"d","c":null}})", R"({"a":{"b":"d"}})"},
    {R"({"a":[{"b":"c"}]})", R"({"a":[1]})", R"({"a":[1]})"},
    {R"(["a","b"])", R"(["c","d"])", R"(["c","d"])"},
    {R"({"a":"b"})", R"(["c"])", R"(["c"])"},
    {R"({"a":"foo"})", R"(null)", R"(null)"},
    {R"({"a":"foo"})", R"("bar")", R"("bar")"},
    {R"({"e":null})", R"({"a":1})", R"({"e":null,"a":1})"},
    {R"([1,2])", R"({"a":"b","c":null})", R"({"a":"b"})"},
    {R"({})", R"({"a":{"bb":{"ccc":null}}})", R"({"a":{"bb":{}}})"},
};

static long long g_eval = 0, g_nontrivial = 0, g_abstain = 0;
static const char* CLS[] = {"mp:patch-not-object", "mp:target-not-object-reset", "mp:null-removes-member", "mp:null-for-missing-member",
                            "mp:recurse-into-member", "mp:replace-member", "mp:add-member", "md:both-objects", "md:replace-whole"};
static bool g_cls[9] = {false};

template <class Json>
static void check_mp_type(const MV& T, const MV& P, const MV& expect, const char* tname) {
    ++g_eval;
    std::string why;
    try {
        Json t = from_mv<Json>(T);
        Json p = from_mv<Json>(P);
        jsoncons::mergepatch::apply_merge_patch(t, p);
        MV got = to_mv(t);
        if (!mv_eq(got, expect, value_cmp())) why = "result " + mv_json(got) + " but RFC 7386 MergePatch gives " + mv_json(expect);
        else if (!mv_eq(to_mv(p), P, value_cmp())) why = "the patch argument was modified: " + mv_json(to_mv(p));
    } catch (const std::exception& ex) { why = std::string("threw ") + ex.what(); }
    if (!why.empty()) out().viol("MP|" + hex(mv_json(T)) + "|" + hex(mv_json(P)), std::string(tname) + ": apply_merge_patch(target=" + mv_json(T) + ", patch=" + mv_json(P) + "): " + why);
}

static void check_mp(const MV& T, const MV& P, unsigned types, bool count_case) {
    RefStats st;
    MV expect = ref_merge(T, P, st);
    if (types & 1) check_mp_type<json>(T, P, expect, "json");
    if (types & 2) check_mp_type<ojson>(T, P, expect, "ojson");
    if (count_case) {
        bool nontrivial = P.k == MV::Obj && !P.o.empty();
        if (nontrivial) { ++g_nontrivial; if (g_nontrivial % 40009 == 1) out().sample("MP target=" + mv_json(T) + " patch=" + mv_json(P) + " -> " + mv_json(expect)); }
        if (P.k != MV::Obj) g_cls[0] = true;
        if (st.reset) g_cls[1] = true;
        if (st.del_hit) g_cls[2] = true;
        if (st.del_miss) g_cls[3] = true;
        if (st.recurse) g_cls[4] = true;
        if (st.replace) g_cls[5] = true;
        if (st.add_new) g_cls[6] = true;
    }
}

template <class Json>
static void check_md_type(const MV& S, const MV& T, const char* tname) {
    ++g_eval;
    std::string why;
    try {
        Json s = from_mv<Json>(S);
        Json t = from_mv<Json>(T);
        Json patch = jsoncons::mergepatch::from_diff(s, t);
        MV pm = to_mv(patch);
        jsoncons::mergepatch::apply_merge_patch(s, patch);
        MV got = to_mv(s);
        if (!mv_eq(got, T, value_cmp())) why = "from_diff gives " + mv_json(pm) + "; applying it to the source gives " + mv_json(got);
        else if (!mv_eq(to_mv(t), T, value_cmp())) why = "from_diff modified its target argument";
    } catch (const std::exception& ex) { why = std::string("threw ") + ex.what(); }
    if (!why.empty()) out().viol("MD|" + hex(mv_json(S)) + "|" + hex(mv_json(T)), std::string(tname) + ": source=" + mv_json(S) + " target=" + mv_json(T) + ": " + why + " (expected the target)");
}

static void check_md(const MV& S, const MV& T, unsigned types, bool count_case) {
    if (has_null_member(T)) { ++g_abstain; return; }
    if (types & 1) check_md_type<json>(S, T, "json");
    if (types & 2) check_md_type<ojson>(S, T, "ojson");
    if (count_case) {
        bool nontrivial = S.k == MV::Obj && T.k == MV::Obj && !mv_eq(S, T, value_cmp());
        if (nontrivial) { ++g_nontrivial; if (g_nontrivial % 40009 == 1) out().sample("MD source=" + mv_json(S) + " target=" + mv_json(T)); }
        g_cls[S.k == MV::Obj && T.k == MV::Obj ? 7 : 8] = true;
    }
}

// model self-test + the same examples on the real code
static bool selftest(bool emit) {
    for (auto& ex : RFC_EXAMPLES) {
        MV T = parse_or_die(ex[0]), P = parse_or_die(ex[1]), R = parse_or_die(ex[2]);
        RefStats st;
        MV got = ref_merge(T, P, st);
        if (!mv_eq(got, R, value_cmp())) { out().error(std::string("reference model fails RFC 7386 appendix A example: ") + ex[0] + " + " + ex[1] + " gave " + mv_json(got)); return false; }
        if (emit) check_mp(T, P, 3, false);
    }
    return true;
}

static TreeAlphabet alphabet() {
    TreeAlphabet al;
    al.keys = {"a", "b"};
    al.leaves = {MV::null(), MV::uint64(1), MV::str("x"), MV::obj(), MV::arr()};
    return al;
}

int main(int argc, char** argv) {
    Args a(argc, argv);
    if (a.replay) {
        if (!selftest(false)) { out().flush(); return 0; }
        auto parts = split(a.sig, '|');
        if (parts.size() == 3 && parts[0] == "MP") check_mp(parse_or_die(unhex(parts[1])), parse_or_die(unhex(parts[2])), 3, false);
        else if (parts.size() == 3 && parts[0] == "MD") check_md(parse_or_die(unhex(parts[1])), parse_or_die(unhex(parts[2])), 3, false);
        out().flush();
        return 0;
    }
    std::string mode = a.a.empty() ? "" : a.a[0];
    if (!selftest(a.slice == 0 && mode == "mp")) { out().flush(); return 0; }
    if (a.slice == 0 && mode == "mp") out().count("rfc_examples_checked_on_model_and_impl", 15);
    int NA = (int)a.geti("NA", 4), NB = (int)a.geti("NB", 4);   // node bounds of first / second component
    int SK = (int)a.geti("SK", 0);                               // skip pairs with both components <= SK nodes (covered by another stage)
    unsigned types = (unsigned)a.geti("types", 3);
    if (mode != "mp" && mode != "md") { fprintf(stderr, "usage: c16 mp|md NA= NB= [SK=] [types=] slice nslices\n"); return 2; }
    TreeEnum te(alphabet(), std::max(NA, NB));
    std::vector<MV> trees = te.all();
    std::vector<int> nodes(trees.size());
    for (size_t i = 0; i < trees.size(); ++i) nodes[i] = te.nodes_at(i);
    size_t na = (size_t)te.count_upto(NA), nb = (size_t)te.count_upto(NB);
    long long pairs = 0;
    for (size_t i = 0; i < na; ++i) {
        if ((int)(i % (size_t)a.nslices) != a.slice) continue;
        for (size_t j = 0; j < nb; ++j) {
            if (SK && nodes[i] <= SK && nodes[j] <= SK) continue;
            ++pairs;
            if (mode == "mp") check_mp(trees[i], trees[j], types, true); else check_md(trees[i], trees[j], types, true);
        }
    }
    for (int i = 0; i < 9; ++i) if (g_cls[i]) out().cls(CLS[i]);
    out().count("evaluations", g_eval);
    out().count("nontrivial", g_nontrivial);
    out().count(mode + "_pairs", pairs);
    if (mode == "md") out().count("md_abstained_target_has_null_member", g_abstain);
    out().gauge(mode + "_trees_first", (long long)na);
    out().gauge(mode + "_trees_second", (long long)nb);
    out().flush();
    return 0;
}
