// C17 unit A: arithmetic types, strings, sequence and associative containers
#include "c17_common.hpp"
#include <deque>
#include <list>
#include <set>
#include <map>
#include <unordered_map>
#include <array>
using namespace c17;

template <class I> static std::vector<I> ints() {
    std::vector<I> v = {std::numeric_limits<I>::min(), I(0), I(1), std::numeric_limits<I>::max()};
    if (std::is_signed<I>::value) v.push_back(I(-1));
    return v;
}
void register_a() {
    register_type<int8_t>("int8_t", ints<int8_t>); register_type<uint8_t>("uint8_t", ints<uint8_t>);
    register_type<int16_t>("int16_t", ints<int16_t>); register_type<uint16_t>("uint16_t", ints<uint16_t>);
    register_type<int32_t>("int32_t", ints<int32_t>); register_type<uint32_t>("uint32_t", ints<uint32_t>);
    register_type<int64_t>("int64_t", ints<int64_t>); register_type<uint64_t>("uint64_t", ints<uint64_t>);
    register_type<bool>("bool", [] { return std::vector<bool>{false, true}; });
    register_type<double>("double", [] { return std::vector<double>{0.0, -1.5, 1e300, 0.1, 5e-324, 1.0}; });
    register_type<float>("float", [] { return std::vector<float>{0.0f, -1.5f, 3.0e38f, 0.1f, 1.0f}; });
    register_type<std::string>("string", [] { return std::vector<std::string>{"", "x", "1", "caf\xc3\xa9 \xf0\x9f\x98\x80", "a string longer than the small buffer ......"}; });
    register_type<std::vector<int>>("vector<int>", [] { return std::vector<std::vector<int>>{{}, {1}, {INT32_MIN, -1, 0, 1, INT32_MAX}}; });
    register_type<std::vector<std::vector<std::string>>>("vector<vector<string>>", [] { return std::vector<std::vector<std::vector<std::string>>>{{}, {{}}, {{"a"}, {}, {"b", "1"}}}; });
    register_type<std::vector<bool>>("vector<bool>", [] { return std::vector<std::vector<bool>>{{}, {true}, {true, false, true}}; });
    register_type<std::vector<uint8_t>>("vector<uint8_t>", [] { return std::vector<std::vector<uint8_t>>{{}, {0}, {1, 2, 255}}; });
    register_type<std::vector<double>>("vector<double>", [] { return std::vector<std::vector<double>>{{}, {1.5}, {0.0, -1.0, 1e300}}; });
    register_type<std::array<int, 2>>("array<int,2>", [] { return std::vector<std::array<int, 2>>{{{0, 0}}, {{-1, 1}}, {{INT32_MIN, INT32_MAX}}}; });
    // (deque<int> does not compile with encode_cbor in this version: the typed-array path builds a span from the deque)
    register_type<std::deque<std::string>>("deque<string>", [] { return std::vector<std::deque<std::string>>{{}, {"x"}, {"a", "", "1"}}; });
    register_type<std::list<std::string>>("list<string>", [] { return std::vector<std::list<std::string>>{{}, {"x"}, {"a", "", "1"}}; });
    register_type<std::set<std::string>>("set<string>", [] { return std::vector<std::set<std::string>>{{}, {"x"}, {"a", "", "1"}}; });
    register_type<std::map<std::string, int>>("map<string,int>", [] { return std::vector<std::map<std::string, int>>{{}, {{"a", 1}}, {{"a", -1}, {"b", 0}, {"", 1}}}; }, true);
    register_type<std::unordered_map<std::string, double>>("unordered_map<string,double>", [] { return std::vector<std::unordered_map<std::string, double>>{{}, {{"a", 1.5}}, {{"a", -1.0}, {"b", 0.0}}}; }, true);
    register_type<std::map<int, std::string>>("map<int,string>", [] { return std::vector<std::map<int, std::string>>{{}, {{1, "a"}}, {{-1, "x"}, {0, ""}, {7, "1"}}}; }, true);
    register_type<std::map<std::string, std::vector<int>>>("map<string,vector<int>>", [] { return std::vector<std::map<std::string, std::vector<int>>>{{}, {{"a", {}}}, {{"a", {1, 2}}, {"b", {}}}}; }, true);
}
