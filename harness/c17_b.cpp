// C17 unit B: pair, tuple, optional, variant, smart pointers, chrono, bitset, enum
#include "c17_common.hpp"
#include <tuple>
#include <chrono>
#include <bitset>
using namespace c17;

namespace ns17 { enum class colour { red, green, blue }; }
JSONCONS_ENUM_TRAITS(ns17::colour, red, green, blue)

namespace c17 {
template <> struct Eq<std::tuple<int, std::string, double>> { static bool eq(const std::tuple<int, std::string, double>& a, const std::tuple<int, std::string, double>& b) { return std::get<0>(a) == std::get<0>(b) && std::get<1>(a) == std::get<1>(b) && Eq<double>::eq(std::get<2>(a), std::get<2>(b)); } };
}
void register_b() {
    register_type<std::pair<int, std::string>>("pair<int,string>", [] { return std::vector<std::pair<int, std::string>>{{0, ""}, {-1, "x"}, {INT32_MAX, "1"}}; });
    register_type<std::tuple<int, std::string, double>>("tuple<int,string,double>", [] { return std::vector<std::tuple<int, std::string, double>>{std::make_tuple(0, std::string(""), 0.0), std::make_tuple(-1, std::string("x"), 1.5), std::make_tuple(INT32_MIN, std::string("1"), -1e300)}; });
    register_type<std::optional<int>>("optional<int>", [] { return std::vector<std::optional<int>>{std::nullopt, 0, -1, INT32_MAX}; });
    register_type<std::optional<std::string>>("optional<string>", [] { return std::vector<std::optional<std::string>>{std::nullopt, std::string(""), std::string("x")}; });
    register_type<std::vector<std::optional<int>>>("vector<optional<int>>", [] { return std::vector<std::vector<std::optional<int>>>{{}, {std::nullopt}, {1, std::nullopt, -1}}; });
    register_type<std::variant<int, std::string, bool>>("variant<int,string,bool>", [] { return std::vector<std::variant<int, std::string, bool>>{0, -1, std::string("x"), std::string(""), true, false}; });
    register_type<std::variant<double, int>>("variant<double,int>", [] { return std::vector<std::variant<double, int>>{1.5, 1, 0, -2.0}; });
    register_type<std::shared_ptr<int>>("shared_ptr<int>", [] { std::vector<std::shared_ptr<int>> v; v.push_back(nullptr); v.push_back(std::make_shared<int>(0)); v.push_back(std::make_shared<int>(-1)); return v; });
    registry().push_back({"unique_ptr<string>", [](int N) {
        std::vector<std::unique_ptr<std::string>> v; v.push_back(nullptr); v.push_back(std::make_unique<std::string>("")); v.push_back(std::make_unique<std::string>("x"));
        for (size_t i = 0; i < v.size(); ++i) check_value<std::unique_ptr<std::string>>("unique_ptr<string>", i, v[i], false);
        check_mismatch<std::unique_ptr<std::string>>("unique_ptr<string>", N);
    }});
    // counts at the edges of what the formats' timestamp representations hold (seconds / milliseconds / nanoseconds in 32, 34 and 64 bits)
    register_type<std::chrono::seconds>("chrono::seconds", [] { std::vector<std::chrono::seconds> v; for (long long c : {0LL, -1LL, 1LL, 1600000000LL, 4294967295LL, 4294967296LL, 17179869183LL, 17179869184LL, 253402300799LL, -62135596800LL, 9223372036LL, 9223372037LL, -9223372037LL}) v.push_back(std::chrono::seconds(c)); return v; });
    register_type<std::chrono::milliseconds>("chrono::milliseconds", [] { std::vector<std::chrono::milliseconds> v; for (long long c : {0LL, 1LL, -1LL, -1500LL, 999LL, 1000LL, 1600000000123LL, 4294967295999LL, 4294967296000LL, 17179869183999LL, 17179869184000LL, 9223372036854LL, 9223372036855LL, -9223372036855LL, 253402300799999LL, -62135596800000LL}) v.push_back(std::chrono::milliseconds(c)); return v; });
    register_type<std::chrono::nanoseconds>("chrono::nanoseconds", [] { std::vector<std::chrono::nanoseconds> v; for (long long c : {0LL, 1LL, -1LL, 999999999LL, 1000000000LL, -1500000000LL, 1600000000123456789LL, 4294967295999999999LL, 4294967296000000000LL, 9223372036000000000LL, -9223372036000000000LL}) v.push_back(std::chrono::nanoseconds(c)); return v; });
    // tagged scalars inside containers that are decoded through the generic (cursor to basic_json) fallback
    register_type<std::tuple<std::chrono::seconds, int, std::chrono::milliseconds>>("tuple<seconds,int,milliseconds>", [] { return std::vector<std::tuple<std::chrono::seconds, int, std::chrono::milliseconds>>{{std::chrono::seconds(5), 1, std::chrono::milliseconds(1500)}, {std::chrono::seconds(-7), 0, std::chrono::milliseconds(-1)}}; });
    register_type<std::vector<std::chrono::seconds>>("vector<seconds>", [] { return std::vector<std::vector<std::chrono::seconds>>{{std::chrono::seconds(1), std::chrono::seconds(-2), std::chrono::seconds(1600000000)}, {}}; });
    register_type<std::optional<std::vector<std::chrono::milliseconds>>>("optional<vector<milliseconds>>", [] { return std::vector<std::optional<std::vector<std::chrono::milliseconds>>>{std::vector<std::chrono::milliseconds>{std::chrono::milliseconds(1), std::chrono::milliseconds(-1500)}, std::nullopt}; });
    register_type<std::map<std::string, std::tuple<std::chrono::seconds, std::string>>>("map<string,tuple<seconds,string>>", [] { return std::vector<std::map<std::string, std::tuple<std::chrono::seconds, std::string>>>{{{"a", {std::chrono::seconds(3), "x"}}, {"b", {std::chrono::seconds(-3), ""}}}}; }, true);
    register_type<std::map<std::string, std::optional<std::vector<std::chrono::seconds>>>>("map<string,optional<vector<seconds>>>", [] { return std::vector<std::map<std::string, std::optional<std::vector<std::chrono::seconds>>>>{{{"a", std::vector<std::chrono::seconds>{std::chrono::seconds(2), std::chrono::seconds(9)}}, {"b", std::nullopt}}}; }, true);
    register_type<std::bitset<8>>("bitset<8>", [] { return std::vector<std::bitset<8>>{std::bitset<8>(0), std::bitset<8>(1), std::bitset<8>(0x80), std::bitset<8>(0xff), std::bitset<8>(0x5a)}; });
    register_type<std::bitset<70>>("bitset<70>", [] { std::bitset<70> a, b; b.set(0); b.set(69); b.set(33); return std::vector<std::bitset<70>>{a, b, ~a}; });
    register_type<ns17::colour>("enum colour", [] { return std::vector<ns17::colour>{ns17::colour::red, ns17::colour::green, ns17::colour::blue}; });
}
