// C17 unit C: classes described with the trait macros; main()
#include "c17_common.hpp"
#include <optional>
#include <sys/wait.h>
#include <unistd.h>
using namespace c17;

namespace ns17 {
struct All { int a; std::string b; bool operator==(const All& o) const { return a == o.a && b == o.b; } };
struct Nm { int a; std::optional<std::string> b; std::optional<std::vector<int>> zz; bool operator==(const Nm& o) const { return a == o.a && b == o.b && zz == o.zz; } };
class Cg { int a_; std::string b_; public: Cg() : a_(0) {} Cg(int a, const std::string& b) : a_(a), b_(b) {} int a() const { return a_; } const std::string& b() const { return b_; } bool operator==(const Cg& o) const { return a_ == o.a_ && b_ == o.b_; } };
class Gs { int a_ = 0; std::vector<std::string> b_; public: int getA() const { return a_; } void setA(int v) { a_ = v; } const std::vector<std::string>& getB() const { return b_; } void setB(const std::vector<std::string>& v) { b_ = v; } bool operator==(const Gs& o) const { return a_ == o.a_ && b_ == o.b_; } };
struct Blob { std::vector<uint8_t> b; int n; std::vector<uint8_t> c; bool operator==(const Blob& o) const { return b == o.b && n == o.n && c == o.c; } };
struct Nested { All a; std::vector<All> b; bool operator==(const Nested& o) const { return a == o.a && b == o.b; } };
struct Shape { virtual ~Shape() = default; virtual double area() const = 0; };
struct Rect : Shape { double a = 0, b = 0; Rect() {} Rect(double x, double y) : a(x), b(y) {} double area() const override { return a * b; } };
struct Circ : Shape { double zz = 0; Circ() {} Circ(double r) : zz(r) {} double area() const override { return 3 * zz * zz; } };
}
JSONCONS_ALL_MEMBER_TRAITS(ns17::All, a, b)
JSONCONS_N_MEMBER_TRAITS(ns17::Nm, 1, a, b, zz)
JSONCONS_ALL_CTOR_GETTER_TRAITS(ns17::Cg, a, b)
JSONCONS_ALL_GETTER_SETTER_NAME_TRAITS(ns17::Gs, (getA, setA, "a"), (getB, setB, "b"))
JSONCONS_ALL_MEMBER_TRAITS(ns17::Blob, b, n, c)
JSONCONS_ALL_MEMBER_TRAITS(ns17::Nested, a, b)
JSONCONS_ALL_MEMBER_TRAITS(ns17::Rect, a, b)
JSONCONS_ALL_MEMBER_TRAITS(ns17::Circ, zz)
JSONCONS_POLYMORPHIC_TRAITS(ns17::Shape, ns17::Rect, ns17::Circ)

namespace c17 {
template <> struct Eq<std::shared_ptr<ns17::Shape>> { static bool eq(const std::shared_ptr<ns17::Shape>& x, const std::shared_ptr<ns17::Shape>& y) {
    if (!x || !y) return !x && !y;
    auto* r1 = dynamic_cast<ns17::Rect*>(x.get()); auto* r2 = dynamic_cast<ns17::Rect*>(y.get());
    if (r1 || r2) return r1 && r2 && r1->a == r2->a && r1->b == r2->b;
    auto* c1 = dynamic_cast<ns17::Circ*>(x.get()); auto* c2 = dynamic_cast<ns17::Circ*>(y.get());
    return c1 && c2 && c1->zz == c2->zz; } };
}
void register_a(); void register_b();
static void register_c() {
    using namespace ns17;
    register_type<Blob>("ALL_MEMBER{b:bytes,n:int,c:bytes}", [] { return std::vector<Blob>{{{1, 2, 3}, 7, {9}}, {{}, 0, {}}, {{255}, -1, {0, 0}}}; }, true);
    register_type<std::vector<std::vector<uint8_t>>>("vector<vector<uint8_t>>", [] { return std::vector<std::vector<std::vector<uint8_t>>>{{{1, 2}, {3}, {4, 5, 6}}, {{7}}, {}}; });
    register_type<std::map<std::string, std::vector<uint8_t>>>("map<string,vector<uint8_t>>", [] { return std::vector<std::map<std::string, std::vector<uint8_t>>>{{{"a", {1}}, {"b", {2, 3}}, {"c", {4}}}}; }, true);
    register_type<All>("ALL_MEMBER{a:int,b:string}", [] { return std::vector<All>{{0, ""}, {-1, "x"}, {INT32_MAX, "1"}}; }, true);
    register_type<Nm>("N_MEMBER{a:int,b?:string,zz?:vector<int>}", [] { return std::vector<Nm>{{0, std::nullopt, std::nullopt}, {1, std::string("x"), std::nullopt}, {-1, std::nullopt, std::vector<int>{1, 2}}, {2, std::string(""), std::vector<int>{}}}; }, true);
    register_type<Cg>("CTOR_GETTER{a:int,b:string}", [] { return std::vector<Cg>{Cg(0, ""), Cg(-1, "x")}; }, true);
    register_type<Gs>("GETTER_SETTER_NAME{a:int,b:vector<string>}", [] { Gs x; Gs y; y.setA(-1); y.setB({"x", ""}); return std::vector<Gs>{x, y}; }, true);
    register_type<Nested>("ALL_MEMBER{a:All,b:vector<All>}", [] { return std::vector<Nested>{{{0, ""}, {}}, {{1, "x"}, {{2, "y"}, {3, ""}}}}; }, true);
    register_type<std::vector<All>>("vector<ALL_MEMBER>", [] { return std::vector<std::vector<All>>{{}, {{1, "x"}}, {{1, "x"}, {2, ""}}}; });
    register_type<std::shared_ptr<Shape>>("POLYMORPHIC shared_ptr<Shape>", [] { std::vector<std::shared_ptr<Shape>> v; v.push_back(std::make_shared<Rect>(1.0, 2.5)); v.push_back(std::make_shared<Circ>(1.5)); return v; }, true);
}

int main(int argc, char** argv) {
    Args a(argc, argv);
    register_a(); register_b(); register_c();
    auto& R = registry();
    int N = (int)a.geti("N", 3);
    if (a.replay) {
        // TY|<type>|...  or  MM|<type>|<hex text>: re-run that type completely (cheap), the same signature reappears
        auto p = split(a.sig, '|');
        if (p.size() >= 2) for (auto& t : R) if (t.name == p[1]) {
            fflush(stdout); pid_t pid = fork();
            if (pid == 0) { t.run(5); out().flush(); _exit(0); }
            int st = 0; waitpid(pid, &st, 0);
            if (!WIFEXITED(st) || WEXITSTATUS(st) != 0) out().viol("TY|" + t.name + "|crash", t.name + " :: a conversion crashed the process");
        }
        out().flush(); return 0;
    }
    out().viol_cap = 2000;
    // one forked child per type: an out-of-bounds read (ASan abort) or crash in a conversion becomes a violation for that type
    for (size_t i = 0; i < R.size(); ++i) {
        if ((int)(i % a.nslices) != a.slice) continue;
        fflush(stdout);
        pid_t pid = fork();
        if (pid == 0) {
            R[i].run(N);
            out().count("evaluations", cnt().eval); out().count("nontrivial", cnt().nontrivial);
            out().flush(); _exit(0);
        }
        int st = 0; waitpid(pid, &st, 0);
        if (!WIFEXITED(st) || WEXITSTATUS(st) != 0)
            out().viol("TY|" + R[i].name + "|crash", R[i].name + " :: a conversion crashed the process (" + (WIFSIGNALED(st) ? "signal " + std::to_string(WTERMSIG(st)) : "exit " + std::to_string(WEXITSTATUS(st))) + "): out-of-bounds access or abort while decoding/encoding (run the replay under ASan for the exact input)");
    }
    if (a.slice == 0) out().gauge("types", (long long)R.size());
    out().flush();
    return 0;
}
