// C17 — typed encoding and decoding are inverse and route-independent.  Generic checker shared by the c17_*.cpp units.
#pragma once
#include "mv.hpp"
#include "trees.hpp"
#include <jsoncons/json.hpp>
#include <jsoncons_ext/cbor/cbor.hpp>
#include <jsoncons_ext/msgpack/msgpack.hpp>
#include <jsoncons_ext/ubjson/ubjson.hpp>
#include <jsoncons_ext/bson/bson.hpp>
#include <memory>
#include <chrono>
#include <optional>
#include <variant>

namespace c17 {
using namespace vf;
using jsoncons::json;
typedef std::vector<uint8_t> Bytes;

struct Counters { long long eval = 0, nontrivial = 0; };
inline Counters& cnt() { static Counters c; return c; }

// equality that looks through smart pointers and treats NaN as equal to itself
template <class T> struct Eq { static bool eq(const T& a, const T& b) { return a == b; } };
template <> struct Eq<double> { static bool eq(double a, double b) { return a == b || (a != a && b != b); } };
template <> struct Eq<float> { static bool eq(float a, float b) { return a == b || (a != a && b != b); } };
template <class U> struct Eq<std::shared_ptr<U>> { static bool eq(const std::shared_ptr<U>& a, const std::shared_ptr<U>& b) { return (!a && !b) || (a && b && Eq<U>::eq(*a, *b)); } };
template <class U> struct Eq<std::unique_ptr<U>> { static bool eq(const std::unique_ptr<U>& a, const std::unique_ptr<U>& b) { return (!a && !b) || (a && b && Eq<U>::eq(*a, *b)); } };
template <class U> struct Eq<std::vector<U>> { static bool eq(const std::vector<U>& a, const std::vector<U>& b) { if (a.size() != b.size()) return false; for (size_t i = 0; i < a.size(); ++i) if (!Eq<U>::eq(a[i], b[i])) return false; return true; } };
template <class K, class V> struct Eq<std::unordered_map<K, V>> { static bool eq(const std::unordered_map<K, V>& a, const std::unordered_map<K, V>& b) { if (a.size() != b.size()) return false; for (auto& kv : a) { auto it = b.find(kv.first); if (it == b.end() || !Eq<V>::eq(kv.second, it->second)) return false; } return true; } };

// Where a format carries the value in a narrower representation, equality is demanded up to that representation:
// CBOR writes an epoch_nano count as tag 1 with a float64 of seconds, so a nanoseconds count comes back within the rounding
// of that double (1 part in 2^52, at least 1 ns); everything else must come back exactly.
template <class T> struct Near { static bool ok(int, const T&, const T&) { return false; } };
template <> struct Near<std::chrono::nanoseconds> { static bool ok(int f, const std::chrono::nanoseconds& a, const std::chrono::nanoseconds& b) {
    if (f != 1 /*F_CBOR*/) return false;
    long double x = (long double)a.count(), y = (long double)b.count(), d = x > y ? x - y : y - x, m = x < 0 ? -x : x;
    return d <= 1.0L + m * 4.5e-16L; } };

template <class T> std::string show_value(const T& t) { try { std::string s; jsoncons::encode_json(t, s); return s; } catch (const std::exception& e) { return std::string("<unprintable: ") + e.what() + ">"; } }

enum Fmt { F_JSON, F_CBOR, F_MSGPACK, F_UBJSON, F_BSON, NFMT };
inline const char* fmt_name(int f) { static const char* n[] = {"json", "cbor", "msgpack", "ubjson", "bson"}; return n[f]; }

template <class T> Bytes encode_typed(int f, const T& t) {
    Bytes b; std::string s;
    switch (f) { case F_JSON: jsoncons::encode_json(t, s); return Bytes(s.begin(), s.end());
        case F_CBOR: jsoncons::cbor::encode_cbor(t, b); return b; case F_MSGPACK: jsoncons::msgpack::encode_msgpack(t, b); return b;
        case F_UBJSON: jsoncons::ubjson::encode_ubjson(t, b); return b; default: jsoncons::bson::encode_bson(t, b); return b; }
}
template <class T> T decode_typed(int f, const Bytes& b) {
    switch (f) { case F_JSON: return jsoncons::decode_json<T>(std::string(b.begin(), b.end()));
        case F_CBOR: return jsoncons::cbor::decode_cbor<T>(b); case F_MSGPACK: return jsoncons::msgpack::decode_msgpack<T>(b);
        case F_UBJSON: return jsoncons::ubjson::decode_ubjson<T>(b); default: return jsoncons::bson::decode_bson<T>(b); }
}

// arrays whose elements are all integers 0..255 (and not empty) become byte strings
inline json bytesify(const json& j, bool& changed) {
    if (j.is_array()) {
        bool all = !j.empty(); for (const auto& e : j.array_range()) if (!(e.is_uint64() && e.as<uint64_t>() <= 255) && !(e.is_int64() && e.as<int64_t>() >= 0 && e.as<int64_t>() <= 255)) all = false;
        if (all) { std::vector<uint8_t> b; for (const auto& e : j.array_range()) b.push_back((uint8_t)e.as<uint64_t>()); changed = true; return json(jsoncons::byte_string_arg, b); }
        json a(jsoncons::json_array_arg); for (const auto& e : j.array_range()) a.push_back(bytesify(e, changed)); return a;
    }
    if (j.is_object()) { json o(jsoncons::json_object_arg); for (const auto& kv : j.object_range()) o.try_emplace(kv.key(), bytesify(kv.value(), changed)); return o; }
    return j;
}

// (1) inverse and (2) route independence for one value
template <class T>
void check_value(const std::string& tname, size_t vi, const T& t, bool object_rooted) {
    std::string vs = show_value(t);
    json viajson;
    bool have_json = false;
    try { viajson = json(t); have_json = true; } catch (const std::exception& e) { out().viol("TY|" + tname + "|" + std::to_string(vi) + "|tojson", tname + " value " + vs + " :: json(t) threw " + e.what()); }
    if (have_json) {
        ++cnt().eval;
        try { T back = viajson.template as<T>(); if (!Eq<T>::eq(back, t)) out().viol("TY|" + tname + "|" + std::to_string(vi) + "|dom", tname + " value " + vs + " :: json(t).as<T>() gives " + show_value(back)); else ++cnt().nontrivial; }
        catch (const std::exception& e) { out().viol("TY|" + tname + "|" + std::to_string(vi) + "|dom", tname + " value " + vs + " :: json(t).as<T>() threw " + e.what()); }
    }
    for (int f = 0; f < NFMT; ++f) {
        if (f == F_BSON && !object_rooted) continue;
        std::string sig = "TY|" + tname + "|" + std::to_string(vi) + "|" + fmt_name(f);
        std::string what = tname + " value " + vs + " via " + fmt_name(f) + " :: ";
        ++cnt().eval;
        Bytes enc;
        try { enc = encode_typed(f, t); } catch (const std::exception& e) { out().viol(sig, what + "encode threw " + e.what()); continue; }
        try { T back = decode_typed<T>(f, enc); if (!Eq<T>::eq(back, t) && Near<T>::ok(f, t, back)) { out().count("compared_up_to_the_formats_representation"); }
              else if (!Eq<T>::eq(back, t)) { out().viol(sig, what + "decode(encode(t)) gives " + show_value(back) + " (encoding " + hex(enc) + ")"); continue; } }
        catch (const std::exception& e) { out().viol(sig, what + "decode of own encoding threw " + e.what() + " (encoding " + hex(enc) + ")"); continue; }
        if (have_json) {
            // the streaming encoding and the encoding of the basic_json intermediate denote the same value
            try {
                Bytes enc2 = encode_typed(f, viajson);
                json a = decode_typed<json>(f, enc), b = decode_typed<json>(f, enc2);
                MVCmp c; c.order_insensitive = true; c.num_by_value = true; c.zero_sign = false;
                if (!mv_eq(to_mv(a), to_mv(b), c)) { out().viol(sig + "|route", what + "streaming encoding denotes " + mv_text(to_mv(a)) + " but the encoding of json(t) denotes " + mv_text(to_mv(b))); continue; }
            } catch (const std::exception& e) { out().viol(sig + "|route", what + "route comparison threw " + e.what()); continue; }
        }
        ++cnt().nontrivial;
    }
    // (2b) the same value in the other representation a format offers for it: arrays of small unsigned integers written as
    // byte strings.  Whatever as<T>() makes of it through the basic_json route, the streaming route must make of it too.
    if (have_json) {
        bool changed = false; json alt = bytesify(viajson, changed);
        if (changed) for (int f : {F_CBOR, F_MSGPACK, F_BSON}) {
            if (f == F_BSON && !alt.is_object()) continue;
            std::string sig = "TY|" + tname + "|" + std::to_string(vi) + "|" + fmt_name(f) + "|bytes";
            ++cnt().eval;
            Bytes enc; try { enc = encode_typed(f, alt); } catch (const std::exception&) { continue; }
            bool s_ok = false, d_ok = false; std::string s_err, d_err; std::unique_ptr<T> sv, dv;
            try { sv.reset(new T(decode_typed<T>(f, enc))); s_ok = true; } catch (const std::exception& e) { s_err = e.what(); }
            try { sv ? (void)0 : (void)0; json j2 = decode_typed<json>(f, enc); dv.reset(new T(j2.template as<T>())); d_ok = true; } catch (const std::exception& e) { d_err = e.what(); }
            if (s_ok != d_ok) out().viol(sig, tname + " value " + vs + " with byte strings for its byte arrays via " + fmt_name(f) + " (" + hex(enc) + ") :: streaming route " + (s_ok ? "succeeded" : "failed (" + s_err + ")") + " but basic_json route " + (d_ok ? "succeeded" : "failed (" + d_err + ")"));
            else if (s_ok && !Eq<T>::eq(*sv, *dv)) out().viol(sig, tname + " value " + vs + " with byte strings for its byte arrays via " + fmt_name(f) + " (" + hex(enc) + ") :: streaming route gives " + show_value(*sv) + " but basic_json route gives " + show_value(*dv));
            else ++cnt().nontrivial;
        }
    }
    if (vi == 0) out().sample(tname + " e.g. " + vs);
}

// (3) mismatching input: streaming route vs DOM route
inline const std::vector<std::string>& mismatch_texts(int N) {
    static std::map<int, std::vector<std::string>> memo;
    auto it = memo.find(N);
    if (it != memo.end()) return it->second;
    TreeEnum te; te.keys = {"a", "b", "zz"}; te.ordered_objects = true;   // every member order: an unknown member before, between and after the known ones
    te.leaves = {MV::null(), MV::boolean(true), MV::uint64(1), MV::int64(-1), MV::dbl(1.5), MV::str("x"), MV::str("1")};
    std::vector<std::string> v;
    for (auto& m : te.upto(N)) { jsoncons::ojson j = from_mv<jsoncons::ojson>(m); std::string s; j.dump(s); v.push_back(s); }
    return memo[N] = v;
}
template <class T>
void check_mismatch(const std::string& tname, int N) {
    for (const std::string& text : mismatch_texts(N)) {
        ++cnt().eval;
        std::string sig = "MM|" + tname + "|" + hex(text);
        bool s_ok = false, d_ok = false; std::string s_err, d_err; T sv{}, dv{};
        // "reported as a conversion error": any exception of the library's json_exception family (conv_error, ser_error,
        // json_runtime_error<...>) counts; anything else is a foreign exception
        try { sv = jsoncons::decode_json<T>(text); s_ok = true; }
        catch (const std::exception& e) { if (dynamic_cast<const jsoncons::json_exception*>(&e)) s_err = e.what(); else { out().viol(sig + "|stream-exc", tname + " from " + text + " :: streaming route threw a foreign exception: " + e.what()); continue; } }
        try { json j = json::parse(text); dv = j.template as<T>(); d_ok = true; }
        catch (const std::exception& e) { if (dynamic_cast<const jsoncons::json_exception*>(&e)) d_err = e.what(); else { out().viol(sig + "|dom-exc", tname + " from " + text + " :: DOM route threw a foreign exception: " + e.what()); continue; } }
        if (s_ok != d_ok) {
            std::string kind = s_ok ? "stream-ok-dom-fail" : "stream-fail-dom-ok";
            std::string cls = (s_ok ? d_err : s_err); cls = cls.substr(0, cls.find(" at line")); for (auto& ch : cls) if (ch == '|' || ch == '\t') ch = ' ';
            static std::map<std::string, int> per_class;   // a few reports per class, so that a recorded finding cannot crowd out a new kind
            if (++per_class[tname + kind + cls] > 6) { out().count("mismatch_violations_beyond_class_cap"); continue; }
            out().viol(sig + "|" + kind + "|" + cls, tname + " from " + text + " :: streaming route " + (s_ok ? "succeeded with " + show_value(sv) : "failed (" + s_err + ")") + " but DOM route " + (d_ok ? "succeeded with " + show_value(dv) : "failed (" + d_err + ")")); continue; }
        if (s_ok && !Eq<T>::eq(sv, dv)) { out().viol(sig + "|values-differ", tname + " from " + text + " :: streaming route gives " + show_value(sv) + " but DOM route gives " + show_value(dv)); continue; }
        if (s_ok) ++cnt().nontrivial;
        out().cls(s_ok ? "mm:both-ok" : "mm:both-fail");
    }
}

struct TypeCheck { std::string name; std::function<void(int /*N*/)> run; };
inline std::vector<TypeCheck>& registry() { static std::vector<TypeCheck> r; return r; }

template <class T>
void register_type(const std::string& name, std::function<std::vector<T>()> values, bool object_rooted = false) {
    registry().push_back({name, [name, values, object_rooted](int N) {
        auto vals = values();
        for (size_t i = 0; i < vals.size(); ++i) check_value<T>(name, i, vals[i], object_rooted);
        check_mismatch<T>(name, N);
        out().cls("type:" + name);
    }});
}
} // namespace c17
