// C18 — CSV and TOON text round-trip tabular and tree data.
#include "mv.hpp"
#include "trees.hpp"
#include <jsoncons/json.hpp>
#include <jsoncons_ext/csv/csv.hpp>
#include <jsoncons_ext/toon/toon.hpp>
#include <jsoncons_ext/toon/decode_toon.hpp>

using namespace vf;
using jsoncons::json; using jsoncons::ojson;
namespace csv = jsoncons::csv;

static long long g_eval = 0, g_nontrivial = 0;

// ---- CSV ----------------------------------------------------------------------------------------------
struct CsvOpt { char delim, quote, esc; const char* eol; int style; /*0 all,1 nonnumeric,2 minimal*/ int mapping; /*0 n_rows,1 n_objects,2 m_columns*/ };
static std::string optname(const CsvOpt& o) {
    std::string s; s += "d="; s += (o.delim == '\t' ? 't' : o.delim); s += " q="; s += o.quote; s += " e="; s += (o.esc == '\\' ? 'b' : 'q'); s += (strlen(o.eol) == 2 ? " crlf" : " lf");
    s += " style=" + std::to_string(o.style) + " map=" + std::to_string(o.mapping); return s;
}
static std::vector<CsvOpt> csv_opts() {
    std::vector<CsvOpt> v;
    for (char d : {',', ';', '\t', '|'}) for (char q : {'"', '\''}) for (int e = 0; e < 2; ++e) for (const char* eol : {"\n", "\r\n"}) for (int st = 0; st < 3; ++st) for (int m = 0; m < 3; ++m)
        v.push_back(CsvOpt{d, q, e ? '\\' : q, eol, st, m});
    return v;
}
static csv::csv_options mk(const CsvOpt& o) {
    csv::csv_options c;
    c.field_delimiter(o.delim).quote_char(o.quote).quote_escape_char(o.esc).line_delimiter(o.eol);
    c.quote_style(o.style == 0 ? csv::quote_style_kind::all : (o.style == 1 ? csv::quote_style_kind::nonnumeric : csv::quote_style_kind::minimal));
    c.mapping_kind(o.mapping == 0 ? csv::csv_mapping_kind::n_rows : (o.mapping == 1 ? csv::csv_mapping_kind::n_objects : csv::csv_mapping_kind::m_columns));
    c.assume_header(o.mapping != 0);
    c.infer_types(o.style != 2);      // strings are told apart by quoting (all, nonnumeric) or by switching inference off (minimal)
    return c;
}

// cell alphabets
static std::vector<MV> string_cells(bool full) {
    std::vector<std::string> sym = {"a", "1", ",", ";", "\"", "'", "\n", "\r", " ", "\\", "\xc3\xa9", "\t", "|"};
    std::vector<MV> v; v.push_back(MV::str(""));
    for (auto& a : sym) v.push_back(MV::str(a));
    if (full) for (auto& a : sym) for (auto& b : sym) v.push_back(MV::str(a + b));
    else for (auto s : {"a,b", "\"\"", "a\"", " a ", "1.5", "true", "null", "x\r\ny", "\\\"", "''", "-1"}) v.push_back(MV::str(s));
    return v;
}
static std::vector<MV> scalar_cells() { return {MV::uint64(1), MV::dbl(-1.5), MV::boolean(true), MV::boolean(false), MV::null(), MV::int64(-7)}; }

static std::vector<std::string> g_names;   // column names of the table under construction (default c0, c1, ...)
static std::string colname(size_t k) { return k < g_names.size() ? g_names[k] : "c" + std::to_string(k); }
static json build_table(const std::vector<std::vector<MV>>& rows, int mapping) {
    size_t ncol = rows[0].size();
    if (mapping == 0) { json t(jsoncons::json_array_arg); for (auto& r : rows) { json a(jsoncons::json_array_arg); for (auto& c : r) a.push_back(from_mv<json>(c)); t.push_back(a); } return t; }
    if (mapping == 1) { json t(jsoncons::json_array_arg); for (auto& r : rows) { json o(jsoncons::json_object_arg); for (size_t k = 0; k < ncol; ++k) o.try_emplace(colname(k), from_mv<json>(r[k])); t.push_back(o); } return t; }
    json t(jsoncons::json_object_arg); for (size_t k = 0; k < ncol; ++k) { json col(jsoncons::json_array_arg); for (auto& r : rows) col.push_back(from_mv<json>(r[k])); t.try_emplace(colname(k), col); } return t;
}

static bool field_needs_quote(const std::string& s, const CsvOpt& o) { return s.find(o.delim) != std::string::npos || s.find(o.quote) != std::string::npos || s.find('\n') != std::string::npos || s.find('\r') != std::string::npos; }

static std::string cell_enc(const MV& m) {
    switch (m.k) { case MV::Str: return "s" + hex(m.s); case MV::UInt: return "u" + std::to_string(m.u); case MV::Int: return "i" + std::to_string(m.i);
        case MV::Dbl: { char b[24]; snprintf(b, sizeof b, "d%016llx", (unsigned long long)m.u); return b; } case MV::Bool: return m.b ? "t" : "f"; default: return "n"; }
}
static MV cell_dec(const std::string& e) {
    switch (e[0]) { case 's': return MV::str(unhex(e.substr(1))); case 'u': return MV::uint64(strtoull(e.c_str() + 1, nullptr, 10)); case 'i': return MV::int64(strtoll(e.c_str() + 1, nullptr, 10));
        case 'd': return MV::dblbits(strtoull(e.c_str() + 1, nullptr, 16)); case 't': return MV::boolean(true); case 'f': return MV::boolean(false); default: return MV::null(); }
}
static void check_table(const std::vector<std::vector<MV>>& rows, const CsvOpt& o, int oi, const std::string& tag) {
    // a one-column row holding the empty string written without quotes is an empty line: CSV cannot tell it from no row at all.
    // With the quoting styles the field is written as "" and is judged; with minimal quoting it is abstained.
    if (o.style == 2 && rows[0].size() == 1) for (auto& r : rows) if (r[0].k == MV::Str && r[0].s.empty()) { out().count("abstained_empty_single_column"); return; }
    ++g_eval;
    json t = build_table(rows, o.mapping);
    csv::csv_options opt = mk(o);
    std::string cells; for (auto& r : rows) { if (!cells.empty()) cells += ";"; for (size_t k = 0; k < r.size(); ++k) { if (k) cells += ","; cells += cell_enc(r[k]); } }
    if (!g_names.empty()) { cells += "|N"; for (auto& n : g_names) cells += hex(n) + ","; }
    std::string sig = "CSV|" + std::to_string(oi) + "|" + cells;
    std::string what = "csv " + optname(o) + " table=" + mv_text(to_mv(t)) + " :: ";
    std::string text;
    try { csv::encode_csv(t, text, opt); } catch (const std::exception& e) { out().viol(sig, what + "encode_csv threw " + e.what()); return; }
    json back;
    try { back = csv::decode_csv<json>(text, opt); } catch (const std::exception& e) { out().viol(sig, what + "decode_csv of the encoder's own output threw " + e.what() + "; text=" + text); return; }
    MVCmp c; c.num_by_value = true; c.zero_sign = false;
    if (!mv_eq(to_mv(back), to_mv(t), c)) { out().viol(sig, what + "decoded " + mv_text(to_mv(back)) + "; text=" + text); return; }
    // independently: a field containing the delimiter, the quote or a line break is quoted in the text
    for (auto& r : rows) for (auto& cell : r) if (cell.k == MV::Str && field_needs_quote(cell.s, o)) {
        // the raw field text must not occur bare: look for quote char + first char of the field
        std::string esc; for (char ch : cell.s) { if (ch == o.quote || (ch == o.esc && o.esc != o.quote)) { esc.push_back(o.esc); } esc.push_back(ch); }
        std::string quoted = std::string(1, o.quote) + esc + std::string(1, o.quote);
        if (text.find(quoted) == std::string::npos) { out().viol(sig + "|quoting", what + "a field containing a delimiter, quote or line break is not quoted in the output: " + text); return; }
    }
    ++g_nontrivial;
    if (g_nontrivial % 200003 == 1) out().sample(tag + " " + optname(o) + " " + mv_text(to_mv(t)) + " -> " + text);
}

static void run_csv(bool thorough, int slice, int nslices) {
    auto opts = csv_opts();
    auto full = string_cells(true), small = string_cells(false), scal = scalar_cells();
    long long idx = 0;
    for (size_t oi = 0; oi < opts.size(); ++oi) {
        const CsvOpt& o = opts[oi];
        std::vector<MV> cellsA = full, cellsB = small;
        if (o.style != 2) { cellsA.insert(cellsA.end(), scal.begin(), scal.end()); cellsB.insert(cellsB.end(), scal.begin(), scal.end()); }
        // 1x1 and 1x2 / 2x1 over the full alphabet, 2x2 over the reduced one (thorough: 2x2 with one full cell)
        for (auto& a : cellsA) { if ((int)(idx++ % nslices) != slice) continue; check_table({{a}}, o, (int)oi, "1x1"); }
        for (auto& a : cellsA) for (auto& b : cellsB) { if ((int)(idx++ % nslices) != slice) continue; check_table({{a, b}}, o, (int)oi, "1x2"); check_table({{a}, {b}}, o, (int)oi, "2x1"); }
        if (thorough) for (auto& a : cellsB) for (auto& b : cellsA) { if ((int)(idx++ % nslices) != slice) continue; check_table({{a, b}}, o, (int)oi, "1x2"); check_table({{a}, {b}}, o, (int)oi, "2x1"); }
        for (auto& a : cellsB) for (auto& b : cellsB) { if ((int)(idx++ % nslices) != slice) continue; for (auto& c2 : cellsB) for (auto& d : (thorough ? cellsB : std::vector<MV>{cellsB[1], cellsB[3], cellsB.back()})) check_table({{a, b}, {c2, d}}, o, (int)oi, "2x2"); }
    }
    // column names over the string alphabet (the header line is written and read by the same rules as any other record)
    for (size_t oi = 0; oi < opts.size(); ++oi) {
        const CsvOpt& o = opts[oi];
        if (o.mapping == 0) continue;
        for (auto& a : full) for (auto& b : small) {
            if (a.s.empty() || b.s.empty() || a.s == b.s) continue;     // names are unique and non-empty
            if ((int)(idx++ % nslices) != slice) continue;
            g_names = {a.s, b.s};
            check_table({{MV::str("v"), MV::str("w")}}, o, (int)oi, "names");
            if (thorough) check_table({{MV::str("v"), MV::str("w")}, {MV::str("x"), MV::str("y,")}}, o, (int)oi, "names");
            g_names = {b.s, a.s};
            check_table({{MV::str("v"), MV::str("w")}}, o, (int)oi, "names");
            g_names.clear();
        }
    }
    out().cls("csv");
}

// ---- TOON ---------------------------------------------------------------------------------------------
// structural features of a value, used to attribute round-trip failures to recorded findings
static void toon_features(const MV& m, bool in_array, std::set<std::string>& f) {
    if (m.k == MV::Arr) {
        if (in_array) f.insert("array-in-array");
        bool all_obj = !m.a.empty(), all_prim = true;
        for (auto& e : m.a) { if (e.k != MV::Obj) all_obj = false; if (e.k == MV::Arr || e.k == MV::Obj) all_prim = false; }
        for (auto& e : m.a) {
            if (e.k == MV::Obj && !e.o.empty() && (e.o[0].second.k == MV::Obj)) f.insert("list-item-object-first-member-object");
            if (e.k == MV::Obj && !e.o.empty() && (e.o[0].second.k == MV::Arr)) f.insert("list-item-object-first-member-array");
            if (e.k == MV::Obj && e.o.empty()) f.insert("empty-object-in-array");
            toon_features(e, true, f);
        }
        if (all_obj) {   // candidate for the tabular form: same keys, primitive values
            bool tab = true; for (auto& e : m.a) { if (e.o.size() != m.a[0].o.size()) tab = false; for (size_t i = 0; tab && i < e.o.size(); ++i) { if (e.o[i].first != m.a[0].o[i].first || e.o[i].second.k == MV::Arr || e.o[i].second.k == MV::Obj) tab = false; } }
            if (tab && !m.a[0].o.empty()) { f.insert("tabular"); for (auto& kv : m.a[0].o) if (kv.first.empty() || kv.first.find_first_of(" :,-[\"") != std::string::npos || (kv.first[0] >= '0' && kv.first[0] <= '9')) f.insert("tabular-special-key"); }
        }
        (void)all_prim;
    } else if (m.k == MV::Obj) {
        for (auto& kv : m.o) { if (kv.first.empty()) f.insert("empty-key"); toon_features(kv.second, false, f); }
    }
}
// report at most a few violations per structural class, so that a flood from a recorded finding cannot crowd out a new kind
static std::map<std::string, int> g_toon_class_count;
static void toon_viol(const std::string& fl, const std::string& sig, const std::string& detail) {
    if (++g_toon_class_count[fl] <= 8) out().viol(sig, detail); else out().count("toon_violations_beyond_class_cap");
}
static void run_toon(bool thorough, int slice, int nslices, int only_oi = -1, long only_i = -1) {
    out().viol_cap = 1000000;
    TreeEnum te; te.ordered_objects = false;
    te.keys = {"a", "a b", "", "-", "1", "a:b", "a,b", "[", "\xc3\xa9"};
    te.leaves = {MV::null(), MV::boolean(true), MV::uint64(1), MV::dbl(-1.5), MV::dbl(0.5), MV::dbl(-0.25), MV::dbl(1e-7), MV::dbl(1e21), MV::int64(-7)};
    for (auto s : {"", "a", " a", "a ", "1", "-1", "1.5", "1e5", "05", "true", "null", "-", "a,b", "a:b", "a|b", "\"", "\\", "\n", "\t", "\x01", "- x", "[1]",
                   "0.5", "1e+5", "1E-5", "2024-01-02", "1.", ".5", "1e", "-0", "0x1", "+1", "1-2", "00", "0.", "-"}) te.leaves.push_back(MV::str(s));
    int N = thorough ? 4 : 3;
    auto vals = te.upto(N);
    // plus: deeper shapes over a reduced alphabet
    TreeEnum t2; t2.keys = {"a", "b"}; t2.leaves = {MV::uint64(1), MV::str("x"), MV::str("1"), MV::null()};
    auto deep = t2.upto(thorough ? 6 : 5);
    vals.insert(vals.end(), deep.begin(), deep.end());
    if (slice == 0) out().gauge("toon_trees", (long long)vals.size());
    int oi = 0;
    for (size_t indent : {2, 4}) for (auto delim : {jsoncons::toon::toon_delimiter_kind::comma, jsoncons::toon::toon_delimiter_kind::tab, jsoncons::toon::toon_delimiter_kind::pipe}) for (int lm = 0; lm < 2; ++lm, ++oi) {
        jsoncons::toon::toon_options o; o.indent(indent); o.delimiter(delim); if (lm) o.length_marker('#');
        for (size_t i = 0; i < vals.size(); ++i) {
            if ((int)(i % nslices) != slice) continue;
            if (only_oi >= 0 && (oi != only_oi || (long)i != only_i)) continue;
            ++g_eval;
            ojson v = from_mv<ojson>(vals[i]);
            MV orig = to_mv(v);
            std::set<std::string> feats; toon_features(orig, false, feats);
            std::string fl; for (auto& x : feats) { fl += x; fl += "+"; }
            std::string sig = "TOON|" + std::to_string(oi) + "|" + (thorough ? "t" : "q") + "|" + std::to_string(i) + "|" + fl;
            std::string what = "toon indent=" + std::to_string(indent) + " delim=" + std::string(1, char(delim)) + (lm ? " #" : "") + " value=" + mv_text(orig) + " :: ";
            std::string text;
            try { jsoncons::toon::encode_toon(v, text, o); } catch (const std::exception& e) { toon_viol(fl, sig, what + "encode_toon threw " + e.what()); continue; }
            ojson back;
            try { back = jsoncons::toon::decode_toon<ojson>(text, o); } catch (const std::exception& e) { toon_viol(fl, sig, what + "decode_toon of the encoder's own output threw " + e.what() + "; text=" + text); continue; }
            MVCmp c; c.num_by_value = true; c.zero_sign = false;
            if (!mv_eq(to_mv(back), orig, c)) { toon_viol(fl, sig, what + "decoded " + mv_text(to_mv(back)) + "; text=" + text); continue; }
            ++g_nontrivial;
            if (g_nontrivial % 100003 == 2) out().sample("toon " + mv_text(orig) + " -> " + text);
        }
    }
    out().cls("toon");
}

int main(int argc, char** argv) {
    Args a(argc, argv);
    bool thorough = a.get("tier", "quick") == "thorough";
    if (a.replay) {
                auto p = split(a.sig, '|');
        if (p[0] == "CSV" && p.size() >= 3) {
            auto opts = csv_opts(); int oi = atoi(p[1].c_str());
            std::vector<std::vector<MV>> rows;
            for (auto& r : split(p[2], ';')) { rows.emplace_back(); for (auto& c : split(r, ',')) rows.back().push_back(cell_dec(c)); }
            for (size_t k = 3; k < p.size(); ++k) if (!p[k].empty() && p[k][0] == 'N') { g_names.clear(); for (auto& n : split(p[k].substr(1), ',')) if (!n.empty()) g_names.push_back(unhex(n)); }
            if (oi >= 0 && oi < (int)opts.size()) check_table(rows, opts[oi], oi, "replay");
        } else if (p[0] == "TOON" && p.size() >= 4) run_toon(p[2] == "t", 0, 1, atoi(p[1].c_str()), atol(p[3].c_str()));
        out().flush(); return 0;
    }
    std::string mode = a.a.empty() ? "" : a.a[0];
    if (mode == "csv") run_csv(thorough, a.slice, a.nslices);
    else if (mode == "toon") run_toon(thorough, a.slice, a.nslices);
    out().count("evaluations", g_eval);
    out().count("nontrivial", g_nontrivial);
    out().flush();
    return 0;
}
