// shared by c19_core.cpp and c19_ext.cpp
#pragma once
#include "allocfail.hpp"
#include "mv.hpp"
#include <jsoncons/json.hpp>

namespace c19 {
using namespace vf;
using jsoncons::json; using jsoncons::ojson;

static const char* LONG1 = "a long string that does not fit the inline buffer (1)";
static const char* LONG2 = "another long string, also heap allocated ............(2)";

// documents chosen so that every heap-backed alternative (long string, array, object, nested) is live at some allocation
inline std::vector<std::string> texts() {
    return {
        std::string("{\"a\":\"") + LONG1 + "\",\"b\":[1,2,3,{\"c\":\"" + LONG2 + "\"}],\"d\":{\"e\":{\"f\":[]}},\"g\":[[\"" + LONG1 + "\"],[],{}]}",
        std::string("[\"") + LONG1 + "\",\"" + LONG2 + "\",[[[1]]],{\"k\":{\"k\":{\"k\":null}}},12345678901234567890123,1e400]",
        std::string("\"") + LONG1 + "\"",
        "{\"z\":1,\"y\":2,\"x\":3,\"w\":4,\"v\":5,\"u\":6,\"t\":7,\"s\":8,\"r\":9,\"q\":10}",
    };
}

// internal consistency of a value: iteration count equals size(), sorted keys strictly increasing, serialisation works
template <class Json>
std::string validate(const Json& j, bool sorted, int depth = 0) {
    if (depth > 64) return "";
    if (j.is_array()) {
        size_t n = 0; for (const auto& e : j.array_range()) { ++n; std::string r = validate(e, sorted, depth + 1); if (!r.empty()) return r; }
        if (n != j.size()) return "array iteration count != size()";
    } else if (j.is_object()) {
        size_t n = 0; std::string prev; bool first = true;
        for (const auto& kv : j.object_range()) {
            ++n; std::string k(kv.key());
            if (sorted && !first && !(prev < k)) return "object keys not strictly increasing";
            prev = k; first = false;
            std::string r = validate(kv.value(), sorted, depth + 1); if (!r.empty()) return r;
        }
        if (n != j.size()) return "object iteration count != size()";
    } else if (j.is_string()) { auto sv = j.as_string_view(); size_t h = 0; for (char c : sv) h += (unsigned char)c; (void)h; }
    else if (j.is_byte_string()) { auto bv = j.as_byte_string_view(); size_t h = 0; for (auto c : bv) h += c; (void)h; }
    if (depth == 0) { try { std::string s; j.dump(s); } catch (const std::exception& e) { return std::string("dump of the survivor threw: ") + e.what(); } }
    return "";
}

struct Registry { std::vector<vf::Scenario> list; };
inline Registry& reg() { static Registry r; return r; }

inline int main_impl(int argc, char** argv) {
    vf::Args a(argc, argv);
    auto& L = reg().list;
    if (a.replay) {
        // AF|<scenario name>|<n>
        // (a scenario name may itself contain '|': the name is what stands between the first and the last bar)
        size_t f = a.sig.find('|'), l = a.sig.rfind('|');
        if (f != std::string::npos && l > f) { std::string name = a.sig.substr(f + 1, l - f - 1); for (auto& sc : L) if (sc.name == name) vf::run_scenario(sc, "AF|" + sc.name, atoll(a.sig.c_str() + l + 1)); }
        vf::out().flush(); return 0;
    }
    if (a.has("list")) { for (auto& sc : L) printf("%s\n", sc.name.c_str()); return 0; }
    for (size_t i = 0; i < L.size(); ++i) {
        if ((int)(i % a.nslices) != a.slice) continue;
        vf::run_scenario(L[i], "AF|" + L[i].name);
        vf::out().cls("scenario:" + L[i].name);
        if (i % 5 == 0) vf::out().sample("scenario " + L[i].name + ": every allocation inside the operation fails once");
    }
    vf::out().flush();
    return 0;
}
} // namespace c19
