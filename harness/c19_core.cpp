// C19 (core): allocation failure at every point of parsing, decoding, copying, assigning, inserting, serialising.
#include "c19_common.hpp"
#include <jsoncons_ext/cbor/cbor.hpp>
#include <jsoncons_ext/msgpack/msgpack.hpp>
#include <jsoncons_ext/ubjson/ubjson.hpp>
#include <jsoncons_ext/bson/bson.hpp>
#include <jsoncons_ext/csv/csv.hpp>

VF_DEFINE_OPERATOR_NEW

using namespace c19;
typedef std::vector<uint8_t> Bytes;

template <class T> static void* box(T* p) { return p; }

// a value with every heap-backed alternative incl. byte strings and tagged values (for the binary formats)
static json rich_value() {
    json j = json::parse(texts()[0]);
    j["bin"] = json(jsoncons::byte_string_arg, std::vector<uint8_t>(40, 7));
    j["big"] = json("123456789012345678901234567890", jsoncons::semantic_tag::bigint);
    j["when"] = json("2020-01-01T00:00:00Z", jsoncons::semantic_tag::datetime);
    return j;
}

// The result of the operation outlives the injection window (its later destruction is not part of the operation):
// it is move-constructed into a holder that make() allocated beforehand and destroyed with injection off.
template <class T> struct Hold { bool has = false; alignas(T) unsigned char buf[sizeof(T)]; T& get() { return *reinterpret_cast<T*>(buf); } ~Hold() { if (has) get().~T(); } };

template <class Json>
static void add_parse(const std::string& tname, int ti) {
    std::string text = texts()[ti];
    bool sorted = tname == "json";
    Scenario s; s.name = tname + "::parse#" + std::to_string(ti);
    s.make = [] { return (void*)new Hold<Json>; };
    s.run = [text](void* c) { auto* h = (Hold<Json>*)c; new (h->buf) Json(Json::parse(text)); h->has = true; };
    s.check = [sorted](void* c, bool) { auto* h = (Hold<Json>*)c; return h->has ? validate(h->get(), sorted) : std::string(); };
    s.destroy = [](void* c) { delete (Hold<Json>*)c; };
    reg().list.push_back(s);
}

// f(holder) performs the operation and leaves its result in the holder
template <class T, class F>
static void add_op(const std::string& name, F f) {
    Scenario s; s.name = name;
    s.make = [] { return (void*)new Hold<T>; };
    s.run = [f](void* c) { auto* h = (Hold<T>*)c; f(*h); };
    s.check = [](void*, bool) { return std::string(); };
    s.destroy = [](void* c) { delete (Hold<T>*)c; };
    reg().list.push_back(s);
}
#define KEEP(h, T, expr) do { new ((h).buf) T(expr); (h).has = true; } while (0)

struct Two { json doc; json c; std::string doc_text; Hold<json> result; };

static std::vector<std::pair<std::string, std::function<json()>>> targets() {
    return {
        {"null", [] { return json::null(); }},
        {"long-string", [] { return json(LONG2); }},
        {"array", [] { json a(jsoncons::json_array_arg); a.push_back(LONG1); a.push_back(json::parse("[[1],{\"x\":[2]}]")); return a; }},
        {"object", [] { return json::parse(std::string("{\"p\":\"") + LONG2 + "\",\"q\":{\"r\":[1,2]}}"); }},
        {"bytes", [] { return json(jsoncons::byte_string_arg, std::vector<uint8_t>(40, 1)); }},
    };
}

static void add_all() {
    for (int ti = 0; ti < (int)texts().size(); ++ti) { add_parse<json>("json", ti); add_parse<ojson>("ojson", ti); }
    {   // stream and iterator sources
        std::string text = texts()[0];
        add_op<json>("json::parse(istream)", [text](Hold<json>& h) { std::istringstream is(text); KEEP(h, json, json::parse(is)); });
        add_op<json>("json::parse(iterators)", [text](Hold<json>& h) { KEEP(h, json, json::parse(text.begin(), text.end())); });
        add_op<int>("json_cursor-loop", [text](Hold<int>&) { jsoncons::json_string_cursor c(text); for (; !c.done(); c.next()) {} });
        { typedef std::map<std::string, std::vector<std::string>> M; std::string mt = std::string("{\"a\":[\"") + LONG1 + "\"],\"b\":[\"" + LONG2 + "\",\"x\"]}"; add_op<M>("decode_json<map>", [mt](Hold<M>& h) { KEEP(h, M, jsoncons::decode_json<M>(mt)); }); }
    }
    {
        json rv = rich_value();
        Bytes cb, mb, ub, bb; jsoncons::cbor::encode_cbor(rv, cb); jsoncons::msgpack::encode_msgpack(rv, mb); jsoncons::ubjson::encode_ubjson(rv, ub); jsoncons::bson::encode_bson(rv, bb);
        Bytes cbp; { jsoncons::cbor::cbor_options o; o.pack_strings(true); json arr(jsoncons::json_array_arg); for (int i = 0; i < 4; ++i) arr.push_back(LONG1); jsoncons::cbor::encode_cbor(arr, cbp, o); }
        add_op<json>("decode_cbor", [cb](Hold<json>& h) { KEEP(h, json, jsoncons::cbor::decode_cbor<json>(cb)); });
        add_op<json>("decode_cbor-stringref", [cbp](Hold<json>& h) { KEEP(h, json, jsoncons::cbor::decode_cbor<json>(cbp)); });
        add_op<json>("decode_cbor-typed-array", [](Hold<json>& h) { Bytes b = {0x82, 0xd8, 0x56}; b.push_back(0x58); b.push_back(64); for (int i = 0; i < 64; ++i) b.push_back(0); b.push_back(0x01); KEEP(h, json, jsoncons::cbor::decode_cbor<json>(b)); });
        add_op<json>("decode_msgpack", [mb](Hold<json>& h) { KEEP(h, json, jsoncons::msgpack::decode_msgpack<json>(mb)); });
        add_op<json>("decode_ubjson", [ub](Hold<json>& h) { KEEP(h, json, jsoncons::ubjson::decode_ubjson<json>(ub)); });
        add_op<json>("decode_bson", [bb](Hold<json>& h) { KEEP(h, json, jsoncons::bson::decode_bson<json>(bb)); });
        std::string csv = std::string("a,b,c\n1,\"") + LONG1 + "\",3\n4," + LONG2 + ",6\n";
        add_op<json>("decode_csv", [csv](Hold<json>& h) { jsoncons::csv::csv_options o; o.assume_header(true); KEEP(h, json, jsoncons::csv::decode_csv<json>(csv, o)); });
        add_op<Bytes>("encode_cbor", [rv](Hold<Bytes>& h) { KEEP(h, Bytes, Bytes()); jsoncons::cbor::encode_cbor(rv, h.get()); });
        add_op<Bytes>("encode_cbor-packed", [rv](Hold<Bytes>& h) { KEEP(h, Bytes, Bytes()); jsoncons::cbor::cbor_options o; o.pack_strings(true); jsoncons::cbor::encode_cbor(rv, h.get(), o); });
        add_op<Bytes>("encode_msgpack", [rv](Hold<Bytes>& h) { KEEP(h, Bytes, Bytes()); jsoncons::msgpack::encode_msgpack(rv, h.get()); });
        add_op<Bytes>("encode_bson", [rv](Hold<Bytes>& h) { KEEP(h, Bytes, Bytes()); jsoncons::bson::encode_bson(rv, h.get()); });
        { json tbl = json::parse(std::string("[{\"a\":1,\"b\":\"") + LONG1 + "\"},{\"a\":2,\"b\":\"x\"}]"); add_op<std::string>("encode_csv", [tbl](Hold<std::string>& h) { KEEP(h, std::string, std::string()); jsoncons::csv::encode_csv(tbl, h.get()); }); }
        add_op<std::string>("dump", [rv](Hold<std::string>& h) { KEEP(h, std::string, std::string()); rv.dump(h.get()); });
        add_op<std::string>("dump_pretty", [rv](Hold<std::string>& h) { KEEP(h, std::string, std::string()); rv.dump_pretty(h.get()); });
        add_op<int>("ostream<<", [rv](Hold<int>&) { std::ostringstream os; os << jsoncons::pretty_print(rv); });
    }
    // deep copy
    for (int ti = 0; ti < 3; ++ti) {
        std::string text = texts()[ti];
        Scenario s; s.name = "copy-construct#" + std::to_string(ti);
        s.make = [text] { Two* t = new Two; t->doc = json::parse(text); t->doc.dump(t->doc_text); return box(t); };
        s.run = [](void* c) { Two* t = (Two*)c; new (t->result.buf) json(t->doc); t->result.has = true; };
        s.check = [](void* c, bool) { Two* t = (Two*)c; std::string r = validate(t->doc, true); if (!r.empty()) return "source: " + r; std::string d; t->doc.dump(d); return d == t->doc_text ? std::string() : std::string("the source of the copy changed"); };
        s.destroy = [](void* c) { delete (Two*)c; };
        reg().list.push_back(s);
    }
    // copy assignment over an existing value of every heap kind
    for (auto& tg : targets()) for (int ti = 0; ti < 3; ++ti) {
        std::string text = texts()[ti]; auto mk = tg.second;
        Scenario s; s.name = "copy-assign#" + std::to_string(ti) + "-over-" + tg.first;
        s.make = [text, mk] { Two* t = new Two; t->doc = json::parse(text); t->c = mk(); t->doc.dump(t->doc_text); return box(t); };
        s.run = [](void* c) { Two* t = (Two*)c; t->c = t->doc; };
        s.check = [](void* c, bool threw) {
            Two* t = (Two*)c;
            std::string r = validate(t->c, true); if (!r.empty()) return "assignment target: " + r;
            r = validate(t->doc, true); if (!r.empty()) return "assignment source: " + r;
            std::string d; t->doc.dump(d); if (d != t->doc_text) return std::string("the source of the assignment changed");
            if (!threw) { std::string e; t->c.dump(e); if (e != t->doc_text) return std::string("assignment completed but the target differs from the source"); }
            return std::string();
        };
        s.destroy = [](void* c) { delete (Two*)c; };
        reg().list.push_back(s);
    }
    // the same for every (source kind, target kind) pair: each pair is its own branch of basic_json::copy_assignment
    for (auto& sk : targets()) for (auto& tg : targets()) {
        if (sk.first == "null") continue;
        auto mks = sk.second; auto mk = tg.second;
        for (int flavour = 0; flavour < 2; ++flavour) {     // 0: copy assignment, 1: assignment through the allocator-aware copy + move
            Scenario s; s.name = std::string(flavour ? "copy-move-assign-" : "copy-assign-") + sk.first + "-over-" + tg.first;
            s.make = [mks, mk] { Two* t = new Two; t->doc = mks(); t->c = mk(); t->doc.dump(t->doc_text); return box(t); };
            if (flavour == 0) s.run = [](void* c) { Two* t = (Two*)c; t->c = t->doc; };
            else s.run = [](void* c) { Two* t = (Two*)c; json tmp(t->doc); t->c = std::move(tmp); };
            s.check = [](void* c, bool threw) {
                Two* t = (Two*)c;
                std::string r = validate(t->c, true); if (!r.empty()) return "assignment target: " + r;
                r = validate(t->doc, true); if (!r.empty()) return "assignment source: " + r;
                std::string d; t->doc.dump(d); if (d != t->doc_text) return std::string("the source of the assignment changed");
                if (!threw) { std::string e; t->c.dump(e); if (e != t->doc_text) return std::string("assignment completed but the target differs from the source"); }
                return std::string();
            };
            s.destroy = [](void* c) { delete (Two*)c; };
            reg().list.push_back(s);
        }
    }
    // element insertion forcing reallocation
    {
        Scenario s; s.name = "array-push_back-realloc";
        s.make = [] { Two* t = new Two; t->c = json(jsoncons::json_array_arg); for (int i = 0; i < 4; ++i) t->c.push_back(LONG1); t->c.shrink_to_fit(); t->doc = json(LONG2); return box(t); };
        s.run = [](void* c) { Two* t = (Two*)c; t->c.push_back(t->doc); t->c.push_back(json(LONG1)); t->c.insert(t->c.array_range().begin(), json::parse("[1,[2]]")); t->c.emplace_back(LONG2); };
        s.check = [](void* c, bool threw) { Two* t = (Two*)c; std::string r = validate(t->c, true); if (!r.empty()) return "array: " + r; if (t->c.size() < 4) return std::string("elements present before the call were lost"); for (size_t i = 0; i < t->c.size(); ++i) if (t->c[i].is_string() && t->c[i].as_string_view().empty()) return std::string("an element was left moved-from"); (void)threw; return std::string(); };
        s.destroy = [](void* c) { delete (Two*)c; };
        reg().list.push_back(s);
    }
    for (int sorted = 0; sorted < 2; ++sorted) {
        Scenario s; s.name = std::string(sorted ? "json" : "ojson") + "-object-insert";
        struct Ctx { json j; ojson o; };
        s.make = [] { Ctx* t = new Ctx; t->j = json::parse(texts()[3]); t->o = ojson::parse(texts()[3]); t->j.shrink_to_fit(); t->o.shrink_to_fit(); return box(t); };
        if (sorted) s.run = [](void* c) { Ctx* t = (Ctx*)c; t->j.insert_or_assign("m", LONG1); t->j.try_emplace("a", LONG2); t->j["zz"] = json::parse("[1,2]"); t->j.insert_or_assign("z", LONG2); json src = json::parse(std::string("{\"n1\":\"") + LONG1 + "\",\"n2\":[1]}"); t->j.merge(src); t->j.merge_or_update(src); };
        else s.run = [](void* c) { Ctx* t = (Ctx*)c; t->o.insert_or_assign("m", LONG1); t->o.try_emplace("a", LONG2); t->o["zz"] = ojson::parse("[1,2]"); t->o.insert_or_assign("z", LONG2); ojson src = ojson::parse(std::string("{\"n1\":\"") + LONG1 + "\",\"n2\":[1]}"); t->o.merge(src); t->o.merge_or_update(src); };
        s.check = [sorted](void* c, bool) { Ctx* t = (Ctx*)c; std::string r = sorted ? validate(t->j, true) : validate(t->o, false); if (!r.empty()) return "object: " + r; size_t n = sorted ? t->j.size() : t->o.size(); if (n < 10) return std::string("members present before the call were lost"); return std::string(); };
        s.destroy = [](void* c) { delete (Ctx*)c; };
        reg().list.push_back(s);
    }
    {   // erase / resize / clear / move are not supposed to allocate; swap of heap values likewise: the window is empty but the run is still probed
        Scenario s; s.name = "resize-reserve";
        s.make = [] { Two* t = new Two; t->c = json::parse(texts()[1]); return box(t); };
        s.run = [](void* c) { Two* t = (Two*)c; t->c.reserve(100); t->c.resize(50); t->c.resize(2); t->c.shrink_to_fit(); };
        s.check = [](void* c, bool) { Two* t = (Two*)c; return validate(t->c, true); };
        s.destroy = [](void* c) { delete (Two*)c; };
        reg().list.push_back(s);
    }
    {   // stateful allocator: every block goes back to the resource it came from, with its size and alignment
        struct Ctx { TrackingResource* r1; TrackingResource* r2; };
        Scenario s; s.name = "pmr-parse-copy-insert";
        s.make = [] { Ctx* t = new Ctx; t->r1 = new TrackingResource(1); t->r2 = new TrackingResource(2); return box(t); };
        s.run = [](void* c) {
            Ctx* t = (Ctx*)c;
            using pjson = jsoncons::pmr::json;
            std::pmr::polymorphic_allocator<char> a1(t->r1), a2(t->r2);
            pjson j = pjson::parse(jsoncons::make_alloc_set(a1), texts()[0]);
            pjson k(j, a2);
            k.insert_or_assign("new", pjson(LONG1, jsoncons::semantic_tag::none, a2));
            pjson arr(jsoncons::json_array_arg, jsoncons::semantic_tag::none, a1); arr.push_back(pjson(LONG2, jsoncons::semantic_tag::none, a1)); arr.push_back(j);
            std::string s1; k.dump(s1);
        };
        s.check = [](void* c, bool) { Ctx* t = (Ctx*)c; if (t->r1->errors || t->r2->errors) return std::string("a block was returned to a different resource, or with a different size/alignment, than it was obtained with"); if (!t->r1->live.empty() || !t->r2->live.empty()) return std::string("blocks still outstanding at a memory resource after every object was destroyed"); return std::string(); };
        s.destroy = [](void* c) { Ctx* t = (Ctx*)c; delete t->r1; delete t->r2; delete t; };
        reg().list.push_back(s);
    }
}

int main(int argc, char** argv) { add_all(); return main_impl(argc, argv); }
