// C19 (extensions): allocation failure at every point of patching, querying and schema validation.
#include "c19_common.hpp"
#include <jsoncons_ext/jsonpatch/jsonpatch.hpp>
#include <jsoncons_ext/mergepatch/mergepatch.hpp>
#include <jsoncons_ext/jsonpointer/jsonpointer.hpp>
#include <jsoncons_ext/jsonpath/jsonpath.hpp>
#include <jsoncons_ext/jmespath/jmespath.hpp>
#include <jsoncons_ext/jsonschema/jsonschema.hpp>

VF_DEFINE_OPERATOR_NEW

using namespace c19;

template <class T> struct Hold { bool has = false; alignas(T) unsigned char buf[sizeof(T)]; T& get() { return *reinterpret_cast<T*>(buf); } ~Hold() { if (has) get().~T(); } };

struct PatchCtx { json target; json patch; std::string before; Hold<json> result; };

static std::string doc_text() {
    return std::string("{\"a\":{\"x\":\"") + LONG1 + "\",\"y\":[1,2,{\"z\":\"" + LONG2 + "\"}]},\"b\":[\"" + LONG1 + "\",[1,[2]]],\"c\":1}";
}

static void add_patch(const std::string& name, const std::string& patch_text, bool expect_success) {
    Scenario s; s.name = "apply_patch-" + name;
    s.make = [patch_text] { PatchCtx* c = new PatchCtx; c->target = json::parse(doc_text()); c->patch = json::parse(patch_text); c->target.dump(c->before); return (void*)c; };
    s.run = [](void* p) { PatchCtx* c = (PatchCtx*)p; std::error_code ec; jsoncons::jsonpatch::apply_patch(c->target, c->patch, ec); if (ec) throw std::runtime_error("patch-error:" + ec.message()); };
    s.check = [expect_success](void* p, bool threw) {
        PatchCtx* c = (PatchCtx*)p;
        std::string r = validate(c->target, true); if (!r.empty()) return "target: " + r;
        if (threw) { std::string now; c->target.dump(now); if (now != c->before) return std::string("after the failure the target differs from its state before the call: ") + now.substr(0, 200); }
        (void)expect_success;
        return std::string();
    };
    s.destroy = [](void* p) { delete (PatchCtx*)p; };
    // a failing patch reports through ec: that is an error outcome, not an escaping exception; wrap so the framework sees "no bad_alloc"
    auto inner = s.run;
    s.run = [inner](void* p) { try { inner(p); } catch (const std::runtime_error& e) { if (std::string(e.what()).compare(0, 12, "patch-error:") != 0) throw; PatchCtx* c = (PatchCtx*)p; std::string now; c->target.dump(now); if (now != c->before) throw std::logic_error("patch reported an error but left the target modified"); } };
    reg().list.push_back(s);
}

static void add_all() {
    add_patch("success", std::string("[{\"op\":\"add\",\"path\":\"/a/w\",\"value\":\"") + LONG2 + "\"},{\"op\":\"remove\",\"path\":\"/b/1\"},{\"op\":\"replace\",\"path\":\"/a/y/2\",\"value\":{\"n\":[1,2,3]}},"
              "{\"op\":\"move\",\"from\":\"/a/x\",\"path\":\"/d\"},{\"op\":\"copy\",\"from\":\"/a/y\",\"path\":\"/e\"},{\"op\":\"test\",\"path\":\"/c\",\"value\":1},{\"op\":\"add\",\"path\":\"/b/-\",\"value\":[[\"" + LONG1 + "\"]]}]", true);
    add_patch("failing-test-last", std::string("[{\"op\":\"add\",\"path\":\"/a/w\",\"value\":\"") + LONG2 + "\"},{\"op\":\"remove\",\"path\":\"/a/y\"},{\"op\":\"replace\",\"path\":\"/b\",\"value\":{\"n\":\"" + LONG1 + "\"}},"
              "{\"op\":\"move\",\"from\":\"/a/x\",\"path\":\"/d\"},{\"op\":\"copy\",\"from\":\"/b\",\"path\":\"/e\"},{\"op\":\"test\",\"path\":\"/c\",\"value\":2}]", false);
    add_patch("missing-path-last", "[{\"op\":\"remove\",\"path\":\"/b/0\"},{\"op\":\"add\",\"path\":\"/b/0\",\"value\":{\"q\":[1]}},{\"op\":\"remove\",\"path\":\"/nope/x\"}]", false);
    {
        Scenario s; s.name = "jsonpatch-from_diff";
        struct C { json a, b; Hold<json> r; };
        s.make = [] { C* c = new C; c->a = json::parse(doc_text()); c->b = json::parse(texts()[0]); return (void*)c; };
        s.run = [](void* p) { C* c = (C*)p; new (c->r.buf) json(jsoncons::jsonpatch::from_diff(c->a, c->b)); c->r.has = true; };
        s.check = [](void* p, bool) { C* c = (C*)p; std::string r = validate(c->a, true); if (!r.empty()) return r; return validate(c->b, true); };
        s.destroy = [](void* p) { delete (C*)p; };
        reg().list.push_back(s);
    }
    {
        Scenario s; s.name = "apply_merge_patch";
        struct C { json t, p; };
        s.make = [] { C* c = new C; c->t = json::parse(doc_text()); c->p = json::parse(std::string("{\"a\":{\"x\":null,\"n\":{\"m\":\"") + LONG2 + "\"}},\"b\":[\"" + LONG1 + "\"],\"new\":{\"k\":[1,2]}}"); return (void*)c; };
        s.run = [](void* p) { C* c = (C*)p; jsoncons::mergepatch::apply_merge_patch(c->t, c->p); };
        s.check = [](void* p, bool) { C* c = (C*)p; std::string r = validate(c->t, true); if (!r.empty()) return "target: " + r; return validate(c->p, true); };
        s.destroy = [](void* p) { delete (C*)p; };
        reg().list.push_back(s);
    }
    {
        Scenario s; s.name = "jsonpointer-add-replace-remove";
        struct C { json t; };
        s.make = [] { C* c = new C; c->t = json::parse(doc_text()); return (void*)c; };
        s.run = [](void* p) { C* c = (C*)p; std::error_code ec; jsoncons::jsonpointer::add(c->t, "/a/new", json(LONG1), ec); jsoncons::jsonpointer::add(c->t, "/b/0", json::parse("[[1]]"), ec); jsoncons::jsonpointer::replace(c->t, "/c", json(LONG2), ec); jsoncons::jsonpointer::remove(c->t, "/a/y", ec); auto f = jsoncons::jsonpointer::flatten(c->t); (void)f; };
        s.check = [](void* p, bool) { C* c = (C*)p; return validate(c->t, true); };
        s.destroy = [](void* p) { delete (C*)p; };
        reg().list.push_back(s);
    }
    {
        struct C { json doc; std::string before; Hold<json> r; };
        for (auto q : {"$..y[?(@.z)].z", "$.b[*]", "$..[?(@ == 1)]", "$.a.y[0:2]",
                       // many evaluation temporaries (the evaluator's store of them grows several times) and heap-backed literals
                       "$..[?(@ == 1 || @ == 2 || length(@) > 0 && length(@) < 9 || @ == 'a long string literal that needs the heap ........' || @ != 3 && @ != 4 && @ != 5)]",
                       "$.a.y[?(length(@.z) >= 0 && length(@) > 0 || keys(@)[0] == 'z' || tokenize('a,b,c,d,e,f,g,h', ',')[7] == 'h')]"}) {
            std::string expr = q;
            Scenario s; s.name = "json_query " + expr;
            s.make = [] { C* c = new C; c->doc = json::parse(doc_text()); c->doc.dump(c->before); return (void*)c; };
            s.run = [expr](void* p) { C* c = (C*)p; new (c->r.buf) json(jsoncons::jsonpath::json_query(c->doc, expr)); c->r.has = true; };
            s.check = [](void* p, bool) { C* c = (C*)p; std::string now; c->doc.dump(now); if (now != c->before) return std::string("the queried document changed"); return validate(c->doc, true); };
            s.destroy = [](void* p) { delete (C*)p; };
            reg().list.push_back(s);
        }
        {
            Scenario s; s.name = "json_replace";
            s.make = [] { C* c = new C; c->doc = json::parse(doc_text()); return (void*)c; };
            s.run = [](void* p) { C* c = (C*)p; jsoncons::jsonpath::json_replace(c->doc, "$..y[*]", json(LONG2)); };
            s.check = [](void* p, bool) { C* c = (C*)p; return validate(c->doc, true); };
            s.destroy = [](void* p) { delete (C*)p; };
            reg().list.push_back(s);
        }
        for (auto q : {"a.y[?z].z", "b[*] | [0]", "sort_by(a.y[?z], &z)[].z", "{k: keys(a), v: length(b)}",
                       // heap-backed literals (JSON literal, raw string) and many temporaries
                       "[`{\"p\":[1,2,3,4,5,6,7,8],\"q\":\"a long string literal that needs the heap ........\"}`, 'another long raw string literal, also heap allocated .........', a.y[?z == `1` || z == 'a long string literal that needs the heap ........'], keys(a), values(a), length(b), to_string(a), join(',', ['x','y'])]"}) {
            std::string expr = q;
            Scenario s; s.name = "jmespath::search " + expr;
            s.make = [] { C* c = new C; c->doc = json::parse(doc_text()); c->doc.dump(c->before); return (void*)c; };
            s.run = [expr](void* p) { C* c = (C*)p; new (c->r.buf) json(jsoncons::jmespath::search(c->doc, expr)); c->r.has = true; };
            s.check = [](void* p, bool) { C* c = (C*)p; std::string now; c->doc.dump(now); if (now != c->before) return std::string("the searched document changed"); return validate(c->doc, true); };
            s.destroy = [](void* p) { delete (C*)p; };
            reg().list.push_back(s);
        }
    }
    {
        struct C { json schema; json inst; };
        Scenario s; s.name = "make_json_schema+validate";
        s.make = [] { C* c = new C;
            c->schema = json::parse("{\"$schema\":\"https://json-schema.org/draft/2020-12/schema\",\"type\":\"object\",\"properties\":{\"a\":{\"type\":\"string\",\"pattern\":\"^a\"},\"b\":{\"$ref\":\"#/$defs/arr\"}},\"$defs\":{\"arr\":{\"type\":\"array\",\"items\":{\"type\":\"integer\",\"minimum\":1}}},\"required\":[\"a\"],\"unevaluatedProperties\":false}");
            c->inst = json::parse("{\"a\":\"abc\",\"b\":[1,2,0],\"c\":true}"); return (void*)c; };
        s.run = [](void* p) { C* c = (C*)p; auto compiled = jsoncons::jsonschema::make_json_schema(c->schema); bool v = compiled.is_valid(c->inst); (void)v; size_t n = 0; compiled.validate(c->inst, [&](const jsoncons::jsonschema::validation_message&) { ++n; return jsoncons::jsonschema::walk_result::advance; }); (void)n; };
        s.check = [](void* p, bool) { C* c = (C*)p; std::string r = validate(c->schema, true); if (!r.empty()) return r; return validate(c->inst, true); };
        s.destroy = [](void* p) { delete (C*)p; };
        reg().list.push_back(s);
    }
}

int main(int argc, char** argv) { add_all(); return main_impl(argc, argv); }
