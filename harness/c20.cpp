// C20 — immutable artifacts are safe to share across threads.
// Compiled with -fsanitize=thread and linked against engine/sched/vfsched.cpp instead of libtsan:
// every schedule of T threads with <= k preemptions (switch points = synchronisation operations)
// is executed in a forked child; in each execution (a) every thread's observation must equal the
// sequential one and (b) the happens-before race detector must stay silent on memory that existed
// before the concurrent phase.
#include "common.hpp"
#include "sched/vfsched.h"
#include <sys/mman.h>
#include <sys/wait.h>

using namespace vf;
#include "c20_bodies.hpp"
static vf_trace* g_tr = nullptr;
static int g_scenario = 0;

static void body(int tid) {
    std::string o;
    if (g_scenario < NSCEN) o = observe(g_scenario);
    else { int a = (g_scenario - NSCEN + tid) % NSCEN; o = std::string(SCEN_NAME[a]) + ":" + observe(a); }   // mixed: each thread a different artifact
    size_t n = std::min(o.size(), sizeof(g_tr->results[0]) - 1);
    memcpy(g_tr->results[tid], o.data(), n); g_tr->results[tid][n] = 0;
}

// ---- one execution under a schedule ----------------------------------------------------------------------
static vf_trace* new_trace() { return (vf_trace*)mmap(nullptr, sizeof(vf_trace), PROT_READ | PROT_WRITE, MAP_SHARED | MAP_ANONYMOUS, -1, 0); }

static int run_schedule(vf_trace* tr, int T, const std::vector<int>& prefix) {
    memset(tr, 0, sizeof(vf_trace));
    fflush(stdout);
    pid_t pid = fork();
    if (pid == 0) {
        alarm(60);
        g_tr = tr;
        vf_set_trace(tr, prefix.data(), (int)prefix.size());
        vf_run_threads(T, body);
        tr->done = 1;
        _exit(0);
    }
    int st = 0; waitpid(pid, &st, 0);
    if (!tr->done) return WIFSIGNALED(st) ? 100 + WTERMSIG(st) : 1;
    return 0;
}

static std::string sched_str(const vf_trace* tr, size_t upto) { std::string s; for (size_t i = 0; i < upto && i < (size_t)tr->npoints && i < VF_MAX_POINTS; ++i) { if (i) s += '.'; s += std::to_string(tr->points[i].chosen); } return s; }
static std::string vec_str(const std::vector<int>& v) { std::string s; for (size_t i = 0; i < v.size(); ++i) { if (i) s += '.'; s += std::to_string(v[i]); } return s; }

static long long g_sched = 0, g_points_max = 0, g_sync_max = 0, g_judged = 0, g_distinct = 0;
static std::set<std::string> g_interleavings;

static bool check_execution(const vf_trace* tr, int rc, int T, const std::vector<int>& prefix, const std::string& expected, int scenario) {
    std::string sig = std::string("SCH|") + (scenario < NSCEN ? SCEN_NAME[scenario] : ("mixed" + std::to_string(scenario - NSCEN)).c_str()) + "|" + std::to_string(T) + "|" + vec_str(prefix);
    std::string what = std::string(scenario < NSCEN ? SCEN_NAME[scenario] : "mixed") + ", " + std::to_string(T) + " threads, schedule [" + vec_str(prefix) + "] :: ";
    bool ok = true;
    if (rc != 0) { out().viol(sig, what + "the execution did not complete (exit/signal " + std::to_string(rc) + (tr->deadlock ? ", deadlock: no enabled thread" : "") + ")"); return false; }
    if (tr->diverged) { out().error("schedule prefix diverged on replay: " + sig); return false; }
    if (tr->nraces > 0) {
        const vf_race& r = tr->races[0];
        std::string where = r.region == 1 ? "heap block allocated before the threads started (offset " + std::to_string(r.offset) + " of " + std::to_string(r.block_size) + " bytes)" : "static storage (offset " + std::to_string(r.offset) + ")";
        char b[600]; snprintf(b, sizeof b, "data race: thread %d %s vs thread %d %s with no happens-before edge, on a %s; pcs %#lx / %#lx (%ld racy byte accesses in this execution)",
                              r.tid, r.is_write ? "write" : "read", r.other, r.other_write ? "write" : "read", where.c_str(), (unsigned long)r.pc, (unsigned long)r.other_pc, tr->nraces);
        out().viol(sig, what + b); ok = false;
    }
    if (tr->freed_shared) { out().viol(sig + "|free", what + "a heap block that existed before the threads started was freed during the read-only phase"); ok = false; }
    for (int t = 1; t <= T; ++t) {
        std::string exp = expected;
        if (scenario >= NSCEN) continue;   // mixed scenarios: compared below per artifact
        if (exp != tr->results[t]) { out().viol(sig + "|result" + std::to_string(t), what + "thread " + std::to_string(t) + " observed '" + std::string(tr->results[t]).substr(0, 300) + "' but single-threaded it is '" + exp.substr(0, 300) + "'"); ok = false; break; }
    }
    return ok;
}

static void explore(int scenario, int T, int bound, int slice, int nslices, std::vector<std::string>& expected_by_scen) {
    g_scenario = scenario;
    vf_trace* tr = new_trace();
    // sequential observation (one thread, own process)
    std::string expected;
    if (scenario < NSCEN) {
        if (expected_by_scen[scenario].empty()) { int rc = run_schedule(tr, 1, {}); if (rc != 0) { out().error("sequential run failed"); return; } expected_by_scen[scenario] = tr->results[1]; }
        expected = expected_by_scen[scenario];
    }
    struct Item { std::vector<int> prefix; };
    std::vector<Item> stack; stack.push_back({{}});
    bool root = true;
    while (!stack.empty()) {
        Item it = std::move(stack.back()); stack.pop_back();
        int rc = run_schedule(tr, T, it.prefix);
        bool counted = !(root && slice != 0);
        if (counted) {
            ++g_sched;
            g_points_max = std::max<long long>(g_points_max, tr->npoints); g_sync_max = std::max<long long>(g_sync_max, tr->sync_ops); g_judged += tr->accesses_judged;
            check_execution(tr, rc, T, it.prefix, expected, scenario);
            if (scenario >= NSCEN && rc == 0) {
                // mixed: each thread's observation must equal the sequential observation of its artifact
                for (int t = 1; t <= T; ++t) { int a = (scenario - NSCEN + t) % NSCEN; std::string want = std::string(SCEN_NAME[a]) + ":" + expected_by_scen[a]; if (!expected_by_scen[a].empty() && want != tr->results[t]) out().viol(std::string("SCH|mixed") + std::to_string(scenario - NSCEN) + "|" + std::to_string(T) + "|" + vec_str(it.prefix) + "|result", "mixed scenario: thread " + std::to_string(t) + " observed a different result than single-threaded"); }
            }
            g_interleavings.insert(sched_str(tr, tr->npoints));
            if (g_sched % 997 == 1) out().sample(std::string(scenario < NSCEN ? SCEN_NAME[scenario] : "mixed") + " T=" + std::to_string(T) + " schedule " + (it.prefix.empty() ? "(default)" : vec_str(it.prefix)) + " -> " + std::to_string(tr->npoints) + " scheduling points, " + std::to_string(tr->sync_ops) + " sync ops, result '" + std::string(tr->results[1]).substr(0, 80) + "'");
        }
        if (rc != 0 || tr->npoints > VF_MAX_POINTS) { root = false; continue; }
        // children: deviate at every later point, within the preemption bound
        int used = 0;
        std::vector<int> choices; choices.reserve(tr->npoints);
        long child_idx = 0;
        for (long i = 0; i < tr->npoints; ++i) {
            const vf_point& p = tr->points[i];
            if (i >= (long)it.prefix.size()) {
                for (int alt = 1; alt < p.n_enabled; ++alt) {
                    int cost = used + (p.cur_enabled ? 1 : 0);
                    if (cost > bound) continue;
                    bool mine = !root || (child_idx % nslices) == slice;
                    ++child_idx;
                    if (!mine) continue;
                    Item ch; ch.prefix = choices; ch.prefix.push_back(alt); stack.push_back(std::move(ch));
                }
            }
            if (p.cur_enabled && p.chosen != 0) ++used;
            choices.push_back(p.chosen);
        }
        root = false;
    }
    munmap(tr, sizeof(vf_trace));
}

int main(int argc, char** argv) {
    Args a(argc, argv);
    build_artifacts();
    std::vector<std::string> expected(NSCEN);
    if (a.replay) {
        // SCH|<scenario>|<T>|<choices>
        auto p = split(a.sig, '|');
        if (p.size() >= 4) {
            int sc = -1; for (int i = 0; i < NSCEN; ++i) if (p[1] == SCEN_NAME[i]) sc = i;
            if (p[1].compare(0, 5, "mixed") == 0) sc = NSCEN + atoi(p[1].c_str() + 5);
            int T = atoi(p[2].c_str()); std::vector<int> prefix; if (!p[3].empty()) for (auto& s : split(p[3], '.')) prefix.push_back(atoi(s.c_str()));
            if (sc >= 0) {
                vf_trace* tr = new_trace(); g_scenario = sc;
                if (sc >= NSCEN) for (int i = 0; i < NSCEN; ++i) { g_scenario = i; run_schedule(tr, 1, {}); expected[i] = tr->results[1]; }
                else { run_schedule(tr, 1, {}); expected[sc] = tr->results[1]; }
                g_scenario = sc;
                int rc = run_schedule(tr, T, prefix);
                check_execution(tr, rc, T, prefix, sc < NSCEN ? expected[sc] : "", sc);
            }
        }
        out().flush(); fflush(stdout); _exit(0);
    }
    int T = (int)a.geti("T", 2), k = (int)a.geti("k", 2);
    std::string which = a.get("scenario", "all");
    for (int sc = 0; sc < NSCEN + (a.geti("mixed", 1) ? 2 : 0); ++sc) {
        if (which != "all" && which != (sc < NSCEN ? SCEN_NAME[sc] : "mixed")) continue;
        if (sc >= NSCEN) for (int i = 0; i < NSCEN; ++i) if (expected[i].empty()) { vf_trace* tr = new_trace(); g_scenario = i; run_schedule(tr, 1, {}); expected[i] = tr->results[1]; munmap(tr, sizeof(vf_trace)); }
        explore(sc, T, k, a.slice, a.nslices, expected);
        out().cls(std::string("scenario:") + (sc < NSCEN ? SCEN_NAME[sc] : "mixed"));
    }
    out().count("evaluations", g_sched);
    out().count("states", g_sched);
    out().count("transitions", g_sched);        // one forked execution per schedule
    out().count("traces_validated", g_sched);
    out().count("nontrivial", (long long)g_interleavings.size());
    out().count("judged_accesses", g_judged);
    out().gauge("scheduling_points_max", g_points_max);
    out().gauge("sync_ops_max", g_sync_max);
    out().flush();
    fflush(stdout);
    _exit(0);   // the shared artifacts are deliberately never destroyed
}
