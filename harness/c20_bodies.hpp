// Shared by c20.cpp (systematic schedules under the stub runtime) and c20_free.cpp (free-running, real ThreadSanitizer):
// the immutable artifacts and the read-only operations performed on them by every thread.
#pragma once
#include <jsoncons/json.hpp>
#include <jsoncons_ext/jsonpath/jsonpath.hpp>
#include <jsoncons_ext/jmespath/jmespath.hpp>
#include <jsoncons_ext/jsonschema/jsonschema.hpp>
#include <jsoncons_ext/jsonpointer/jsonpointer.hpp>
#include <jsoncons_ext/cbor/cbor.hpp>
using jsoncons::json; using jsoncons::ojson;

// ---- shared artifacts (built single-threaded before the phase) -----------------------------------
struct Artifacts {
    json doc; ojson odoc; json doc2;
    jsoncons::jsonpath::jsonpath_expression<json>* jp = nullptr;
    jsoncons::jmespath::jmespath_expression<json>* jm = nullptr;
    jsoncons::jsonschema::json_schema<json>* schema = nullptr;
    jsoncons::jsonschema::json_schema<json>* schema7 = nullptr;
};
static Artifacts* A = nullptr;

static void build_artifacts() {
    A = new Artifacts;
    const char* text = R"({"a":[{"k":"abc","n":1,"t":["x","y"]},{"k":"xbc","n":2,"t":[]},{"k":"abd","n":3,"t":["z"]}],"b":"xyz","c":{"d":{"e":[1,2.5,"long string value that is heap allocated ....."]}},"n":null})";
    A->doc = json::parse(text); A->odoc = ojson::parse(text); A->doc2 = json::parse(text);
    A->jp = new jsoncons::jsonpath::jsonpath_expression<json>(jsoncons::jsonpath::make_expression<json>("$.a[?(@.n > 1 && tokenize(@.k,'b')[0] != 'q' && length(@.t) >= 0 && @.k =~ /.*b.*/)].k"));
    A->jm = new jsoncons::jmespath::jmespath_expression<json>(jsoncons::jmespath::make_expression<json>("sort_by(a[?n > `0`], &k)[*].{key: k, len: length(t)} | [?len >= `0`].key"));
    json s = json::parse(R"({"$schema":"https://json-schema.org/draft/2020-12/schema","type":"object","properties":{"a":{"type":"array","items":{"$ref":"#/$defs/e"},"minItems":1},"b":{"type":"string","pattern":"^x","maxLength":10},"c":{"type":"object"},"n":{"type":["null","integer"]}},"$defs":{"e":{"type":"object","properties":{"k":{"type":"string","pattern":"b"},"n":{"type":"integer","minimum":1},"t":{"type":"array","uniqueItems":true}},"required":["k"],"additionalProperties":false}},"required":["a"],"unevaluatedProperties":false})");
    A->schema = new jsoncons::jsonschema::json_schema<json>(jsoncons::jsonschema::make_json_schema(s));
    json s7 = json::parse(R"({"$schema":"http://json-schema.org/draft-07/schema#","type":"object","properties":{"b":{"type":"string","format":"date"},"a":{"type":"array","contains":{"type":"object"}}},"dependencies":{"a":["b"]},"if":{"required":["zz"]},"then":{"required":["yy"]},"else":{"required":["a"]}})");
    A->schema7 = new jsoncons::jsonschema::json_schema<json>(jsoncons::jsonschema::make_json_schema(s7));
}

// ---- thread bodies: read-only operations on the shared artifacts --------------------------------------
static std::string observe(int scenario) {
    std::string o;
    switch (scenario) {
        case 0: {   // compiled JSON Schema: is_valid + reporter
            bool v = A->schema->is_valid(A->doc); size_t n = 0;
            A->schema->validate(A->doc, [&](const jsoncons::jsonschema::validation_message& m) { ++n; o += m.keyword(); o += ';'; return jsoncons::jsonschema::walk_result::advance; });
            bool v7 = A->schema7->is_valid(A->doc);
            o += "valid=" + std::to_string(v) + " msgs=" + std::to_string(n) + " v7=" + std::to_string(v7);
            break;
        }
        case 1: {   // compiled JSONPath expression (filter + functions + regex)
            json r = A->jp->evaluate(A->doc); json p = A->jp->evaluate(A->doc, jsoncons::jsonpath::result_options::path);
            r.dump(o); o += " "; p.dump(o);
            break;
        }
        case 2: {   // compiled JMESPath expression (projection + sort_by + multiselect)
            json r = A->jm->evaluate(A->doc); r.dump(o);
            break;
        }
        case 3: {   // a json / ojson value that is not being modified
            const json& d = A->doc;
            o += d.at("b").as<std::string>(); o += d["c"]["d"]["e"][2].as_string_view().substr(0, 4);
            size_t cnt = 0; for (const auto& kv : d.object_range()) { cnt += kv.key().size(); if (kv.value().is_array()) for (const auto& e : kv.value().array_range()) cnt += e.size(); }
            o += " cnt=" + std::to_string(cnt);
            o += " eq=" + std::to_string(d == A->doc2) + " lt=" + std::to_string(d < A->doc2) + " cmp=" + std::to_string(A->doc2.compare(d));
            json copy(d); o += " copy=" + std::to_string(copy == d);
            std::string s; d.dump(s); o += " len=" + std::to_string(s.size());
            std::string s2; A->odoc.dump_pretty(s2); o += " olen=" + std::to_string(s2.size());
            o += " contains=" + std::to_string(d.contains("a")) + std::to_string(d.contains("zz")) + " find=" + std::to_string(d.find("c") != d.object_range().end());
            std::vector<uint8_t> cb; jsoncons::cbor::encode_cbor(d, cb); o += " cbor=" + std::to_string(cb.size());
            o += " ptr=" + jsoncons::jsonpointer::get(d, "/a/1/k").as<std::string>();
            break;
        }
        case 4: {   // one-shot query entry points on a shared document (compile + evaluate per call)
            json r = jsoncons::jsonpath::json_query(A->doc, "$..k"); r.dump(o);
            json m = jsoncons::jmespath::search(A->doc, "a[*].n | max(@)"); o += " "; m.dump(o);
            break;
        }
        default: break;
    }
    return o;
}
static const int NSCEN = 5;
static const char* SCEN_NAME[NSCEN] = {"schema-validate", "jsonpath-evaluate", "jmespath-evaluate", "json-value-readers", "one-shot-queries"};

