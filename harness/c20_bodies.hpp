// Shared by c20.cpp (systematic schedules under the stub runtime) and c20_free.cpp (free-running, real ThreadSanitizer):
// the immutable artifacts and the read-only operations performed on them by every thread.
#pragma once
#include <jsoncons/json.hpp>
#include <jsoncons_ext/jsonpath/jsonpath.hpp>
#include <jsoncons_ext/jmespath/jmespath.hpp>
#include <jsoncons_ext/jsonschema/jsonschema.hpp>
#include <jsoncons_ext/jsonpointer/jsonpointer.hpp>
#include <jsoncons_ext/cbor/cbor.hpp>
using jsoncons::json; using jsoncons::ojson;

// ---- shared artifacts (built single-threaded before the phase) -----------------------------------
struct Artifacts {
    json doc; ojson odoc; json doc2;
    jsoncons::jsonpath::jsonpath_expression<json>* jp = nullptr;
    jsoncons::jmespath::jmespath_expression<json>* jm = nullptr;
    jsoncons::jsonschema::json_schema<json>* schema = nullptr;
    jsoncons::jsonschema::json_schema<json>* schema7 = nullptr;
    jsoncons::jsonschema::json_schema<json>* schema_wide7 = nullptr;     // every assertion keyword of draft-07 incl. content* and formats
    jsoncons::jsonschema::json_schema<json>* schema_wide20 = nullptr;    // the 2019-09/2020-12 keywords
    json wide;                                                            // an instance that reaches every one of them
    jsoncons::jsonpath::jsonpath_expression<json>* jp2 = nullptr;        // every JSONPath function, patterns taken from the document
    jsoncons::jmespath::jmespath_expression<json>* jm2 = nullptr;        // every JMESPath function
    json numbers;                                                         // doubles on every formatting path
};
static Artifacts* A = nullptr;

static void build_artifacts() {
    A = new Artifacts;
    const char* text = R"({"a":[{"k":"abc","n":1,"t":["x","y"]},{"k":"xbc","n":2,"t":[]},{"k":"abd","n":3,"t":["z"]}],"b":"xyz","c":{"d":{"e":[1,2.5,"long string value that is heap allocated ....."]}},"n":null,"seps":["b","c"],"nums":[3,1.5,2]})";
    A->doc = json::parse(text); A->odoc = ojson::parse(text); A->doc2 = json::parse(text);
    A->jp = new jsoncons::jsonpath::jsonpath_expression<json>(jsoncons::jsonpath::make_expression<json>("$.a[?(@.n > 1 && tokenize(@.k,'b')[0] != 'q' && length(@.t) >= 0 && @.k =~ /.*b.*/)].k"));
    A->jm = new jsoncons::jmespath::jmespath_expression<json>(jsoncons::jmespath::make_expression<json>("sort_by(a[?n > `0`], &k)[*].{key: k, len: length(t)} | [?len >= `0`].key"));
    json s = json::parse(R"({"$schema":"https://json-schema.org/draft/2020-12/schema","type":"object","properties":{"a":{"type":"array","items":{"$ref":"#/$defs/e"},"minItems":1},"b":{"type":"string","pattern":"^x","maxLength":10},"c":{"type":"object"},"n":{"type":["null","integer"]},"seps":{"type":"array"},"nums":{"type":"array","items":{"type":"number"}}},"$defs":{"e":{"type":"object","properties":{"k":{"type":"string","pattern":"b"},"n":{"type":"integer","minimum":1},"t":{"type":"array","uniqueItems":true}},"required":["k"],"additionalProperties":false}},"required":["a"],"unevaluatedProperties":false})");
    A->schema = new jsoncons::jsonschema::json_schema<json>(jsoncons::jsonschema::make_json_schema(s));
    json s7 = json::parse(R"({"$schema":"http://json-schema.org/draft-07/schema#","type":"object","properties":{"b":{"type":"string","format":"date"},"a":{"type":"array","contains":{"type":"object"}}},"dependencies":{"a":["b"]},"if":{"required":["zz"]},"then":{"required":["yy"]},"else":{"required":["a"]}})");
    A->schema7 = new jsoncons::jsonschema::json_schema<json>(jsoncons::jsonschema::make_json_schema(s7));
    json w7 = json::parse(R"({"$schema":"http://json-schema.org/draft-07/schema#","type":"object","definitions":{"pos":{"type":"integer","minimum":1,"exclusiveMaximum":1000,"multipleOf":1}},
      "properties":{"payload":{"type":"string","contentMediaType":"application/json"},"b64":{"type":"string","contentEncoding":"base64","contentMediaType":"application/json"},
        "date":{"format":"date"},"time":{"format":"time"},"dt":{"format":"date-time"},"email":{"format":"email"},"host":{"format":"hostname"},"ip4":{"format":"ipv4"},"ip6":{"format":"ipv6"},"re":{"format":"regex"},"ptr":{"format":"json-pointer"},
        "uri":{"format":"uri"},"name":{"type":"string","minLength":1,"maxLength":20,"pattern":"^[a-z]+$"},"n":{"$ref":"#/definitions/pos"},"x":{"type":"number","maximum":100.5,"exclusiveMinimum":-1},
        "list":{"type":"array","items":[{"type":"integer"},{"type":"string"}],"additionalItems":{"type":"boolean"},"minItems":1,"maxItems":5,"uniqueItems":true,"contains":{"const":true}},
        "obj":{"type":"object","patternProperties":{"^k[0-9]$":{"type":"integer"}},"additionalProperties":{"type":"string"},"propertyNames":{"maxLength":3},"minProperties":1,"maxProperties":4,"dependencies":{"k1":["k2"],"k2":{"required":["k1"]}}},
        "e":{"enum":[1,"two",[3],{"four":4},null]},"c":{"const":{"a":[1,2]}}},
      "required":["payload","name"],"allOf":[{"type":"object"}],"anyOf":[{"required":["nope"]},{"required":["name"]}],"oneOf":[{"required":["name"]},{"required":["nope"]}],"not":{"required":["never"]},
      "if":{"properties":{"n":{"const":7}}},"then":{"required":["x"]},"else":{"required":["never"]}})");
    A->schema_wide7 = new jsoncons::jsonschema::json_schema<json>(jsoncons::jsonschema::make_json_schema(w7));
    json w20 = json::parse(R"({"$schema":"https://json-schema.org/draft/2020-12/schema","$id":"http://x/root","$defs":{"node":{"$dynamicAnchor":"node","type":"object","properties":{"kids":{"type":"array","items":{"$dynamicRef":"#node"}}}},"s":{"$anchor":"str","type":"string"}},
      "type":"object","properties":{"tree":{"$ref":"#/$defs/node"},"name":{"$ref":"#str"},"list":{"prefixItems":[{"type":"integer"}],"items":{"type":["string","boolean"]},"contains":{"type":"boolean"},"minContains":1,"maxContains":2,"unevaluatedItems":false},
        "obj":{"dependentRequired":{"k1":["k2"]},"dependentSchemas":{"k2":{"required":["k1"]}},"properties":{"k1":true},"unevaluatedProperties":{"type":"integer"}}},
      "patternProperties":{"^(payload|b64|date|time|dt|email|host|ip4|ip6|re|ptr|uri|n|x|e|c)$":true},"unevaluatedProperties":false})");
    A->schema_wide20 = new jsoncons::jsonschema::json_schema<json>(jsoncons::jsonschema::make_json_schema(w20));
    A->wide = json::parse(R"({"payload":"{\"x\":[1,2,{\"y\":null}]}","b64":"eyJ4IjoxfQ==","date":"2020-02-29","time":"12:00:00Z","dt":"2020-02-29T12:00:00Z","email":"a@b.cd","host":"www.example.com","ip4":"1.2.3.4","ip6":"::1","re":"^a(b|c)*$","ptr":"/a/0",
      "uri":"http://a/b?c#d","name":"abc","n":7,"x":2.5,"list":[1,"two",true],"obj":{"k1":1,"k2":2,"zz":"s"},"e":{"four":4},"c":{"a":[1,2]},"tree":{"kids":[{"kids":[]},{"kids":[{"kids":[]}]}]}})");
    A->jp2 = new jsoncons::jsonpath::jsonpath_expression<json>(jsoncons::jsonpath::make_expression<json>(
        "$.a[?(tokenize(@.k, $.seps[0])[0] != 'q' || tokenize(@.k, $.seps[1])[0] == 'q' || abs(@.n) > 100 || ceil(@.n) == floor(@.n) && contains(@.k, 'b') && ends_with(@.k, 'c') || starts_with(@.k, 'ab') && length(keys(@)) == 3 && to_number('1') == 1 && avg($.nums) > 0 && sum($.nums) > 0 && prod($.nums) > 0 && min($.nums) < max($.nums) && @.k =~ /^[ax]b.$/i)].k"));
    A->jm2 = new jsoncons::jmespath::jmespath_expression<json>(jsoncons::jmespath::make_expression<json>(
        "{ab: abs(`-1`), av: avg(nums), ce: ceil(`1.2`), co: contains(b, 'y'), en: ends_with(b, 'z'), fl: floor(`1.8`), jo: join('-', a[*].k), ke: keys(c), le: length(a), ma: map(&n, a), mx: max(nums), mb: max_by(a, &n).k, me: merge(c, {z: `1`}), mi: min(nums), mn: min_by(a, &n).k, nn: not_null(n, b), re: reverse(nums), so: sort(nums), sb: sort_by(a, &k)[0].k, st: starts_with(b, 'x'), su: sum(nums), ta: to_array(b), ts: to_string(c), tn: to_number('2.5'), ty: type(a), va: values(c.d)}"));
    A->numbers = json::parse(R"([13.306752873611, 1e23, -1e23, 7.2905070478438485e+34, 5e-324, 1.7976931348623157e308, 0.1, 100.0, 123456789.125, -0.0, 1e-7, 2.5, 18446744073709551616, 1.5e400])");
}

// ---- thread bodies: read-only operations on the shared artifacts --------------------------------------
static std::string observe(int scenario) {
    std::string o;
    switch (scenario) {
        case 0: {   // compiled JSON Schema: is_valid + reporter
            bool v = A->schema->is_valid(A->doc); size_t n = 0;
            A->schema->validate(A->doc, [&](const jsoncons::jsonschema::validation_message& m) { ++n; o += m.keyword(); o += ';'; return jsoncons::jsonschema::walk_result::advance; });
            bool v7 = A->schema7->is_valid(A->doc);
            o += "valid=" + std::to_string(v) + " msgs=" + std::to_string(n) + " v7=" + std::to_string(v7);
            for (auto* sc : {A->schema_wide7, A->schema_wide20}) for (const json* inst : {&A->wide, &A->doc}) {
                size_t m = 0; std::string kws;
                sc->validate(*inst, [&](const jsoncons::jsonschema::validation_message& msg) { ++m; kws += msg.keyword(); kws += ','; return jsoncons::jsonschema::walk_result::advance; });
                o += " |" + std::to_string(sc->is_valid(*inst)) + ":" + std::to_string(m) + ":" + kws;
            }
            break;
        }
        case 1: {   // compiled JSONPath expression (filter + functions + regex)
            json r = A->jp->evaluate(A->doc); json p = A->jp->evaluate(A->doc, jsoncons::jsonpath::result_options::path);
            r.dump(o); o += " "; p.dump(o);
            json r2 = A->jp2->evaluate(A->doc); o += " "; r2.dump(o);
            break;
        }
        case 2: {   // compiled JMESPath expression (projection + sort_by + multiselect)
            json r = A->jm->evaluate(A->doc); r.dump(o);
            json r2 = A->jm2->evaluate(A->doc); o += " "; r2.dump(o);
            break;
        }
        case 3: {   // a json / ojson value that is not being modified
            const json& d = A->doc;
            o += d.at("b").as<std::string>(); o += d["c"]["d"]["e"][2].as_string_view().substr(0, 4);
            size_t cnt = 0; for (const auto& kv : d.object_range()) { cnt += kv.key().size(); if (kv.value().is_array()) for (const auto& e : kv.value().array_range()) cnt += e.size(); }
            o += " cnt=" + std::to_string(cnt);
            o += " eq=" + std::to_string(d == A->doc2) + " lt=" + std::to_string(d < A->doc2) + " cmp=" + std::to_string(A->doc2.compare(d));
            json copy(d); o += " copy=" + std::to_string(copy == d);
            std::string s; d.dump(s); o += " len=" + std::to_string(s.size());
            std::string s2; A->odoc.dump_pretty(s2); o += " olen=" + std::to_string(s2.size());
            o += " contains=" + std::to_string(d.contains("a")) + std::to_string(d.contains("zz")) + " find=" + std::to_string(d.find("c") != d.object_range().end());
            std::vector<uint8_t> cb; jsoncons::cbor::encode_cbor(d, cb); o += " cbor=" + std::to_string(cb.size());
            o += " ptr=" + jsoncons::jsonpointer::get(d, "/a/1/k").as<std::string>();
            // every double-formatting path: shortest digits, its fallback, fixed / scientific / general with a precision
            { std::string t; A->numbers.dump(t); o += " num=" + t; }
            for (auto ff : {jsoncons::float_chars_format::general, jsoncons::float_chars_format::fixed, jsoncons::float_chars_format::scientific}) for (int prec : {0, 9}) {
                jsoncons::json_options jo; jo.float_format(ff); if (prec) jo.precision((int8_t)prec); std::string t; A->numbers.dump(t, jo); o += " " + std::to_string(t.size()) + t.substr(0, 40); }
            { jsoncons::json_options jo; jo.bignum_format(jsoncons::bignum_format_kind::base64); jo.escape_all_non_ascii(true); jo.spaces_around_comma(jsoncons::spaces_option::space_before_and_after); std::string t; A->numbers.dump_pretty(t, jo); o += " pl=" + std::to_string(t.size()); }
            o += " dbl=" + std::to_string(A->numbers[0].as<double>()) + " str=" + A->numbers[12].as<std::string>() + " " + A->numbers[1].as<std::string>();
            break;
        }
        case 4: {   // one-shot query entry points on a shared document (compile + evaluate per call)
            json r = jsoncons::jsonpath::json_query(A->doc, "$..k"); r.dump(o);
            json m = jsoncons::jmespath::search(A->doc, "a[*].n | max(@)"); o += " "; m.dump(o);
            break;
        }
        default: break;
    }
    return o;
}
static const int NSCEN = 5;
static const char* SCEN_NAME[NSCEN] = {"schema-validate", "jsonpath-evaluate", "jmespath-evaluate", "json-value-readers", "one-shot-queries"};

