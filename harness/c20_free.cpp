// C20, free-running cross-check: the same thread bodies under the real ThreadSanitizer runtime with 2..16 std::threads.
// Supporting evidence only (the deciding step is the systematic exploration in c20.cpp): a serialising scheduler could hide
// what hardware reordering shows, and libstdc++ internals outside the instrumented code are only visible to TSan's interceptors.
#include "common.hpp"
#include "c20_bodies.hpp"
#include <thread>
#include <atomic>

int main(int argc, char** argv) {
    vf::Args a(argc, argv);
    build_artifacts();
    int rounds = (int)a.geti("rounds", 3);
    long long evals = 0, mismatches = 0;
    for (int sc = 0; sc < NSCEN; ++sc) {
        std::string expected = observe(sc);
        for (int T : {2, 3, 4, 8, 16}) for (int r = 0; r < rounds; ++r) {
            std::vector<std::string> res(T);
            std::atomic<int> go{0};
            std::vector<std::thread> th;
            for (int t = 0; t < T; ++t) th.emplace_back([&, t] { while (!go.load()) {} res[t] = observe(sc); });
            go.store(1);
            for (auto& x : th) x.join();
            ++evals;
            for (int t = 0; t < T; ++t) if (res[t] != expected) { ++mismatches; vf::out().viol(std::string("FREE|") + SCEN_NAME[sc] + "|" + std::to_string(T), std::string(SCEN_NAME[sc]) + " with " + std::to_string(T) + " free-running threads: a thread observed '" + res[t].substr(0, 200) + "' but single-threaded it is '" + expected.substr(0, 200) + "'"); break; }
        }
        vf::out().cls(std::string("free:") + SCEN_NAME[sc]);
    }
    vf::out().count("free_running_executions", evals);
    vf::out().flush();
    return 0;
}
