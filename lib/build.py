"""Content-addressed build cache.

Every harness is compiled against $VERIF_REPO/include (default /repo/include).
The cache key covers compiler, flags, every source/engine file and *every file
under the include tree*, so any edit to jsoncons forces a rebuild while an
unchanged tree re-uses the binary.
"""
import hashlib, os, subprocess, sys, time, shutil

VERIF = os.path.dirname(os.path.dirname(os.path.abspath(__file__)))
REPO = os.environ.get("VERIF_REPO", "/repo")
INCLUDE = os.path.join(REPO, "include")
BUILD = os.path.join(VERIF, "build")
CXX = os.environ.get("VERIF_CXX", "g++")

_tree_hash = None
LAST = {}   # binary name -> path of the binary built (or found in the cache) by this process


def tree_hash():
    """SHA-256 over (path, content) of every file under the include tree."""
    global _tree_hash
    if _tree_hash is None:
        h = hashlib.sha256()
        for root, dirs, files in os.walk(INCLUDE):
            dirs.sort()
            for f in sorted(files):
                p = os.path.join(root, f)
                h.update(os.path.relpath(p, INCLUDE).encode())
                h.update(b"\0")
                with open(p, "rb") as fh:
                    h.update(fh.read())
                h.update(b"\0")
        _tree_hash = h.hexdigest()
    return _tree_hash


def _engine_hash():
    h = hashlib.sha256()
    # engine/ entirely, and the headers under harness/ (shared by several translation units)
    for sub in ("engine", "harness"):
        d = os.path.join(VERIF, sub)
        for root, dirs, files in os.walk(d):
            dirs.sort()
            for f in sorted(files):
                if sub == "harness" and not f.endswith((".hpp", ".h")):
                    continue
                p = os.path.join(root, f)
                h.update(p.encode())
                with open(p, "rb") as fh:
                    h.update(fh.read())
    return h.hexdigest()


BASE_FLAGS = ["-std=c++17", "-I", INCLUDE, "-I", os.path.join(VERIF, "engine"),
              "-DJSONCONS_VERIF", "-w", "-pthread"]


def build(name, sources, flags=(), cxx=None, link_flags=(), per_tu=True, source_flags=None, no_common_flags_for=()):
    """Compile `sources` (paths relative to /verif) into build/<key>/<name>.
    `source_flags` maps a source to extra flags for that translation unit only; sources listed in
    `no_common_flags_for` are compiled without `flags` (e.g. a runtime that must not be instrumented).
    Returns the absolute path of the binary.  Raises on compile failure."""
    cxx = cxx or CXX
    flags = list(flags)
    source_flags = source_flags or {}
    h = hashlib.sha256()
    h.update(subprocess.run([cxx, "--version"], capture_output=True).stdout)
    h.update(repr((cxx, BASE_FLAGS, flags, list(link_flags), name, sorted(source_flags.items()), sorted(no_common_flags_for))).encode())
    for s in sources:
        with open(os.path.join(VERIF, s), "rb") as fh:
            h.update(s.encode()); h.update(fh.read())
    h.update(_engine_hash().encode())
    h.update(tree_hash().encode())
    key = h.hexdigest()[:24]
    outdir = os.path.join(BUILD, key)
    out = os.path.join(outdir, name)
    LAST[name] = out
    if os.path.exists(out):
        return out
    tmpdir = outdir + ".tmp%d" % os.getpid()
    os.makedirs(tmpdir, exist_ok=True)
    t0 = time.time()
    objs = []
    procs = []
    for s in sources:
        o = os.path.join(tmpdir, os.path.basename(s) + ".o")
        objs.append(o)
        tu_flags = ([] if s in no_common_flags_for else flags) + list(source_flags.get(s, []))
        cmd = [cxx] + BASE_FLAGS + tu_flags + ["-c", os.path.join(VERIF, s), "-o", o]
        procs.append((cmd, subprocess.Popen(cmd, stdout=subprocess.PIPE, stderr=subprocess.STDOUT)))
    for cmd, p in procs:
        outp = p.communicate()[0]
        if p.returncode != 0:
            sys.stderr.write("BUILD FAILED: %s\n%s\n" % (" ".join(cmd), outp.decode(errors="replace")[-6000:]))
            shutil.rmtree(tmpdir, ignore_errors=True)
            raise SystemExit(2)
    link_common = [] if no_common_flags_for else flags
    cmd = [cxx] + BASE_FLAGS + link_common + objs + list(link_flags) + ["-o", os.path.join(tmpdir, name)]
    r = subprocess.run(cmd, stdout=subprocess.PIPE, stderr=subprocess.STDOUT)
    if r.returncode != 0:
        sys.stderr.write("LINK FAILED: %s\n%s\n" % (" ".join(cmd), r.stdout.decode(errors="replace")[-6000:]))
        shutil.rmtree(tmpdir, ignore_errors=True)
        raise SystemExit(2)
    for o in objs:
        os.unlink(o)
    try:
        os.rename(tmpdir, outdir)
    except OSError:
        shutil.rmtree(tmpdir, ignore_errors=True)  # another process won the race
    sys.stderr.write("[build] %s in %.1fs\n" % (name, time.time() - t0))
    _gc()
    return out


def _gc(keep=120):
    """Keep the build cache bounded (mutant runs create many entries)."""
    try:
        ents = [os.path.join(BUILD, e) for e in os.listdir(BUILD)]
        ents = [e for e in ents if os.path.isdir(e)]
        if len(ents) <= keep:
            return
        ents.sort(key=lambda e: os.path.getmtime(e))
        for e in ents[:len(ents) - keep]:
            shutil.rmtree(e, ignore_errors=True)
    except OSError:
        pass
