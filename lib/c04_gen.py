#!/usr/bin/env python3
"""Deterministic case generator for C04 (exact integers, correctly rounded floats, big integers).
Python supplies the oracle: arbitrary-precision int, correctly rounded float()/repr(), fractions.
Usage: c04_gen.py <quick|thorough> <outfile>
Lines:
  T2D <text> <16 hex digits>          decimal literal -> expected double bits (value inside the double range)
  BIG <op> <a> <b> <result>           op in add sub mul div mod cmp; decimal operands, truncating division
  SHL <a> <k> <result> / SHR <a> <k> <result>   (SHR only for non-negative a: sign-magnitude vs two's complement not fixed by the statement)
  CONV <a> <hex> <signum> <bytes_be hex>
"""
import struct, sys
from fractions import Fraction


def bits(d):
    return "%016x" % struct.unpack(">Q", struct.pack(">d", d))[0]


def from_bits(b):
    return struct.unpack(">d", struct.pack(">Q", b))[0]


def frac_to_decimal(fr, maxdigits=1100):
    """exact decimal expansion of a positive dyadic rational (always terminates)"""
    n, d = fr.numerator, fr.denominator
    ip = n // d
    rem = n % d
    if rem == 0:
        return str(ip)
    digs = []
    while rem and len(digs) < maxdigits:
        rem *= 10
        digs.append(str(rem // d))
        rem %= d
    assert rem == 0
    return str(ip) + "." + "".join(digs)


def sci(text, shift):
    """rewrite a plain decimal as d.ddd e<exp> form (same value)"""
    if "." in text:
        ip, fp = text.split(".")
    else:
        ip, fp = text, ""
    digits = (ip + fp).lstrip("0")
    if not digits:
        return "0e0"
    # exponent of first significant digit
    lead = len(ip.lstrip("0")) if ip.strip("0") else -(len(fp) - len(fp.lstrip("0")))
    e = lead - 1 if ip.strip("0") else lead - 1
    mant = digits[0] + ("." + digits[1:] if len(digits) > 1 else "")
    return "%se%d" % (mant, e)


def nudge(text, delta):
    """add delta units in the last decimal place of a plain decimal text"""
    if "." in text:
        ip, fp = text.split(".")
    else:
        ip, fp = text, ""
    n = int(ip + fp) + delta
    if n < 0:
        return None
    s = str(n).rjust(len(fp) + 1, "0")
    return s[:len(s) - len(fp)] + ("." + s[len(s) - len(fp):] if fp else "")


def doubles(tier):
    out = set()
    mant = [0, 1, 2, (1 << 52) - 1, (1 << 52) - 2, 1 << 51, (1 << 51) + 1, 0x5555555555555, 0xAAAAAAAAAAAAA, 0x123456789ABCD]
    step = 1 if tier == "thorough" else 16
    for e in list(range(0, 2047, step)) + [0, 1, 2, 2045, 2046, 1022, 1023, 1024, 1075, 1076]:
        for m in mant:
            if e == 0 and m == 0:
                continue
            out.add((e << 52) | m)
    for k in range(-323, 309, 1 if tier == "thorough" else 7):
        d = float("1e%d" % k)
        b = struct.unpack(">Q", struct.pack(">d", d))[0]
        for x in (b - 1, b, b + 1):
            if 0 < x < (2047 << 52):
                out.add(x)
    return sorted(out)


def gen_t2d(tier, w):
    for b in doubles(tier):
        d = from_bits(b)
        w("T2D %s %s" % (repr(d), bits(d)))
        w("T2D %s %s" % ("%.17g" % d, bits(d)))
        w("T2D %s %s" % ("%.17e" % d, bits(d)))
        # the midpoint to the next double up: a tie; and +-1 unit in the last place of the exact expansion
        if b + 1 < (2047 << 52):
            up = from_bits(b + 1)
            mid = (Fraction(d) + Fraction(up)) / 2
            t = frac_to_decimal(mid)
            if len(t) <= 1100:
                exp_tie = b if (b & 1) == 0 else b + 1        # ties to even
                for form in (t, sci(t, 0)):
                    w("T2D %s %016x" % (form, exp_tie))
                lo = nudge(t, -1)
                hi = nudge(t, +1)
                if lo:
                    w("T2D %s %016x" % (lo, b))
                w("T2D %s %016x" % (hi, b + 1))
    # long literals, exponent boundaries
    for n in (1, 15, 16, 17, 18, 19, 20, 21, 30, 100, 400):
        s = "1" * n
        w("T2D %s %s" % (s + ".5" if n < 310 else "0." + s, bits(float(s + ".5" if n < 310 else "0." + s))))
        w("T2D 0.%s%s %s" % ("0" * n, "123456789", bits(float("0.%s123456789" % ("0" * n)))))
    for t in ("1.7976931348623157e308", "1.7976931348623158e308", "1.797693134862315807e308", "2.2250738585072014e-308", "2.2250738585072011e-308",
              "4.9406564584124654e-324", "4.9e-324", "5e-324", "3e-324", "2.4703282292062328e-324", "1e-323", "0.1e-322", "123e-325",
              "9007199254740993", "9007199254740992.5", "0.1", "0.2", "0.3", "1e23", "8.41e21", "2.2250738585072012e-308", "6.631236871469758e-316",
              "1e0", "1E+2", "1e-2", "-0.0", "-1e-7", "100000000000000000000000000000000000000000000000000"):
        w("T2D %s %s" % (t, bits(float(t))))


def bigset(tier):
    v = {0, 1, -1, 2, -2, 10, 255, 256, 10**19, 10**38, 10**77, -(10**19)}
    ks = [31, 32, 33, 63, 64, 65, 127, 128, 129, 191, 192]
    if tier == "thorough":
        ks += [255, 256, 257, 511, 512, 1023, 1024, 2047, 2048, 4095, 4096]
    for k in ks:
        for d in (-1, 0, 1):
            v.add(2**k + d)
            v.add(-(2**k + d))
    if tier == "thorough":
        v |= {3**200, -(7**150), 10**200 + 1, (2**64 - 1) * (2**64 - 1), (2**128 - 1) * (2**64 + 1)}
    return sorted(v, key=lambda x: (abs(x), x))


def tdiv(a, b):
    q = abs(a) // abs(b)
    return q if (a < 0) == (b < 0) else -q


def gen_big(tier, w):
    B = bigset(tier)
    for a in B:
        hx = "%x" % abs(a)
        by = abs(a).to_bytes((abs(a).bit_length() + 7) // 8 or 1, "big").hex()
        w("CONV %d %s%s %d %s" % (a, "-" if a < 0 else "", hx.upper(), (a > 0) - (a < 0), by))
        for k in (0, 1, 31, 32, 33, 63, 64, 65, 127, 128, 130):
            w("SHL %d %d %d" % (a, k, a << k))
            if a >= 0:
                w("SHR %d %d %d" % (a, k, a >> k))
        for b in B:
            w("BIG add %d %d %d" % (a, b, a + b))
            w("BIG sub %d %d %d" % (a, b, a - b))
            w("BIG mul %d %d %d" % (a, b, a * b))
            w("BIG cmp %d %d %d" % (a, b, (a > b) - (a < b)))
            if b != 0:
                q = tdiv(a, b)
                w("BIG div %d %d %d" % (a, b, q))
                w("BIG mod %d %d %d" % (a, b, a - q * b))


def main():
    tier, path = sys.argv[1], sys.argv[2]
    with open(path, "w") as fh:
        def w(s):
            # every expected double is re-derived with Python's correctly rounded float(): the generator cannot disagree with its oracle
            if s.startswith("T2D "):
                _, t, b = s.split(" ")
                assert bits(float(t)) == b, s[:120]
            fh.write(s + "\n")
        gen_t2d(tier, w)
        gen_big(tier, w)


if __name__ == "__main__":
    main()
