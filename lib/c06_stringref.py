"""Resolves the CBOR stringref extension (tags 256 = stringref-namespace, 25 = stringref; specification at
http://cbor.schmorp.de/stringref) so that the plain RFC 8949 reference decoder (lib/ref_cbor.py) can judge bytes
written with cbor_options::pack_strings.  Written from the specification, independently of jsoncons.

expand(data) -> bytes: the same data item with every tag-256 removed and every `25(index)` replaced by the definite-length
string it refers to.  Raises Invalid if the item is truncated or a reference cannot be resolved.

Rules implemented (quoting the specification):
  * tag 256 starts a new namespace (an empty table) for the tagged value and everything nested in it;
  * inside a namespace every *definite-length* byte or text string is a candidate, in the order of the first byte of
    its head; it is assigned the next index iff its length is at least the minimum length for that index:
        index 0..23 -> 3, 24..255 -> 4, 256..65535 -> 5, 65536..4294967295 -> 7, above -> 11;
    chunks of indefinite-length strings are not candidates; strings that are themselves the target of another tag
    (bignums, typed arrays, hints) are ordinary candidates;
  * 25(unsigned n) stands for the n-th string of the innermost namespace, with that string's major type.
"""


class Invalid(Exception):
    pass


def min_length(index):
    if index <= 23:
        return 3
    if index <= 255:
        return 4
    if index <= 65535:
        return 5
    if index <= 4294967295:
        return 7
    return 11


def _head(b, p):
    """(major type, additional information, argument or None, position after the head)"""
    if p >= len(b):
        raise Invalid("truncated")
    ib = b[p]
    mt, ai = ib >> 5, ib & 31
    if ai < 24:
        return mt, ai, ai, p + 1
    if ai <= 27:
        w = 1 << (ai - 24)
        if p + 1 + w > len(b):
            raise Invalid("truncated")
        return mt, ai, int.from_bytes(b[p + 1:p + 1 + w], "big"), p + 1 + w
    if ai == 31:
        return mt, ai, None, p + 1
    raise Invalid("reserved additional information")


def _min_head(mt, n):
    if n < 24:
        return bytes([(mt << 5) | n])
    if n < 0x100:
        return bytes([(mt << 5) | 24, n])
    if n < 0x10000:
        return bytes([(mt << 5) | 25]) + n.to_bytes(2, "big")
    if n < 0x100000000:
        return bytes([(mt << 5) | 26]) + n.to_bytes(4, "big")
    return bytes([(mt << 5) | 27]) + n.to_bytes(8, "big")


def _item(b, p, out, table, stats):
    mt, ai, arg, q = _head(b, p)
    if mt in (0, 1):
        if arg is None:
            raise Invalid("indefinite integer")
        out += b[p:q]
        return q
    if mt == 7:
        if arg is None:
            raise Invalid("stray break")
        out += b[p:q]
        return q
    if mt in (2, 3):
        if arg is not None:
            if q + arg > len(b):
                raise Invalid("truncated")
            out += b[p:q + arg]
            if table is not None and arg >= min_length(len(table)):
                table.append((mt, bytes(b[q:q + arg])))
            return q + arg
        out += b[p:q]
        while True:
            if q >= len(b):
                raise Invalid("truncated")
            if b[q] == 0xff:
                out.append(0xff)
                return q + 1
            cmt, cai, carg, r = _head(b, q)
            if cmt != mt or carg is None or r + carg > len(b):
                raise Invalid("bad chunk")
            out += b[q:r + carg]
            q = r + carg
    if mt in (4, 5):
        out += b[p:q]
        per = 1 if mt == 4 else 2
        if arg is not None:
            for _ in range(arg * per):
                q = _item(b, q, out, table, stats)
            return q
        while True:
            if q >= len(b):
                raise Invalid("truncated")
            if b[q] == 0xff:
                out.append(0xff)
                return q + 1
            q = _item(b, q, out, table, stats)
    # tag
    if arg is None:
        raise Invalid("indefinite tag")
    if arg == 256:
        stats["namespaces"] = stats.get("namespaces", 0) + 1
        return _item(b, q, out, [], stats)
    if arg == 25:
        imt, iai, idx, r = _head(b, q)
        if imt != 0 or idx is None:
            raise Invalid("stringref without an unsigned index")
        if table is None:
            raise Invalid("stringref outside a namespace")
        if idx >= len(table):
            raise Invalid("stringref index %d beyond the table of %d" % (idx, len(table)))
        smt, payload = table[idx]
        out += _min_head(smt, len(payload)) + payload
        stats["references"] = stats.get("references", 0) + 1
        stats["max_index"] = max(stats.get("max_index", 0), idx)
        return r
    out += b[p:q]
    return _item(b, q, out, table, stats)


def expand(data, stats=None):
    b = bytes(data)
    out = bytearray()
    if stats is None:
        stats = {}
    p = _item(b, 0, out, None, stats)
    out += b[p:]
    return bytes(out)


def selftest():
    """The example of the specification, and hand-made cases at the index classes."""
    errs = []
    # the example of the specification: three maps sharing the keys "rank", "count", "name" (byte strings, as the Perl encoder writes them)
    rank, count, name = "4472616e6b", "45636f756e74", "446e616d65"
    packed = ("d9010083" + "a3" + rank + "04" + count + "1901a1" + name + "48436f636b7461696c"
              + "a3" + "d81902" + "4442617468" + "d81901" + "190138" + "d81900" + "04"
              + "a3" + "d81902" + "44466f6f64" + "d81901" + "1902b3" + "d81900" + "04")
    plain = ("83" + "a3" + rank + "04" + count + "1901a1" + name + "48436f636b7461696c"
             + "a3" + name + "4442617468" + count + "190138" + rank + "04"
             + "a3" + name + "44466f6f64" + count + "1902b3" + rank + "04")
    got = expand(bytes.fromhex(packed))
    if got != bytes.fromhex(plain):
        errs.append("stringref: specification example expands to %s" % got.hex())
    # [ "aaa", "aaa" ] packed: 256([ "aaa", 25(0) ])
    got = expand(bytes.fromhex("d9010082" + "63616161" + "d81900"))
    if got != bytes.fromhex("82" + "63616161" + "63616161"):
        errs.append("stringref: simple reference expands to %s" % got.hex())
    # a 2-byte string is never indexed: 256(["aa", "bbb", 25(0)]) -> third is "bbb"
    got = expand(bytes.fromhex("d9010083" + "626161" + "63626262" + "d81900"))
    if got != bytes.fromhex("83" + "626161" + "63626262" + "63626262"):
        errs.append("stringref: short string must not be indexed: %s" % got.hex())
    # byte strings share the table: 256([h'010203', "abc", 25(0), 25(1)])
    got = expand(bytes.fromhex("d9010084" + "43010203" + "63616263" + "d81900" + "d81901"))
    if got != bytes.fromhex("84" + "43010203" + "63616263" + "43010203" + "63616263"):
        errs.append("stringref: byte and text strings share one table: %s" % got.hex())
    # a bignum's byte string is a candidate: 256([2(h'010000'), "abc", 25(1)])
    got = expand(bytes.fromhex("d9010083" + "c243010000" + "63616263" + "d81901"))
    if got != bytes.fromhex("83" + "c243010000" + "63616263" + "63616263"):
        errs.append("stringref: tagged byte strings are candidates: %s" % got.hex())
    # 24 three-byte strings fill indexes 0..23; the 25th (3 bytes) is too short for index 24; a 4-byte one gets 24
    items = b"".join(bytes([0x63]) + bytes([0x41 + i, 0x41, 0x41]) for i in range(25)) + bytes.fromhex("6461626364") + bytes.fromhex("d81917") + bytes.fromhex("d8191818")
    got = expand(bytes.fromhex("d90100") + bytes([0x98, 28]) + items)
    want = bytes([0x98, 28]) + b"".join(bytes([0x63]) + bytes([0x41 + i, 0x41, 0x41]) for i in range(25)) + bytes.fromhex("6461626364") + bytes([0x63, 0x41 + 23, 0x41, 0x41]) + bytes.fromhex("6461626364")
    if got != want:
        errs.append("stringref: minimum length at index 24: %s" % got.hex())
    for bad in ("d81900", "d9010081d81900", "d9010082636161"):
        try:
            expand(bytes.fromhex(bad))
            errs.append("stringref: %s should be invalid" % bad)
        except Invalid:
            pass
    return errs
