"""C08 oracle, Python side: what the output of a binary encoder must denote.

The C++ harness (harness/c08_seq.cpp) hands over, per complete event sequence and encoder configuration,
the bytes produced and the *pushed data* as model-value text (engine/mv.hpp syntax, built from the alphabet,
never from jsoncons).  This module

  * maps the pushed data to the value an independent decoder of the target format must read back
    (`expected(cfg, value)`), following the documented cross-format mappings and abstaining (ANY) where the
    format has no counterpart;
  * decodes the bytes with the reference decoders of lib/ref_cbor.py / ref_msgpack.py / ref_ubjson.py /
    ref_bson.py (written from the specifications by another author) and compares.

Two thin pre-passes are applied to CBOR only, because the reference decoder answers UNSPEC for them while the
encoder legitimately emits them: tags the encoder writes for `byte_string_value(bytes, ext_tag)` and for
`begin_multi_dim` (40 / 1040) are taken off the byte stream (and compared, in order, with the tags expected from
the pushed data), and -- for the pack_strings configuration -- the stringref namespace (tags 256 / 25,
http://cbor.schmorp.de/stringref) is expanded.  Well-formedness and value are then judged by ref_cbor.
"""
import json
from fractions import Fraction
from lib import mvtext as mv
from lib import ref_cbor, ref_msgpack, ref_ubjson, ref_bson

REF = {"cbor": ref_cbor, "msgpack": ref_msgpack, "ubjson": ref_ubjson, "bson": ref_bson}

# ext numbers that, written as a CBOR tag in front of a byte string, mean something in CBOR itself
CBOR_MEANINGFUL_TAGS = set([0, 1, 2, 3, 4, 5, 21, 22, 23, 24, 25, 32, 33, 34, 40, 256, 1040]) | set(range(64, 88))

ANY = ('any', None, 0)
NEVER = ('never', None, 0)
TAG_NOESC = 1
TAG_MD_ROW = 15
TAG_MD_COL = 16


class Ctx(object):
    def __init__(self):
        self.abstain = []      # reasons for value abstentions met while building the expectation
        self.tags = []         # CBOR: tags to be found (in order) in front of byte strings / multi-dim arrays

    def note(self, why):
        if why not in self.abstain:
            self.abstain.append(why)


def _bits(v):
    return v[1] if v[0] == 'dbl' else mv.half_to_f64_bits(v[1])


def _int_text(b):
    try:
        s = b.decode("ascii")
    except UnicodeDecodeError:
        return None
    t = s[1:] if s[:1] == '-' else s
    if not t or not t.isdigit():
        return None
    return int(s)


def _is_typed_or_plain_array(v):
    return v[0] == 'arr'


def expected(cfg, v, ctx, root=True):
    """Value the reference decoder of cfg's format must read back for pushed data v (or ANY / NEVER)."""
    fmt = cfg.split("_")[0]
    k, d, t = v[0], v[1], v[2]
    if t == TAG_NOESC:
        t = 0
    if k == 'arr':
        if t in (TAG_MD_ROW, TAG_MD_COL):
            if fmt == 'cbor':
                ctx.tags.append(40 if t == TAG_MD_ROW else 1040)
            items = [expected(cfg, e, ctx, False) for e in d]
        else:
            items = [expected(cfg, e, ctx, False) for e in d]
        if fmt == 'bson' and root:
            ctx.note("bson-root-array-written-as-document")
            return ANY
        tag = mv.TAG_CLAMPED if (t == mv.TAG_CLAMPED and cfg in ('cbor_ta', 'cbor_packta')) else 0
        return ('arr', items, tag)
    if k == 'obj':
        return ('obj', [(kk, expected(cfg, e, ctx, False)) for kk, e in d], 0)
    if fmt == 'bson' and root:
        return NEVER          # the root of a BSON document must be a document: only an error is acceptable
    if k == 'null':
        if fmt == 'cbor' and t == mv.TAG_UNDEFINED:
            return ('null', None, mv.TAG_UNDEFINED)
        if fmt == 'bson' and t == mv.TAG_UNDEFINED:
            ctx.note("bson-undefined")
            return ANY
        return ('null', None, 0)
    if k == 'bool':
        return ('bool', d, 0)
    if k == 'int':
        if fmt == 'cbor':
            if t == mv.TAG_EPOCH_SECOND:
                return ('int', d, mv.TAG_EPOCH_SECOND)
            if t in (mv.TAG_EPOCH_MILLI, mv.TAG_EPOCH_NANO):
                ctx.note("cbor-epoch-milli/nano-converted-to-seconds")
                return ANY
            return ('int', d, 0)
        if fmt == 'msgpack':
            if t == mv.TAG_EPOCH_SECOND:
                return ('ts', d * 1000000000, 0)
            if t == mv.TAG_EPOCH_MILLI:
                return ('ts', d * 1000000, 0)
            if t == mv.TAG_EPOCH_NANO:
                return ('ts', d, 0)
            return ('int', d, 0)
        if fmt == 'ubjson':
            return ('int', d, 0)
        if fmt == 'bson':
            if t == mv.TAG_EPOCH_SECOND:
                return ('int', d * 1000, mv.TAG_EPOCH_MILLI)
            if t == mv.TAG_EPOCH_MILLI:
                return ('int', d, mv.TAG_EPOCH_MILLI)
            if t == mv.TAG_EPOCH_NANO:
                ctx.note("bson-epoch-nano-truncated-to-milliseconds")
                return ANY
            return ('int', d, 0)
    if k in ('dbl', 'half'):
        bits = _bits(v)
        if fmt == 'cbor':
            if t == mv.TAG_EPOCH_SECOND:
                return ('dbl', bits, mv.TAG_EPOCH_SECOND)
            if t in (mv.TAG_EPOCH_MILLI, mv.TAG_EPOCH_NANO):
                ctx.note("cbor-epoch-milli/nano-converted-to-seconds")
                return ANY
        return ('dbl', bits, 0)
    if k == 'str':
        if fmt == 'cbor':
            if t == mv.TAG_BIGINT:
                n = _int_text(d)
                return ('num', Fraction(n), mv.TAG_BIGINT) if n is not None else ANY
            if t == mv.TAG_BIGDEC:
                f = mv._parse_decimal(d)
                if f is None:
                    ctx.note("bigdec-exponent-beyond-reference")
                    return ANY
                return ('num', f, mv.TAG_BIGDEC)
            if t == mv.TAG_BIGFLOAT:
                f = _parse_bigfloat(d)
                return ('num', f, mv.TAG_BIGFLOAT) if f is not None else ANY
            if t in (mv.TAG_DATETIME, mv.TAG_URI, mv.TAG_BASE64URL, mv.TAG_BASE64):
                return ('str', d, t)
            return ('str', d, 0)
        if fmt == 'msgpack':
            if t in (mv.TAG_EPOCH_SECOND, mv.TAG_EPOCH_MILLI, mv.TAG_EPOCH_NANO):
                n = _int_text(d)
                if n is None:
                    return ANY
                return ('ts', n * {mv.TAG_EPOCH_SECOND: 1000000000, mv.TAG_EPOCH_MILLI: 1000000, mv.TAG_EPOCH_NANO: 1}[t], 0)
            return ('str', d, 0)
        if fmt == 'ubjson':
            if t in (mv.TAG_BIGINT, mv.TAG_BIGDEC):
                f = mv._parse_decimal(d)
                if f is None:
                    ctx.note("bigdec-exponent-beyond-reference")
                    return ANY
                return ('num', f, mv.TAG_BIGINT if ref_ubjson._BASE10.match(d) else mv.TAG_BIGDEC)
            return ('str', d, 0)
        if fmt == 'bson':
            if t == mv.TAG_ID:
                return ('str', d.lower(), mv.TAG_ID)
            if t == mv.TAG_CODE:
                return ('str', d, mv.TAG_CODE)
            if t in (mv.TAG_REGEX, mv.TAG_FLOAT128):
                ctx.note("bson-regex/decimal128")
                return ANY
            return ('str', d, 0)
    if k == 'bin':
        data, ext = d
        if fmt == 'cbor':
            if ext is not None:
                if ext in CBOR_MEANINGFUL_TAGS:
                    ctx.note("ext-number-is-a-cbor-tag-with-a-meaning")
                    return ANY
                ctx.tags.append(ext)
                return ('bin', (data, None), 0)
            if t in (mv.TAG_BASE16, mv.TAG_BASE64, mv.TAG_BASE64URL):
                return ('bin', (data, None), t)
            return ('bin', (data, None), 0)
        if fmt == 'msgpack':
            if ext is None:
                return ('bin', (data, None), 0)
            if ext == 255:
                ctx.note("msgpack-ext-255-is-the-timestamp-type")
                return ANY
            if ext > 255:
                ctx.note("ext-tag-beyond-one-byte")
                return ('bin', (data, '*'), mv.TAG_EXT)
            return ('bin', (data, ext), mv.TAG_EXT)
        if fmt == 'ubjson':
            return ('arr', [('int', x, 0) for x in data], 0)
        if fmt == 'bson':
            if ext is None:
                return ('bin', (data, 0x80), mv.TAG_EXT)
            if ext > 255:
                ctx.note("ext-tag-beyond-one-byte")
                return ('bin', (data, '*'), mv.TAG_EXT)
            return ('bin', (data, ext), mv.TAG_EXT)
    raise ValueError("no expectation for %r under %s" % (v[:1], cfg))


def _parse_bigfloat(b):
    """[-]0x<hex>p[+-]<hex> as jsoncons' CBOR encoder reads it."""
    try:
        s = b.decode("ascii")
    except UnicodeDecodeError:
        return None
    neg = s.startswith("-")
    if neg:
        s = s[1:]
    if not s.lower().startswith("0x"):
        return None
    s = s[2:]
    if "p" not in s.lower():
        return None
    i = s.lower().index("p")
    ms, es = s[:i], s[i + 1:]
    eneg = es.startswith("-")
    if es[:1] in "+-":
        es = es[1:]
    try:
        m = int(ms, 16)
        e = int(es, 16)
    except ValueError:
        return None
    if e > 100000:
        return None
    val = Fraction(m) * Fraction(2) ** (-e if eneg else e)
    return -val if neg else val


def match(e, g, ctx):
    """Does decoded value g denote expectation e?"""
    if e is ANY:
        return True
    if e is NEVER:
        return False
    k = e[0]
    if k == 'arr':
        if g[0] != 'arr' or g[2] != e[2] or len(g[1]) != len(e[1]):
            return False
        return all(match(a, b, ctx) for a, b in zip(e[1], g[1]))
    if k == 'obj':
        if g[0] != 'obj' or len(g[1]) != len(e[1]):
            return False
        for (ka, va), (kb, vb) in zip(e[1], g[1]):
            if ka != kb or not match(va, vb, ctx):
                return False
        return True
    if k == 'bin' and e[1][1] == '*':
        return g[0] == 'bin' and g[2] == e[2] and g[1][0] == e[1][0]
    if g[0] in ('arr', 'obj'):
        return False
    return mv.same(e, g)


# ---------------------------------------------------------------------------------------------
# CBOR pre-passes

class _Bad(Exception):
    pass


def _head(b, pos):
    if pos >= len(b):
        raise _Bad("truncated")
    ib = b[pos]
    mt, ai = ib >> 5, ib & 31
    if ai < 24:
        return mt, ai, ai, 1
    if ai <= 27:
        w = 1 << (ai - 24)
        if pos + 1 + w > len(b):
            raise _Bad("truncated")
        return mt, ai, int.from_bytes(b[pos + 1:pos + 1 + w], "big"), 1 + w
    if ai == 31:
        return mt, ai, None, 1
    raise _Bad("reserved")


def _minlen(index):
    if index <= 23:
        return 3
    if index <= 255:
        return 4
    if index <= 65535:
        return 5
    if index <= 4294967295:
        return 7
    return 11


def _unpack(b, pos, table, out):
    mt, ai, arg, hl = _head(b, pos)
    if mt in (0, 1):
        out += b[pos:pos + hl]
        return pos + hl
    if mt == 7:
        if arg is None:
            raise _Bad("break")
        out += b[pos:pos + hl]
        return pos + hl
    if mt in (2, 3):
        if arg is None:
            raise _Bad("indefinite-string")    # never produced by the encoder; leave it to the reference
        end = pos + hl + arg
        if end > len(b):
            raise _Bad("truncated")
        item = bytes(b[pos:end])
        if table is not None and arg >= _minlen(len(table)):
            table.append(item)
        out += item
        return end
    if mt in (4, 5):
        out += b[pos:pos + hl]
        pos += hl
        if arg is None:
            while True:
                if pos >= len(b):
                    raise _Bad("truncated")
                if b[pos] == 0xff:
                    out.append(0xff)
                    return pos + 1
                pos = _unpack(b, pos, table, out)
                if mt == 5:
                    pos = _unpack(b, pos, table, out)
        n = arg * (2 if mt == 5 else 1)
        for _ in range(n):
            pos = _unpack(b, pos, table, out)
        return pos
    # tag
    if arg == 256:
        return _unpack(b, pos + hl, [], out)
    if arg == 25 and table is not None:
        m2, a2, idx, h2 = _head(b, pos + hl)
        if m2 != 0:
            raise _Bad("stringref-not-uint")
        if idx >= len(table):
            raise _Bad("stringref-out-of-range")
        out += table[idx]
        return pos + hl + h2
    out += b[pos:pos + hl]
    return _unpack(b, pos + hl, table, out)


def cbor_expand_stringrefs(data):
    """Plain CBOR equivalent of a data item using the stringref extension; (bytes, None) or (None, why)."""
    out = bytearray()
    try:
        pos = _unpack(data, 0, None, out)
    except _Bad as e:
        return None, str(e)
    except RecursionError:
        return None, "nesting"
    out += data[pos:]
    return bytes(out), None


def cbor_strip_tags(data, wanted):
    """Removes tag heads whose number is in `wanted` and that stand directly in front of a byte string
    (ext tags) or an array (40/1040).  Returns (bytes, [tag numbers removed, in order])."""
    if not wanted:
        return data, []
    marks = []
    r = ref_cbor.decode(data, marks)
    if r[0] == "ILL":
        return data, []
    marks.sort()
    drop = []
    for i, (pos, mt, ai, arg) in enumerate(marks):
        if mt != 6 or arg not in wanted or i + 1 >= len(marks):
            continue
        nmt = marks[i + 1][1]
        if (arg in (40, 1040) and nmt == 4) or (arg not in (40, 1040) and nmt == 2) or (arg in (40, 1040) and nmt == 2 and False):
            hl = 1 if ai < 24 else 1 + (1 << (ai - 24))
            drop.append((pos, hl, arg))
    if not drop:
        return data, []
    out = bytearray()
    last = 0
    for pos, hl, arg in drop:
        out += data[last:pos]
        last = pos + hl
    out += data[last:]
    return bytes(out), [a for _, _, a in drop]


# ---------------------------------------------------------------------------------------------

def judge_binary(cfg, flags, out, pushed_text):
    """Returns (outcome class, violation class or None, detail or None, validated?, nontrivial?)."""
    fmt = cfg.split("_")[0]
    v = mv.parse(pushed_text)
    ctx = Ctx()
    ill = 'i' in flags
    exp = expected(cfg, v, ctx) if not ill else ANY
    data = out
    stripped = []
    pre = ""
    if fmt == "cbor":
        if cfg in ("cbor_pack", "cbor_packta"):
            data2, why = cbor_expand_stringrefs(data)
            if data2 is None:
                if why in ("stringref-out-of-range", "stringref-not-uint") and not ill:
                    return (cfg + ":bad-stringref", "illformed", "stringref namespace cannot be resolved (%s): %s" % (why, out.hex()[:200]), False, True)
            else:
                data = data2
                pre = " (stringrefs expanded: %s)" % data.hex()[:120] if data2 != out else ""
        if ctx.tags:
            data, stripped = cbor_strip_tags(data, set(ctx.tags))
    r = REF[fmt].decode(data)
    if ill:
        return (cfg + ":ill-typed:" + r[0], None, None, False, False)
    if r[0] == "ILL":
        return (cfg + ":ILL:" + r[1], "illformed", "reference decoder: ill-formed (%s)%s: %s" % (r[1], pre, out.hex()[:240]), True, True)
    if r[0] == "UNSPEC":
        if r[1] == "trailing-bytes":
            return (cfg + ":trailing", "trailing", "reference decoder: a complete item followed by more bytes%s: %s" % (pre, out.hex()[:240]), True, True)
        return (cfg + ":abstained:" + r[1].split("-not-interpreted")[0][:40], None, None, True, False)
    got = r[1]
    if fmt == "cbor" and stripped != ctx.tags:
        return (cfg + ":tags", "exttag", "tags in front of byte strings / multi-dim arrays: expected %r, found %r: %s" % (ctx.tags, stripped, out.hex()[:240]), True, True)
    if not match(exp, got, ctx):
        return (cfg + ":different", "value", "decodes to a different value%s: %s -> %s" % (pre, out.hex()[:200], _short(got)), True, True)
    cls = cfg + ":ok"
    if 'm' in flags:
        cls += ":declared-length-ignored"
    if ctx.abstain:
        cls += ":partly-abstained"
    return (cls, None, None, True, not ctx.abstain)


def _short(v):
    k = v[0]
    if k == 'num':
        return "num(%s)#%d" % (v[1] if abs(v[1]) < 10 ** 40 else "...", v[2])
    if k == 'ts':
        return "timestamp(%d ns)" % v[1]
    if k == 'arr':
        return "[" + ",".join(_short(e) for e in v[1][:8]) + ("" if len(v[1]) <= 8 else ",...") + "]" + ("#%d" % v[2] if v[2] else "")
    if k == 'obj':
        return "{" + ",".join('"%s":%s' % (mv.show(kk), _short(e)) for kk, e in v[1][:8]) + "}"
    s = mv.render(v)
    return s if len(s) < 100 else s[:100] + "..."


# ---------------------------------------------------------------------------------------------
# JSON text: CPython's json module as a second judge of the C++ reference parser

class _Reject(Exception):
    pass


def _no_constant(name):
    raise _Reject(name)


def _pairs(items):
    return ('obj', items)


def py_json_accepts(raw):
    """Strict RFC 8259 acceptance by CPython's json (no NaN/Infinity, UTF-8 input, no lone surrogates)."""
    try:
        text = raw.decode("utf-8")
    except UnicodeDecodeError:
        return False
    try:
        v = json.loads(text, parse_constant=_no_constant, object_pairs_hook=_pairs, parse_float=lambda s: ('f', s), parse_int=lambda s: ('i', s))
    except (_Reject, ValueError, RecursionError):
        return False
    return not _has_surrogate(v)


def _has_surrogate(v):
    if isinstance(v, str):
        return any(0xd800 <= ord(c) <= 0xdfff for c in v)
    if isinstance(v, list):
        return any(_has_surrogate(e) for e in v)
    if isinstance(v, tuple) and v and v[0] == 'obj':
        return any(_has_surrogate(k) or _has_surrogate(e) for k, e in v[1])
    return False


# =============================================================================================
# (B) transcoding: from the value the *source* format's reference decoder reads to what every target must denote

def as_pushed(src, v):
    """The data jsoncons' decoder of format `src` hands to an encoder for reference value v, in the vocabulary of
    `expected()` (model-value tuples with jsoncons semantic tags).  Where the textual rendering of a number is
    not fixed by its value, ('numstr', Fraction, tag) stands for "a string with that tag whose text denotes it";
    ('alt', [a, b]) for either of two documented representations."""
    k, d, t = v[0], v[1], v[2]
    if k == 'alt':
        return ('alt', [as_pushed(src, a) for a in d], 0)
    if k == 'arr':
        return ('arr', [as_pushed(src, e) for e in d], t)
    if k == 'obj':
        return ('obj', [(kk, as_pushed(src, e)) for kk, e in d], 0)
    if k == 'num':
        if t == mv.TAG_BIGINT:
            return ('str', str(int(d)).encode(), mv.TAG_BIGINT)
        return ('numstr', d, t)
    if k == 'ts':
        s, ns = divmod(d, 1000000000)
        alts = [('str', str(d).encode(), mv.TAG_EPOCH_NANO)]
        if ns == 0 and 0 <= s < (1 << 32):
            alts.append(('int', s, mv.TAG_EPOCH_SECOND))
        return ('alt', alts, 0)
    if k == 'int':
        if not (mv.INT64_MIN <= d <= mv.UINT64_MAX):
            return ('str', str(d).encode(), mv.TAG_BIGINT)
        return ('int', d, t)
    return (k, d, t)


def expected_x(cfg, p, ctx, root=True):
    """expected() extended with the two extra node kinds of as_pushed."""
    fmt = cfg.split("_")[0]
    k = p[0]
    if k == 'alt':
        return ('alt', [expected_x(cfg, a, ctx, root) for a in p[1]], 0)
    if k == 'numstr':
        if fmt == 'bson' and root:
            return NEVER
        f, t = p[1], p[2]
        if fmt == 'cbor':
            return ('num', f, t)
        if fmt == 'ubjson' and t == mv.TAG_BIGDEC:
            return ('numany', f, 0)
        return ('strnum', f, t)
    if k == 'arr':
        items = [expected_x(cfg, e, ctx, False) for e in p[1]]
        if fmt == 'bson' and root:
            ctx.note("bson-root-array-written-as-document")
            return ANY
        return ('arr', items, 0)          # array tags (clamped) are not carried by any plain re-encoding
    if k == 'obj':
        return ('obj', [(kk, expected_x(cfg, e, ctx, False)) for kk, e in p[1]], 0)
    return expected(cfg, p, ctx, root)


def _text_value(b, t):
    if t == mv.TAG_BIGFLOAT:
        return _parse_bigfloat(b)
    return mv._parse_decimal(b)


def match_x(e, g, ctx):
    k = e[0]
    if k == 'alt':
        return any(match_x(a, g, ctx) for a in e[1])
    if k == 'strnum':
        return g[0] == 'str' and g[2] == 0 and _text_value(g[1], e[2]) == e[1]
    if k == 'numany':
        return g[0] in ('num', 'int') and Fraction(g[1]) == e[1]
    if e is ANY:
        return True
    if e is NEVER:
        return False
    if k == 'arr':
        if g[0] != 'arr' or len(g[1]) != len(e[1]):
            return False
        return all(match_x(a, b, ctx) for a, b in zip(e[1], g[1]))
    if k == 'obj':
        if g[0] != 'obj' or len(g[1]) != len(e[1]):
            return False
        m = dict(g[1])
        if len(m) != len(g[1]):
            return False
        return all(kk in m and match_x(ve, m[kk], ctx) for kk, ve in e[1])
    return match(e, g, ctx)


# --- JSON text targets -------------------------------------------------------------------------

def json_tree(raw):
    """Strict parse; numbers are kept as their literal text.  None if CPython's json rejects the text."""
    try:
        text = raw.decode("utf-8")
        v = json.loads(text, parse_constant=_no_constant, object_pairs_hook=_pairs, parse_float=lambda s: ('n', s), parse_int=lambda s: ('n', s))
    except (_Reject, ValueError, RecursionError):
        return False, None
    if _has_surrogate(v):
        return False, None
    return True, v


def _numtok(j):
    return isinstance(j, tuple) and len(j) == 2 and j[0] == 'n'


def _b64(data, url):
    import base64
    if url:
        return base64.urlsafe_b64encode(data).rstrip(b"=").decode()
    return base64.b64encode(data).decode()


def json_match(p, j, ctx):
    """Does JSON tree j (default encode options) denote pushed data p?"""
    k = p[0]
    if k == 'alt':
        return any(json_match(a, j, ctx) for a in p[1])
    if k == 'null':
        return j is None
    if k == 'bool':
        return j is p[1]
    if k == 'int':
        return _numtok(j) and _exact(j[1]) == p[1]
    if k in ('dbl', 'half'):
        bits = _bits(p)
        if mv.is_nan64(bits) or (bits & 0x7fffffffffffffff) == 0x7ff0000000000000:
            return j is None
        if not _numtok(j):
            return False
        try:
            return mv.f64_bits(float(j[1])) == bits
        except (ValueError, OverflowError):
            return False
    if k == 'numstr':
        if p[2] == mv.TAG_BIGDEC:
            return _numtok(j) and _exact(j[1]) == p[1]
        return isinstance(j, str) and _text_value(j.encode(), p[2]) == p[1]
    if k == 'str':
        t = p[2]
        if t == mv.TAG_BIGINT:
            n = _int_text(p[1])
            return _numtok(j) and n is not None and _exact(j[1]) == n
        if t == mv.TAG_BIGDEC:
            f = mv._parse_decimal(p[1])
            return _numtok(j) and f is not None and _exact(j[1]) == f
        try:
            return isinstance(j, str) and j == p[1].decode("utf-8")
        except UnicodeDecodeError:
            return False
    if k == 'bin':
        data, ext = p[1]
        if not isinstance(j, str):
            return False
        if p[2] == mv.TAG_BASE16 and ext is None:
            return j.upper() == data.hex().upper()
        if p[2] == mv.TAG_BASE64 and ext is None:
            return j == _b64(data, False)
        return j == _b64(data, True)
    if k == 'arr':
        return isinstance(j, list) and len(j) == len(p[1]) and all(json_match(a, b, ctx) for a, b in zip(p[1], j))
    if k == 'obj':
        if not (isinstance(j, tuple) and len(j) == 2 and j[0] == 'obj') or len(j[1]) != len(p[1]):
            return False
        m = {}
        for kk, vv in j[1]:
            if kk in m:
                return False
            m[kk] = vv
        for kk, pv in p[1]:
            try:
                ks = kk.decode("utf-8")
            except UnicodeDecodeError:
                return False
            if ks not in m or not json_match(pv, m[ks], ctx):
                return False
        return True
    return False


def _exact(tok):
    try:
        return Fraction(tok)
    except (ValueError, ZeroDivisionError):
        return None


def has_duplicate_keys(v):
    if v[0] == 'arr':
        return any(has_duplicate_keys(e) for e in v[1])
    if v[0] == 'obj':
        ks = [kk for kk, _ in v[1]]
        return len(set(ks)) != len(ks) or any(has_duplicate_keys(e) for _, e in v[1])
    return False


def judge_transcode(src, srcref, target, route, result):
    """srcref: answer of the source format's reference decoder for the input; result: what the executor printed
    for this target and route.  Returns (outcome class, violation class or None, detail)."""
    tfmt = "json" if target in ("json", "jsonp") else target
    head, _, body = result.partition(":")
    name = "%s>%s.%s" % (src, target, route)
    if head == "E":
        if tfmt == "json":
            return (name + ":error", "jsonerror", "re-encoding as JSON text reported an error: " + body[:120])
        return (name + ":error:" + re_sub_digits(body)[:40], None, None)
    if head == "X":
        if body.startswith("assertion"):
            return (name + ":assertion", None, None)      # an internal assertion is an error report; its kind is C05's subject
        return (name + ":foreign-exception", "foreign", "exception that is not a jsoncons error: " + body[:120])
    raw = bytes.fromhex(body)
    known = srcref[0] == "OK"
    ctx = Ctx()
    if tfmt == "json":
        cxx_ok = head == "O1"
        py_ok, tree = json_tree(raw)
        if not cxx_ok or not py_ok:
            return (name + ":ill-formed", "illformed", "not RFC 8259 JSON text (reference parser %s, CPython json %s): %r" % ("accepts" if cxx_ok else "rejects", "accepts" if py_ok else "rejects", raw[:160]))
        if not known:
            return (name + ":well-formed:source-unspecified", None, None)
        p = as_pushed(src, srcref[1])
        if not json_match(p, tree, ctx):
            return (name + ":different", "value", "JSON text does not denote the source value %s: %r" % (_short(srcref[1])[:160], raw[:160]))
        return (name + ":ok", None, None)
    r = REF[tfmt].decode(raw)
    if r[0] == "ILL":
        return (name + ":ILL:" + r[1], "illformed", "reference decoder: ill-formed (%s): %s" % (r[1], raw.hex()[:200]))
    if r[0] == "UNSPEC" and r[1] == "trailing-bytes":
        return (name + ":trailing", "trailing", "reference decoder: a complete item followed by more bytes: %s" % raw.hex()[:200])
    if not known:
        return (name + ":well-formed:source-unspecified", None, None)
    p = as_pushed(src, srcref[1])
    exp = expected_x(tfmt, p, ctx)
    data = raw
    if tfmt == "cbor" and ctx.tags and r[0] == "UNSPEC":
        data, stripped = cbor_strip_tags(raw, set(ctx.tags))
        r = REF[tfmt].decode(data)
        if r[0] == "OK" and stripped != ctx.tags:
            return (name + ":tags", "exttag", "tags in front of byte strings: expected %r, found %r: %s" % (ctx.tags, stripped, raw.hex()[:200]))
    if r[0] == "UNSPEC":
        return (name + ":abstained:" + r[1].split("-not-interpreted")[0][:30], None, None)
    if r[0] == "ILL":
        return (name + ":ILL:" + r[1], "illformed", "reference decoder: ill-formed (%s): %s" % (r[1], raw.hex()[:200]))
    if not match_x(exp, r[1], ctx):
        return (name + ":different", "value", "source value %s re-encoded as %s reads back as %s" % (_short(srcref[1])[:140], raw.hex()[:120], _short(r[1])[:140]))
    return (name + (":ok:partly-abstained" if ctx.abstain else ":ok"), None, None)


def re_sub_digits(s):
    import re
    return re.sub(r"\d+", "N", s)
